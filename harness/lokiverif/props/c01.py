"""C01 — parsing and regenerating Fortran preserves program behaviour.

Streams:
  minif      generated source programs (grammar-driven expression generator: the TEXT is generated, the expected tree is
             derived from the text's own parse by construction), through Sourcefile.from_source(FP) -> fgen -> FP again.
             tie: token lines of the real fgen == model print_stmts; reference line reader == real frontend block structure;
             model re-read == real re-read (parentheses erased); Coq exec of both == python reference run.
             oracle: reference interpreter on expected / first parse / second parse, gfortran on a sample.
  rich       template programs with features beyond MiniF; oracle only: gfortran original vs regenerated.
"""
import os, re, json, random, itertools
from ..framework import Property
from ..coqlit import coq, C, Nat, Some, Raw
from .. import bridge_expr as BE
from .. import minif as MF
from .c06 import tokenise_f, tok_coq, arith_safe as c06_arith_safe, logic_safe as c06_logic_safe

BOUND = 4
SCALARS = ['a', 'b', 'c', 'n', 'k']
LOOPV = ['i', 'j']
WHILEV = ['w1', 'w2']
ARRAYS = {'x': [[1, BOUND]], 'y': [[1, BOUND]], 'm': [[1, BOUND], [1, BOUND]]}
INTRINSICS = ('mod', 'abs', 'min', 'max')

# =====================================================================================================
# 1. source-level programs: expression AST generated along the Fortran grammar levels, so that the printed
#    text parses (by the standard) to exactly this AST: ['lit',n] ['var',x] ['elem',a,[..]] ['fn',f,[..]] ['par',e]
#    ['neg',e] ['pos',e] ['bin',op,l,r] ['cmp',op,l,r] ['and',l,r] ['or',l,r] ['not',e] ['log',b] ['eqv',l,r] ['neqv',l,r]

class SrcGen:
    def __init__(self, rng, scalars, arrays, opts=None):
        self.rng, self.scalars, self.arrays = rng, list(scalars), dict(arrays)
        self.o = {'pos': 0.02, 'eqv': 0.04, 'pow': 0.1, 'div': 0.15, 'fn': 0.12, 'canon': False}
        self.o.update(opts or {})
        # canon: only text whose first IR is reproduced exactly by re-reading the generated text (C02's class): no unary plus, parentheses
        # only around operator expressions (they become Parenthesised* nodes) and around logical operands that need them
        if self.o['canon']: self.o['pos'] = 0.0; self.o['eqv'] = 0.0

    def idx(self, free):
        rng = self.rng
        ch = rng.random()
        if free and ch < 0.55: return ['var', rng.choice(free)]
        if ch < 0.8: return ['lit', rng.randint(1, BOUND)]
        return ['bin', '+', ['fn', 'mod', [['fn', 'abs', [['var', rng.choice(self.scalars)]]], ['lit', BOUND]]], ['lit', 1]]

    def leaf(self, free):
        rng = self.rng
        c = rng.random()
        if c < 0.33: return ['lit', rng.randint(0, 5)]
        if c < 0.8 or not self.arrays: return ['var', rng.choice(self.scalars + list(free))]
        a = rng.choice(sorted(self.arrays))
        return ['elem', a, [self.idx(free) for _ in self.arrays[a]]]

    def primary(self, d, free):
        rng = self.rng
        r = rng.random()
        if d <= 0 or r < 0.4: return self.leaf(free)
        if r < 0.68:
            inner = self.expr(d - 1, free)
            if self.o['canon'] and inner[0] not in ('bin', 'neg'): return inner
            return ['par', inner]
        if r < 0.68 + self.o['fn']:
            f = rng.choice(INTRINSICS)
            if f == 'abs': return ['fn', f, [self.expr(d - 1, free)]]
            if f == 'mod': return ['fn', f, [self.expr(d - 1, free), self.nonzero(d - 1, free)]]
            return ['fn', f, [self.expr(d - 1, free) for _ in range(rng.choice([2, 2, 3]))]]
        return self.leaf(free)

    def nonzero(self, d, free):
        rng = self.rng
        if rng.random() < 0.6: return ['lit', rng.randint(1, 4)]
        v = self.leaf(free)
        return ['par', ['bin', '+', ['bin', '*', v, v], ['lit', 1]]]

    def mult_operand(self, d, free):
        p = self.primary(d, free)
        if self.rng.random() < self.o['pow']:
            ex = ['lit', self.rng.randint(0, 2)] if self.rng.random() < 0.8 else ['par', ['bin', '-', ['lit', 3], ['lit', self.rng.randint(1, 2)]]]
            if self.rng.random() < 0.15: ex = ['bin', '**', ex, ['lit', self.rng.randint(0, 1)]]     # right-associative chain
            return ['bin', '**', p, ex]
        return p

    def add_operand(self, d, free):
        rng = self.rng
        e = self.mult_operand(d, free)
        for _ in range(rng.choice([0, 0, 0, 1, 1, 2])):
            if rng.random() < self.o['div']:
                e = ['bin', '/', e, self.nonzero(d - 1, free)]
            else:
                e = ['bin', '*', e, self.mult_operand(d - 1, free)]
        return e

    def expr(self, d, free=()):
        rng = self.rng
        e = self.add_operand(d, free)
        r = rng.random()
        if r < 0.1: e = ['neg', e]
        elif r < 0.1 + self.o['pos']: e = ['pos', e]
        for _ in range(rng.choice([0, 0, 1, 1, 2]) if d > 0 else 0):
            e = ['bin', rng.choice('+-'), e, self.add_operand(d - 1, free)]
        return e

    # logical
    def _topped(self, d, free, tops):
        for _ in range(6):
            l = self.logic(d, free)
            if l[0] in tops: return l
        return None

    def level4(self, d, free):
        rng = self.rng
        r = rng.random()
        if r < 0.08: return ['log', rng.random() < 0.5]
        if d > 0 and r < 0.25 and not self.o['canon']: return ['par', self.logic(d - 1, free)]
        return ['cmp', rng.choice(['<', '<=', '>', '>=', '==', '!=']), self.expr(min(d, 1), free), self.expr(min(d, 1), free)]

    def and_operand(self, d, free):
        e = self.level4(d, free)
        # `.not. (.not. x)` is regenerated as `.not..not.x` (finding F7): kept out of the in-class stream
        if self.rng.random() < 0.15 and not _top_is_not(e): return ['not', e]
        if self.o['canon'] and d > 0 and self.rng.random() < 0.1:
            l = self._topped(d - 1, free, ('and', 'or'))
            if l is not None: return ['not', ['par', l]]
        return e

    def or_operand(self, d, free):
        e = self.and_operand(d, free)
        for _ in range(self.rng.choice([0, 0, 0, 1, 2]) if d > 0 else 0):
            x = self.and_operand(d - 1, free)
            if self.o['canon'] and self.rng.random() < 0.25:
                l = self._topped(d - 1, free, ('or',))
                if l is not None: x = ['par', l]
            e = ['and', e, x]
        return e

    def equiv_operand(self, d, free):
        e = self.or_operand(d, free)
        for _ in range(self.rng.choice([0, 0, 0, 0, 1]) if d > 0 else 0):
            e = ['or', e, self.or_operand(d - 1, free)]
        return e

    def logic(self, d, free=()):
        e = self.equiv_operand(d, free)
        if d > 0 and self.rng.random() < self.o['eqv']:
            e = [self.rng.choice(['eqv', 'neqv']), e, self.equiv_operand(d - 1, free)]
        return e

def _top_is_not(e):
    while e[0] == 'par': e = e[1]
    return e[0] == 'not'

REL_TXT = {'==': ('==', '.eq.'), '!=': ('/=', '.ne.'), '<': ('<', '.lt.'), '<=': ('<=', '.le.'), '>': ('>', '.gt.'), '>=': ('>=', '.ge.')}

class Style:
    """surface variation of the generated source (what a reader must normalise): blanks, case, dotted operators, ENDDO/ENDIF"""
    def __init__(self, rng, plain=False):
        self.rng = rng
        self.plain = plain
        self.tight = (not plain) and rng.random() < 0.3
        self.upper = (not plain) and rng.random() < 0.3
        self.dotted = (not plain) and rng.random() < 0.3
        self.endjoin = (not plain) and rng.random() < 0.3
        self.cont = 0.0 if plain else rng.choice([0.0, 0.0, 0.08])
        self.blank = 0.0 if plain else rng.choice([0.0, 0.05])
        self.ind = 2 if plain else rng.choice([0, 2, 2, 4])
    def kw(self, s):
        if self.plain: return s
        r = self.rng.random()
        if self.upper: return s.upper()
        if r < 0.05: return s.capitalize()
        return s
    def name(self, s):
        return s.upper() if self.upper and self.rng.random() < 0.5 else s
    def op(self, o):
        if self.tight and o not in ('.and.', '.or.', '.not.', '.eqv.', '.neqv.'): return o
        return ' %s ' % o

def stext(e, st):
    """text of a source AST (parentheses only where the AST has a 'par' node)"""
    k = e[0]
    if k == 'lit': return str(e[1])
    if k == 'var': return st.name(e[1])
    if k == 'log': return st.kw('.true.' if e[1] else '.false.')
    if k in ('elem', 'fn'): return '%s(%s)' % (st.name(e[1]), ', '.join(stext(a, st) for a in e[2]))
    if k == 'par': return '(' + stext(e[1], st) + ')'
    if k == 'neg': return '-' + (' ' if not st.tight and st.rng.random() < 0.2 else '') + stext(e[1], st)
    if k == 'pos': return '+' + stext(e[1], st)
    if k == 'bin': return stext(e[2], st) + st.op(e[1]) + stext(e[3], st)
    if k == 'cmp':
        sym_, dot = REL_TXT[e[1]]
        o = dot if st.dotted else sym_
        return stext(e[2], st) + (' %s ' % st.kw(o) if o.startswith('.') else st.op(o)) + stext(e[3], st)
    if k == 'and': return stext(e[1], st) + ' %s ' % st.kw('.and.') + stext(e[2], st)
    if k == 'or': return stext(e[1], st) + ' %s ' % st.kw('.or.') + stext(e[2], st)
    if k == 'eqv': return stext(e[1], st) + ' %s ' % st.kw('.eqv.') + stext(e[2], st)
    if k == 'neqv': return stext(e[1], st) + ' %s ' % st.kw('.neqv.') + stext(e[2], st)
    if k == 'not': return st.kw('.not.') + ' ' + stext(e[1], st)
    raise ValueError(e)

def mark_paren(s):
    """FParser2IR.visit_Parenthesis: Sum/Product/Quotient/Power become their Parenthesised* class, anything else is returned as is"""
    if s[0] in ('sum', 'prod', 'quot', 'pow'): return [s[0], True] + s[2:]
    return s

def conv(e):
    """expected bridge structure of a source AST = what FParser2IR.create_operation builds"""
    k = e[0]
    if k == 'lit': return ['int', e[1]]
    if k == 'var': return ['var', e[1]]
    if k == 'log': return ['log', e[1]]
    if k in ('elem', 'fn'): return ['call', e[1]] + [conv(a) for a in e[2]]
    if k == 'par': return mark_paren(conv(e[1]))
    if k == 'neg': return ['prod', False, ['py', -1], conv(e[1])]
    if k == 'pos': return ['sum', False, conv(e[1])]
    if k == 'bin':
        l, r = conv(e[2]), conv(e[3])
        o = e[1]
        if o == '+': return ['sum', False, l, r]
        if o == '-': return ['sum', False, l, ['prod', False, ['py', -1], r]]
        if o == '*': return ['prod', False, l, r]
        if o == '/': return ['quot', False, l, r]
        if o == '**': return ['pow', False, l, r]
    if k == 'cmp': return ['cmp', e[1], conv(e[2]), conv(e[3])]
    if k == 'and': return ['and', conv(e[1]), conv(e[2])]
    if k == 'or': return ['or', conv(e[1]), conv(e[2])]
    if k == 'not': return ['not', conv(e[1])]
    if k == 'eqv':
        l, r = conv(e[1]), conv(e[2]); return ['or', ['and', l, r], ['not', ['or', l, r]]]
    if k == 'neqv':
        l, r = conv(e[1]), conv(e[2]); return ['and', ['not', ['and', l, r]], ['or', l, r]]
    raise ValueError(e)

# ---- statements: ['assign',x,E] ['store',a,[E],E] ['call',f,[E]] ['do',v,lo,hi,st,body] ['while',c,body]
#                  ['if',c,tb,eb,has_elseif] ['ifi',c,simple] ['com',text]     (E = source AST here, bridge structure after conv)

CALLEES = {
    # name: (params [(name, isarray, intent)], body generator key)
    'p1': [('u', False, 'in'), ('v', False, 'inout')],
    'p2': [('u', False, 'in'), ('t', True, 'inout'), ('v', False, 'inout')],
    'p3': [('u', False, 'in'), ('u2', False, 'in'), ('v', False, 'out')],
}

class ProgGen:
    def __init__(self, rng, opts=None):
        self.rng = rng
        self.o = {'do': 0.2, 'if': 0.2, 'while': 0.06, 'store': 0.14, 'call': 0.1, 'com': 0.06, 'ifi': 0.08, 'canon': False}
        self.o.update(opts or {})
        self.g = SrcGen(rng, SCALARS, ARRAYS, {'canon': self.o['canon']})
        self.used_calls = set()

    def simple(self, free, nocall=False, wfree=()):
        rng, g = self.rng, self.g
        r = rng.random()
        if not nocall and r < self.o['call']:
            f = rng.choice(sorted(CALLEES))
            self.used_calls.add(f)
            avail = [v for v in SCALARS]
            rng.shuffle(avail)
            args = []
            for (d, isarr, intent) in CALLEES[f]:
                if isarr: args.append(['var', rng.choice(['x', 'y'])])
                elif intent == 'in':
                    args.append(g.expr(1, free) if rng.random() < 0.7 else ['var', rng.choice(SCALARS + list(free))])
                else: args.append(['var', avail.pop()])
            # a variable passed to an inout/out dummy must not occur anywhere else in the argument list
            outs = [a[1] for (d, isarr, intent), a in zip(CALLEES[f], args) if intent != 'in']
            for i, ((d, isarr, intent), a) in enumerate(zip(CALLEES[f], args)):
                if intent == 'in' and (ast_vars(a) & set(outs)):
                    args[i] = ['lit', rng.randint(0, 5)]
            return ['call', f, args]
        if r < self.o['call'] + self.o['store']:
            a = rng.choice(sorted(ARRAYS))
            return ['store', a, [g.idx(free) for _ in ARRAYS[a]], g.expr(rng.choice([1, 1, 2]), free)]
        return ['assign', rng.choice(SCALARS), g.expr(rng.choice([0, 1, 1, 2, 2]), free)]

    def stmts(self, d, n, free, wfree):
        rng, g, o = self.rng, self.g, self.o
        out = []
        for _ in range(n):
            r = rng.random()
            if d > 0 and r < o['do'] and len(free) < len(LOOPV):
                v = LOOPV[len(free)]
                ch = rng.random()
                if ch < 0.2:
                    lo, hi = ['lit', rng.randint(1, BOUND)], ['lit', 1]
                    st = rng.choice([['neg', ['lit', 1]], ['neg', ['lit', 2]]])
                elif ch < 0.35 and not o['canon']:
                    lo, hi, st = ['lit', 1], ['lit', rng.randint(1, BOUND)], ['lit', 1]          # explicit unit step
                elif ch < 0.45:
                    lo, hi, st = ['lit', 1], ['lit', rng.randint(1, BOUND)], ['lit', 2]
                elif ch < 0.55:
                    lo, hi, st = ['lit', 1], ['fn', 'min', [['fn', 'abs', [['var', rng.choice(SCALARS)]]], ['lit', BOUND]]], None
                else:
                    lo, hi, st = ['lit', rng.randint(1, 2)], ['lit', rng.randint(1, BOUND)], None
                out.append(['do', v, lo, hi, st, self.stmts(d - 1, rng.randint(1, 3), free + [v], wfree)])
            elif d > 0 and r < o['do'] + o['if']:
                out.append(self.select(d, free, wfree) if rng.random() < o.get('select', 0.0) else self.cond(d, free, wfree))
            elif d > 0 and r < o['do'] + o['if'] + o['while'] and len(wfree) < len(WHILEV):
                w = WHILEV[len(wfree)]
                out.append(['assign', w, ['lit', 0]])
                body = self.stmts(d - 1, rng.randint(1, 2), free, wfree + [w]) + [['assign', w, ['bin', '+', ['var', w], ['lit', 1]]]]
                out.append(['while', ['cmp', '<', ['var', w], ['lit', rng.randint(0, 3)]], body])
            elif r < o['do'] + o['if'] + o['while'] + o['com']:
                out.append(['com', '! ' + ' '.join(rng.choice(['loop', 'over', 'levels', 'TODO', 'x = 1', 'end if', "it's", '(a+b)']) for _ in range(rng.randint(1, 3)))])
            elif r < o['do'] + o['if'] + o['while'] + o['com'] + o['ifi']:
                out.append(['ifi', g.logic(1, free), self.simple(free)])
            else:
                out.append(self.simple(free))
        return out

    def select(self, d, free, wfree):
        """['select', selector, blocks, default_pos, default_body, name]: SELECT CASE over an integer selector with pairwise disjoint
        selectors (single values, value lists, closed and half-open ranges), every body NON-empty (empty bodies are finding F1),
        CASE DEFAULT absent or at a random position (first / middle / last), optionally a construct name"""
        rng, g = self.rng, self.g
        shapes = [[['v', ['lit', 1]]], [['v', ['lit', 2]], ['v', ['lit', 4]]], [['r', ['lit', 5], ['lit', 6]]], [['r', None, ['lit', 0]]],
                  [['r', ['lit', 13], None]], [['v', ['lit', 3]], ['r', ['lit', 10], ['lit', 12]]], [['v', ['lit', 7]]]]
        rng.shuffle(shapes)
        nb = rng.randint(2, 4)
        def body():
            b = self.stmts(max(d - 1, 0), rng.randint(1, 2), free, wfree)
            if all(x[0] == 'com' for x in b): b.append(self.simple(free, nocall=True))
            return b
        blocks = [[vals, body()] for vals in shapes[:nb]]
        if rng.random() < 0.85:
            dpos, dbody = rng.choice([0, 0, rng.randint(0, nb), nb]), body()
        else:
            dpos, dbody = None, None
        sel = rng.choice([
            ['fn', 'mod', [['fn', 'abs', [g.expr(1, free)]], ['lit', 10]]],
            ['bin', '-', ['fn', 'mod', [['fn', 'abs', [['var', rng.choice(SCALARS + list(free))]]], ['lit', 16]]], ['lit', 1]],
            ['var', rng.choice(SCALARS)]] + ([['bin', '+', ['bin', '*', ['var', free[-1]], ['lit', rng.randint(1, 3)]], ['lit', rng.randint(-2, 2) + 2]]] * 3 if free else []))
        self.nsel = getattr(self, 'nsel', 0) + 1      # construct names are unique in a scoping unit
        return ['select', sel, blocks, dpos, dbody, rng.choice([None, None, 'sel%d' % self.nsel])]

    def cond(self, d, free, wfree):
        rng, g = self.rng, self.g
        c = g.logic(rng.choice([0, 0, 1, 1]), free)
        tb = self.stmts(d - 1, rng.randint(1, 2), free, wfree)
        r = rng.random()
        if r < 0.3: return ['if', c, tb, [], False]
        if r < 0.6: return ['if', c, tb, self.stmts(d - 1, rng.randint(1, 2), free, wfree), False]
        if r < 0.72:
            # ELSE followed by a nested IF construct (not an ELSE IF)
            return ['if', c, tb, [self.cond(max(d - 1, 0), free, wfree)], False]
        inner = self.cond(d, free, wfree) if rng.random() < 0.5 else ['if', g.logic(1, free), self.stmts(max(d - 1, 0), 1, free, wfree), self.stmts(max(d - 1, 0), rng.randint(0, 1), free, wfree), False]
        return ['if', c, tb, [inner], True]

def ast_vars(e):
    """names (variables and arrays) mentioned by a source AST"""
    k = e[0]
    if k == 'var': return {e[1]}
    if k in ('lit', 'log'): return set()
    if k in ('elem', 'fn'):
        out = {e[1]} if k == 'elem' else set()
        for a in e[2]: out |= ast_vars(a)
        return out
    out = set()
    for c in e[1:]:
        if isinstance(c, list): out |= ast_vars(c)
    return out

def callee_src(name, rng):
    """source AST bodies of the fixed callees (random constants)"""
    k1, k2 = rng.randint(1, 4), rng.randint(0, 3)
    if name == 'p1':
        return [['assign', 'v', ['bin', '+', ['bin', '*', ['var', 'v'], ['lit', k1]], ['var', 'u']]]]
    if name == 'p2':
        return [['do', 'q', ['lit', 1], ['lit', BOUND], None, [['store', 't', [['var', 'q']], ['bin', '+', ['elem', 't', [['var', 'q']]], ['bin', '*', ['var', 'u'], ['var', 'q']]]]]],
                ['if', ['cmp', '>', ['var', 'u'], ['lit', k2]], [['assign', 'v', ['bin', '-', ['var', 'v'], ['lit', 1]]]], [['assign', 'v', ['elem', 't', [['lit', k1]]]]], False]]
    if name == 'p3':
        return [['assign', 'v', ['bin', '-', ['var', 'u'], ['bin', '*', ['var', 'u2'], ['lit', k1]]]],
                ['ifi', ['cmp', '<', ['var', 'v'], ['lit', 0]], ['assign', 'v', ['neg', ['var', 'v']]]]]
    raise ValueError(name)

def conv_stmts(ss):
    out = []
    for s in ss:
        k = s[0]
        if k == 'assign': out.append(['assign', s[1], conv(s[2])])
        elif k == 'store': out.append(['store', s[1], [conv(i) for i in s[2]], conv(s[3])])
        elif k == 'call': out.append(['call', s[1], [conv(a) for a in s[2]]])
        elif k == 'do': out.append(['do', s[1], conv(s[2]), conv(s[3]), None if s[4] is None else conv(s[4]), conv_stmts(s[5])])
        elif k == 'while': out.append(['while', conv(s[1]), conv_stmts(s[2])])
        elif k == 'if': out.append(['if', conv(s[1]), conv_stmts(s[2]), conv_stmts(s[3]), bool(s[4])])
        elif k == 'ifi': out.append(['ifi', conv(s[1]), conv_stmts([s[2]])[0]])
        elif k == 'com': out.append(['com', s[1]])
        elif k == 'select':
            # canonical form (what the IR holds): ['select', E, [values per block], [bodies], default body]
            out.append(['select', conv(s[1]), [[conv_caseval(v) for v in vals] for vals, _ in s[2]], [conv_stmts(b) for _, b in s[2]],
                        conv_stmts(s[4]) if s[4] is not None else []])
        else: raise ValueError(s)
    return out

def conv_caseval(v):
    if v[0] == 'v': return ['v', conv(v[1])]
    return ['range', None if v[1] is None else conv(v[1]), None if v[2] is None else conv(v[2])]

def caseval_text(v, st):
    if v[0] == 'v': return stext(v[1], st)
    return '%s:%s' % ('' if v[1] is None else stext(v[1], st), '' if v[2] is None else stext(v[2], st))

def src_lines(ss, st, depth=1):
    """Fortran text lines of source-AST statements"""
    out = []
    pad = ' ' * (st.ind * depth)
    def wrap(line):
        # optional continuation at a blank outside of any token
        if st.cont and st.rng.random() < st.cont and line.count(' ') > 3 and "'" not in line and '!' not in line:
            cands = [m.start() for m in re.finditer(r' (?=[-+*/(]|\.)', line) if m.start() > len(line) // 3]
            if cands:
                p = st.rng.choice(cands)
                lead = '&' if st.rng.random() < 0.5 else ''
                return [line[:p] + ' &', pad + '   ' + lead + line[p:]]
        return [line]
    def simple_text(s):
        if s[0] == 'assign': return '%s = %s' % (st.name(s[1]), stext(s[2], st))
        if s[0] == 'store': return '%s(%s) = %s' % (st.name(s[1]), ', '.join(stext(i, st) for i in s[2]), stext(s[3], st))
        if s[0] == 'call': return '%s %s(%s)' % (st.kw('call'), st.name(s[1]), ', '.join(stext(a, st) for a in s[2]))
        raise ValueError(s)
    for s in ss:
        k = s[0]
        if st.blank and st.rng.random() < st.blank: out.append('')
        if k in ('assign', 'store', 'call'): out += wrap(pad + simple_text(s))
        elif k == 'do':
            hdr = '%s%s %s = %s, %s' % (pad, st.kw('do'), st.name(s[1]), stext(s[2], st), stext(s[3], st))
            if s[4] is not None: hdr += ', ' + stext(s[4], st)
            out.append(hdr); out += src_lines(s[5], st, depth + 1)
            out.append(pad + (st.kw('enddo') if st.endjoin else st.kw('end') + ' ' + st.kw('do')))
        elif k == 'while':
            out.append('%s%s %s (%s)' % (pad, st.kw('do'), st.kw('while'), stext(s[1], st))); out += src_lines(s[2], st, depth + 1)
            out.append(pad + (st.kw('enddo') if st.endjoin else st.kw('end') + ' ' + st.kw('do')))
        elif k == 'if':
            out += wrap('%s%s (%s) %s' % (pad, st.kw('if'), stext(s[1], st), st.kw('then')))
            cur = s
            while True:
                out += src_lines(cur[2], st, depth + 1)
                if cur[4]:
                    cur = cur[3][0]
                    ei = st.kw('elseif') if st.endjoin and st.rng.random() < 0.5 else st.kw('else') + ' ' + st.kw('if')
                    out.append('%s%s (%s) %s' % (pad, ei, stext(cur[1], st), st.kw('then')))
                    continue
                if cur[3]:
                    out.append(pad + st.kw('else')); out += src_lines(cur[3], st, depth + 1)
                break
            out.append(pad + (st.kw('endif') if st.endjoin else st.kw('end') + ' ' + st.kw('if')))
        elif k == 'ifi':
            out += wrap('%s%s (%s) %s' % (pad, st.kw('if'), stext(s[1], st), simple_text(s[2])))
        elif k == 'com': out.append(pad + s[1])
        elif k == 'select':
            name = s[5]
            out.append('%s%s%s %s (%s)' % (pad, (name + ': ') if name else '', st.kw('select'), st.kw('case'), stext(s[1], st)))
            blocks = [('case', vals, b) for vals, b in s[2]]
            if s[3] is not None: blocks.insert(s[3], ('default', None, s[4]))
            for kind, vals, b in blocks:
                tail = (' ' + name) if name and st.rng.random() < 0.5 else ''
                if kind == 'default': out.append('%s%s %s%s' % (pad, st.kw('case'), st.kw('default'), tail))
                else: out.append('%s%s (%s)%s' % (pad, st.kw('case'), ', '.join(caseval_text(v, st) for v in vals), tail))
                out += src_lines(b, st, depth + 1)
            out.append('%s%s %s%s' % (pad, st.kw('end'), st.kw('select'), (' ' + name) if name else ''))
        else: raise ValueError(s)
    return out

def decls(args, scalars, arrays, intents, st, locals_=()):
    lines = []
    for x in scalars:
        it = ', %s(%s)' % (st.kw('intent'), intents.get(x, 'inout')) if x in args else ''
        lines.append('  %s%s :: %s' % (st.kw('integer'), it, x))
    for a, dims in arrays.items():
        it = ', %s(%s)' % (st.kw('intent'), intents.get(a, 'inout')) if a in args else ''
        lines.append('  %s%s :: %s(%s)' % (st.kw('integer'), it, a, ', '.join('%d:%d' % (l, h) for l, h in dims)))
    for x in locals_: lines.append('  %s :: %s' % (st.kw('integer'), x))
    return lines

MAIN_ARGS = SCALARS + LOOPV + WHILEV + sorted(ARRAYS)

def program_source(prog, st):
    """full source text: the main routine followed by the external callees"""
    lines = ['%s c01_main(%s)' % (st.kw('subroutine'), ', '.join(MAIN_ARGS)), '  %s' % st.kw('implicit none')]
    lines += decls(MAIN_ARGS, SCALARS + LOOPV + WHILEV, ARRAYS, {}, st)
    lines += src_lines(prog['body'], st)
    lines.append('%s c01_main' % st.kw('end subroutine'))
    for name in prog['callees']:
        ps = CALLEES[name]
        lines += ['', '%s %s(%s)' % (st.kw('subroutine'), name, ', '.join(d for d, _, _ in ps)), '  %s' % st.kw('implicit none')]
        lines += decls([d for d, _, _ in ps], [d for d, a, _ in ps if not a], {d: [[1, BOUND]] for d, a, _ in ps if a},
                       {d: it for d, _, it in ps}, st, locals_=['q'] if name == 'p2' else [])
        lines += src_lines(prog['callee_bodies'][name], st)
        lines.append('%s %s' % (st.kw('end subroutine'), name))
    return '\n'.join(lines) + '\n'

# =====================================================================================================
# 2. Loki IR -> JSON statements (keeps has_elseif / inline flags and comments)
class Unsupported(Exception):
    pass

def _struct(e):
    s = BE.structure(e)
    if '"?"' in json.dumps(s): raise Unsupported('expression ' + str(e))
    return s

def from_loki2(nodes):
    from loki import ir
    from loki.expression import symbols as sym
    out = []
    for n in nodes:
        if isinstance(n, ir.Comment):
            t = (n.text or '').strip()
            if t: out.append(['com', t])
        elif isinstance(n, ir.CommentBlock):
            for c in n.comments:
                t = (c.text or '').strip()
                if t: out.append(['com', t])
        elif isinstance(n, ir.Section):
            out += from_loki2(n.body)
        elif isinstance(n, ir.Assignment):
            if n.ptr or n.comment: raise Unsupported('assignment with ptr/comment')
            lhs = n.lhs
            if isinstance(lhs, sym.Array) and lhs.dimensions:
                out.append(['store', lhs.name.lower(), [_struct(d) for d in lhs.dimensions], _struct(n.rhs)])
            else:
                out.append(['assign', lhs.name.lower(), _struct(n.rhs)])
        elif isinstance(n, ir.Loop):
            if n.pragma or n.pragma_post or n.loop_label or n.name or not n.has_end_do: raise Unsupported('decorated loop')
            b = n.bounds
            out.append(['do', n.variable.name.lower(), _struct(b.start), _struct(b.stop), None if b.step is None else _struct(b.step), from_loki2(n.body)])
        elif isinstance(n, ir.WhileLoop):
            if n.condition is None or n.name or n.loop_label: raise Unsupported('decorated while')
            out.append(['while', _struct(n.condition), from_loki2(n.body)])
        elif isinstance(n, ir.Conditional):
            if n.name: raise Unsupported('named if')
            if n.inline:
                body = from_loki2(n.body)
                if len(body) != 1 or body[0][0] not in ('assign', 'store', 'call') or n.else_body: raise Unsupported('inline if body')
                out.append(['ifi', _struct(n.condition), body[0]])
            else:
                out.append(['if', _struct(n.condition), from_loki2(n.body), from_loki2(n.else_body or ()), bool(n.has_elseif)])
        elif isinstance(n, ir.CallStatement):
            if n.kwarguments or n.pragma: raise Unsupported('call with kwargs/pragma')
            out.append(['call', str(n.name).lower(), [_struct(a) for a in n.arguments]])
        elif isinstance(n, ir.MultiConditional):
            def cv(v):
                if isinstance(v, sym.RangeIndex):
                    return ['range', None if v.start is None else _struct(v.start), None if v.stop is None else _struct(v.stop)]
                return ['v', _struct(v)]
            out.append(['select', _struct(n.expr), [[cv(v) for v in vals] for vals in n.values], [from_loki2(b) for b in n.bodies],
                        from_loki2(n.else_body or ())])
        else:
            raise Unsupported(type(n).__name__)
    return out

def to_minif(ss):
    """erase flags/comments: the JSON of harness/lokiverif/minif.py"""
    out = []
    for s in ss:
        k = s[0]
        if k in ('assign', 'store', 'call'): out.append(s)
        elif k == 'do': out.append(['do', s[1], s[2], s[3], s[4], to_minif(s[5])])
        elif k == 'while': out.append(['while', s[1], to_minif(s[2])])
        elif k == 'if': out.append(['if', s[1], to_minif(s[2]), to_minif(s[3])])
        elif k == 'ifi': out.append(['if', s[1], [s[2]], []])
        elif k == 'com': out.append(['skip', s[1]])
        elif k == 'select':
            # Fortran semantics of SELECT CASE as an IF chain; a selector list without a body (or a body without selectors) cannot be paired
            if len(s[2]) != len(s[3]): raise MF.Stuck('SELECT CASE with %d selectors and %d bodies' % (len(s[2]), len(s[3])))
            E = s[1]
            def test(v):
                if v[0] == 'v': return ['cmp', '==', E, v[1]]
                cs = ([['cmp', '<=', v[1], E]] if v[1] is not None else []) + ([['cmp', '<=', E, v[2]]] if v[2] is not None else [])
                return cs[0] if len(cs) == 1 else (['and'] + cs if cs else ['log', True])
            chain = to_minif(s[4])
            for vals, b in reversed(list(zip(s[2], s[3]))):
                ts = [test(v) for v in vals]
                chain = [['if', ts[0] if len(ts) == 1 else ['or'] + ts, to_minif(b), chain]]
            out += chain
        else: raise ValueError(s)
    return out

# ---- JSON -> Coq
M = BE.model_of_structure
def simple_model(s):
    if s[0] == 'assign': return C('MAssign', s[1], M(s[2]))
    if s[0] == 'store': return C('MStore', s[1], [M(i) for i in s[2]], M(s[3]))
    if s[0] == 'call': return C('MCall', s[1], [M(a) for a in s[2]])
    raise ValueError(s)

def fstmt_model(s):
    k = s[0]
    if k in ('assign', 'store', 'call'): return C('FSimple', simple_model(s))
    if k == 'do': return C('FDo', s[1], M(s[2]), M(s[3]), None if s[4] is None else Some(M(s[4])), [fstmt_model(x) for x in s[5]])
    if k == 'while': return C('FWhile', M(s[1]), [fstmt_model(x) for x in s[2]])
    if k == 'if': return C('FIf', M(s[1]), [fstmt_model(x) for x in s[2]], [fstmt_model(x) for x in s[3]], bool(s[4]))
    if k == 'ifi': return C('FIfInline', M(s[1]), simple_model(s[2]))
    if k == 'com': return C('FComment', s[1])
    raise ValueError(s)

def fstmts_model(ss): return [fstmt_model(s) for s in ss]

def strip_parens(s):
    k = s[0]
    if k in ('sum', 'prod', 'quot', 'pow'): return [k, False] + [strip_parens(c) for c in s[2:]]
    if k == 'cmp': return [k, s[1], strip_parens(s[2]), strip_parens(s[3])]
    if k in ('and', 'or', 'not'): return [k] + [strip_parens(c) for c in s[1:]]
    if k == 'call': return [k, s[1]] + [strip_parens(c) for c in s[2:]]
    return s

# =====================================================================================================
# 3. the real fgen text: logical lines, keyword tokens, line classification
def logical_lines(text):
    """join continuation lines (content preservation of the wrapping is C04's theorem), drop blank lines"""
    text = re.sub(r'[ \t]*&[ \t]*\n[ \t]*&?', ' ', text)
    out = []
    for l in text.split('\n'):
        l = l.strip()
        if not l: continue
        out.append(l if l.startswith('!') else re.sub(r'[ \t]+', ' ', l))
    return out

def _match_paren(s, i):
    d = 0
    for j in range(i, len(s)):
        if s[j] == '(': d += 1
        elif s[j] == ')':
            d -= 1
            if d == 0: return j
    return -1

def _split_top(s, ch=','):
    out, d, cur = [], 0, ''
    for c in s:
        if c == '(': d += 1
        elif c == ')': d -= 1
        if c == ch and d == 0: out.append(cur); cur = ''
        else: cur += c
    out.append(cur)
    return out

def _find_assign(s):
    d = 0
    for i, c in enumerate(s):
        if c == '(': d += 1
        elif c == ')': d -= 1
        elif c == '=' and d == 0 and s[i + 1:i + 2] != '=' and s[i - 1:i] not in ('=', '/', '<', '>'): return i
    return -1

def classify_line(t):
    """('kind', parts...) with expression parts as text; keywords are matched exactly as fgen prints them (upper case)"""
    if t.startswith('!'): return ('com', t)
    if t in ('END DO',): return ('enddo',)
    if t == 'END IF': return ('endif',)
    if t == 'ELSE': return ('else',)
    m = re.match(r'^ELSE IF \((.*)\) THEN$', t)
    if m: return ('elseif', m.group(1))
    m = re.match(r'^IF \((.*)\) THEN$', t)
    if m and _match_paren(t, 3) == len(t) - 6: return ('if', m.group(1))
    m = re.match(r'^DO WHILE \((.*)\)$', t)
    if m: return ('while', m.group(1))
    m = re.match(r'^DO ([A-Za-z_]\w*)=(.*)$', t)
    if m: return ('do', m.group(1), _split_top(m.group(2)))
    if t.startswith('IF ('):
        j = _match_paren(t, 3)
        inner = classify_line(t[j + 1:].strip())
        if inner[0] not in ('assign', 'store', 'call'): raise ValueError('inline if body: ' + t)
        return ('ifi', t[4:j], inner)
    m = re.match(r'^CALL\s+([A-Za-z_]\w*)\s*\((.*)\)$', t)
    if m: return ('call', m.group(1), [a for a in _split_top(m.group(2)) if a.strip()])
    i = _find_assign(t)
    if i < 0: raise ValueError('unrecognised line: ' + t)
    lhs, rhs = t[:i].strip(), t[i + 1:].strip()
    m = re.match(r'^([A-Za-z_]\w*)\s*\((.*)\)$', lhs)
    if m: return ('store', m.group(1), _split_top(m.group(2)), rhs)
    return ('assign', lhs, rhs)

def K(s): return C('K', s)
def _xs(text):
    ts = tokenise_f(text)
    if ts is None: raise ValueError('untokenisable expression text %r' % text)
    return [C('X', tok_coq(t)) for t in ts]

def ktoks(cl):
    """keyword/expression token list of a classified line = M_C01.render of the corresponding model line"""
    k = cl[0]
    if k == 'com': return [C('KC', cl[1])]
    if k == 'enddo': return [K('END'), K('DO')]
    if k == 'endif': return [K('END'), K('IF')]
    if k == 'else': return [K('ELSE')]
    if k == 'elseif': return [K('ELSE'), K('IF'), C('X', C('TLP'))] + _xs(cl[1]) + [C('X', C('TRP')), K('THEN')]
    if k == 'if': return [K('IF'), C('X', C('TLP'))] + _xs(cl[1]) + [C('X', C('TRP')), K('THEN')]
    if k == 'while': return [K('DO'), K('WHILE'), C('X', C('TLP'))] + _xs(cl[1]) + [C('X', C('TRP'))]
    if k == 'do':
        out = [K('DO'), C('X', C('TVar', cl[1].lower())), K('=')]
        for i, b in enumerate(cl[2]):
            if i: out.append(C('X', C('TComma')))
            out += _xs(b)
        return out
    if k == 'ifi': return [K('IF'), C('X', C('TLP'))] + _xs(cl[1]) + [C('X', C('TRP'))] + ktoks(cl[2])
    if k == 'call': return [K('CALL')] + _xs('%s(%s)' % (cl[1], ', '.join(cl[2])))
    if k == 'store': return _xs('%s(%s)' % (cl[1], ', '.join(cl[2]))) + [K('=')] + _xs(cl[3])
    if k == 'assign': return _xs(cl[1]) + [K('=')] + _xs(cl[2])
    raise ValueError(cl)

def slots_of(ss):
    """expression slots of a statement list in textual order"""
    for s in ss:
        k = s[0]
        if k == 'assign': yield s[2]
        elif k == 'store':
            yield from s[2]; yield s[3]
        elif k == 'call': yield from s[2]
        elif k == 'do':
            yield s[2]; yield s[3]
            if s[4] is not None: yield s[4]
            yield from slots_of(s[5])
        elif k == 'while':
            yield s[1]; yield from slots_of(s[2])
        elif k == 'if':
            yield s[1]; yield from slots_of(s[2]); yield from slots_of(s[3])
        elif k == 'ifi':
            yield s[1]; yield from slots_of([s[2]])

def line_model(cl, slots):
    """Coq [line] of a classified line of the real text; the expression slots are filled, in textual order, with the trees the
    real frontend built when it read that text (`slots`: iterator) - the reader tie is about the block structure"""
    k = cl[0]
    P = lambda t: M(next(slots))
    def simple(c):
        if c[0] == 'assign': return C('MAssign', c[1].lower(), P(c[2]))
        if c[0] == 'store': return C('MStore', c[1].lower(), [P(i) for i in c[2]], P(c[3]))
        if c[0] == 'call': return C('MCall', c[1].lower(), [P(a) for a in c[2]])
        raise ValueError(c)
    if k == 'com': return C('LComment', cl[1])
    if k == 'enddo': return C('LEndDo')
    if k == 'endif': return C('LEndIf')
    if k == 'else': return C('LElse')
    if k == 'elseif': return C('LElseIf', P(cl[1]))
    if k == 'if': return C('LIf', P(cl[1]))
    if k == 'while': return C('LWhile', P(cl[1]))
    if k == 'do':
        b = cl[2]
        return C('LDo', cl[1].lower(), P(b[0]), P(b[1]), Some(P(b[2])) if len(b) > 2 else None)
    if k == 'ifi': return C('LIfInline', P(cl[1]), simple(cl[2]))
    return C('LSimple', simple(cl))

# =====================================================================================================
# 4. class predicates (python ports; tied to the Coq definitions by chk_class)
def _fgen_of(s):
    from loki.backend.fgen import fgen
    from loki import Scope
    return fgen(BE.build(s, Scope()))

def unit_step(s):
    try: return _fgen_of(s).strip() == '1'
    except Exception: return False

def arg_ok(s):
    if not c06_arith_safe(s): return False
    if s[0] == 'var': return True
    toks = tokenise_f(_fgen_of(s))
    return not all((isinstance(t, list) and t[0] == 'TVar') or t in ('TLP', 'TRP', 'TPlus') for t in toks)

def step_plain(st):
    if st is None: return True
    return c06_arith_safe(st) and ((not unit_step(st)) or st in (['int', 1], ['py', 1]))

def simple_safe(s):
    if s[0] == 'assign': return c06_arith_safe(s[2])
    if s[0] == 'store': return all(c06_arith_safe(i) for i in s[2]) and c06_arith_safe(s[3])
    return all(arg_ok(a) for a in s[2])

def safe(s):
    k = s[0]
    if k in ('assign', 'store', 'call'): return simple_safe(s)
    if k == 'do': return c06_arith_safe(s[2]) and c06_arith_safe(s[3]) and step_plain(s[4]) and all(safe(x) for x in s[5])
    if k == 'while': return c06_logic_safe(s[1]) and all(safe(x) for x in s[2])
    if k == 'if': return c06_logic_safe(s[1]) and all(safe(x) for x in s[2]) and all(safe(x) for x in s[3])
    if k == 'ifi': return c06_logic_safe(s[1]) and simple_safe(s[2])
    return True

def wf(s):
    k = s[0]
    if k == 'do': return all(wf(x) for x in s[5])
    if k == 'while': return all(wf(x) for x in s[2])
    if k == 'if':
        return all(wf(x) for x in s[2]) and all(wf(x) for x in s[3]) and ((not s[4]) or (len(s[3]) == 1 and s[3][0][0] == 'if'))
    return True

def nf(s):
    k = s[0]
    if k == 'do': return (s[4] is None or not unit_step(s[4])) and all(nf(x) for x in s[5])
    if k == 'while': return all(nf(x) for x in s[2])
    if k == 'if': return all(nf(x) for x in s[2]) and all(nf(x) for x in s[3])
    return True

def count_stmts(ss):
    n = 0
    for s in ss:
        n += 1
        if s[0] == 'do': n += count_stmts(s[5])
        elif s[0] == 'while': n += count_stmts(s[2])
        elif s[0] == 'if': n += count_stmts(s[2]) + count_stmts(s[3])
        elif s[0] == 'select': n += sum(count_stmts(b) for b in s[3]) + count_stmts(s[4])
    return n

def has_select(ss):
    return '"select"' in json.dumps(ss)

# =====================================================================================================
# 5. running
def gen_store(rng):
    st = {x: rng.randint(-3, 5) for x in SCALARS}
    for v in LOOPV + WHILEV: st[v] = 0
    for a, dims in ARRAYS.items():
        st[a] = {idx: rng.randint(-3, 5) for idx in itertools.product(*[range(l, h + 1) for l, h in dims])}
    return st

def store_json(st):
    out = {}
    for k, d in sorted(st.items()):
        out[k] = [[list(i), v] for i, v in sorted(d.items())] if isinstance(d, dict) else d
    return out

def store_unjson(js):
    return {k: ({tuple(i): v for i, v in d} if isinstance(d, list) else d) for k, d in js.items()}

def run_ref(body, procs, store_js):
    """reference run; returns the observation list or a string (stuck reason)"""
    st = store_unjson(store_js)
    spec = MF.observe_spec(st)
    try:
        MF.interp(to_minif(body), st, {n: {'params': p['params'], 'body': to_minif(p['body'])} for n, p in procs.items()}, [60000])
    except MF.Stuck as e:
        return 'stuck: %s' % e
    obs = MF.observe(st, spec)
    if any(abs(v) >= 2 ** 30 for v in obs): return 'stuck: large'
    return obs

def procs_of(callee_bodies):
    return {n: {'params': [(d, a) for d, a, _ in CALLEES[n]], 'body': b} for n, b in callee_bodies.items()}

def parse_all(src):
    """real frontend: source text -> (sourcefile, {routine name: json body})"""
    from loki import Sourcefile
    from loki.frontend import FP
    sf = Sourcefile.from_source(src, frontend=FP)
    return sf, {r.name.lower(): from_loki2(r.body.body) for r in sf.routines}

def unit_json():
    return {'name': 'c01_main', 'args': MAIN_ARGS, 'scalars': SCALARS + LOOPV + WHILEV, 'arrays': ARRAYS}

# =====================================================================================================
# 6. rich stream: template programs with features beyond MiniF (module + driver; the driver is not passed through Loki,
#    which has no PROGRAM support)
def _driver(mod, call='work'):
    return 'program c01_driver\n  use %s\n  implicit none\n  call %s()\nend program c01_driver\n' % (mod, call)

def rich_templates():
    T = {}
    def t(f): T[f.__name__[2:]] = f; return f

    @t
    def t_decls(r):
        a, b, c = r.randint(2, 5), r.randint(1, 9), r.randint(1, 4)
        return ("""module c01_decls
  implicit none
  integer, parameter :: jprb = selected_real_kind(13, 300), jpim = selected_int_kind(9)
  integer(kind=jpim), parameter :: nlev = %(a)d, nlon = nlev * 2 + 1
  real(kind=jprb), parameter :: half = 0.5_jprb, eps = 1.0e-3_jprb
  integer(kind=jpim), save :: ncalls = %(b)d
  integer, dimension(nlev) :: tab = (/ (%(c)d * nlev, ncalls = 1, nlev) /)
  logical, parameter :: ldebug = .false.
  character(len=*), parameter :: tag = 'decls'
contains
  subroutine work()
    integer(kind=jpim) :: i, acc(nlev, 2)
    real(kind=jprb) :: z(0:nlev), s
    real :: r4
    integer, dimension(2, 3) :: grid
    logical :: lflag = .true.
    acc(:, :) = 0_jpim
    do i = 1, nlev
      acc(i, 1) = i * tab(i) + nlon
      acc(i, 2) = acc(i, 1) - int(half * 4.0_jprb, jpim)
    end do
    z(0) = eps
    z(1:nlev) = real(acc(:, 2), jprb) * half
    s = sum(z) / real(nlev + 1, jprb)
    r4 = 1.25e0 + real(s)
    grid = reshape((/ 1, 2, 3, 4, 5, 6 /), (/ 2, 3 /))
    ncalls = ncalls + 1_jpim
    print *, tag, ncalls, nlon, lflag .and. .not. ldebug
    print '(10I6)', acc
    print '(6F12.5)', z, s
    print '(F10.4,6I3)', r4, grid
  end subroutine work
end module c01_decls
""" % dict(a=a, b=b, c=c), _driver('c01_decls'))

    @t
    def t_select(r):
        lo, hi = r.randint(0, 1), r.randint(5, 7)       # (:lo) must not overlap (2, 4)
        k1, k2, k3 = r.randint(1, 9), r.randint(1, 9), r.randint(1, 9)
        return ("""module c01_select
  implicit none
contains
  subroutine work()
    integer :: n, x
    character(len=3) :: nm
    x = 0
    do n = %(lo)d - 2, %(hi)d + 1
      select case (n)
      case (:%(lo)d)
        x = x - %(k1)d
      case (2, 4)
        x = x + n * %(k2)d
      case (3)
        ! nothing but a comment and a no-op
        x = x
      case (5:%(hi)d)
        x = x * 2
        x = x + %(k3)d
      case default
        x = -x
      end select
      Sel2: SELECT CASE (MOD(n + 10, 3))
      CASE DEFAULT
        nm = 'two'
      CASE (0) Sel2
        nm = 'nul'
      CASE (1)
        nm = 'one'
      END SELECT Sel2
      print *, n, x, nm
    end do
  end subroutine work
end module c01_select
""" % dict(lo=lo, hi=hi, k1=k1, k2=k2, k3=k3), _driver('c01_select'))

    @t
    def t_select2(r):
        """SELECT CASE with the blocks in random order: CASE DEFAULT first / in the middle / last, value lists, closed and half-open
        ranges, construct names, a character selector; every body is non-empty; the loop exercises every branch"""
        cands = [(':0', 'x = x - %d' % r.randint(1, 9)), ('1', 'x = x + %d' % r.randint(1, 9)), ('2, 4', 'x = x + n * %d' % r.randint(2, 5)),
                 ('3', 'y = y + 1\n        x = x - y'), ('5:6', 'x = x * 2\n        y = y + x'), ('8:', 'x = %d - x' % r.randint(1, 9)), ('7', 'y = -y')]
        r.shuffle(cands)
        blocks = [('case (%s)' % v, b) for v, b in cands[:r.randint(3, 5)]]
        blocks.insert(r.choice([0, r.randint(1, len(blocks) - 1), len(blocks)]), ('case default', 'x = x + 100\n        y = y - 1'))
        name = r.choice(['', 'pick'])
        sel = '\n'.join('      %s%s\n        %s' % (h, (' ' + name) if name and r.random() < 0.5 else '', b) for h, b in blocks)
        cblocks = [("case ('a')", "z = z + 1"), ("case ('b', 'c')", "z = z + 10"), ("case ('x':'z')", "z = z + 100"), ("case default", "z = z + 1000")]
        r.shuffle(cblocks)
        csel = '\n'.join('      %s\n        %s' % (h, b) for h, b in cblocks)
        return ("""module c01_select2
  implicit none
contains
  subroutine work()
    integer :: n, x, y, z
    character(len=1) :: ch
    x = 0; y = 0; z = 0
    do n = -2, 10
      %(hd)sselect case (n)
%(sel)s
      end select%(tl)s
      ch = achar(mod(n + 2, 5) + 97)
      if (n > 7) ch = 'y'
      select case (ch)
%(csel)s
      end select
      print *, n, x, y, z
    end do
  end subroutine work
end module c01_select2
""" % dict(hd=(name + ': ') if name else '', tl=(' ' + name) if name else '', sel=sel, csel=csel), _driver('c01_select2'))

    @t
    def t_where(r):
        vals = ', '.join(str(r.randint(-5, 9)) for _ in range(6))
        k = r.randint(1, 4)
        return ("""module c01_where
  implicit none
contains
  subroutine work()
    integer :: v(6), w(6)
    real :: q(6)
    v = (/ %(vals)s /)
    w = 0
    where (v > %(k)d) w = v - %(k)d
    where (v < 0)
      w = -v * 2
      v = 0
    elsewhere (v == %(k)d)
      w = 100
    elsewhere
      v = v + 1
    end where
    q = real(v)
    where (q > 2.0) q = sqrt(q) / 2.0
    print '(6I5)', v, w
    print '(6F8.3)', q
  end subroutine work
end module c01_where
""" % dict(vals=vals, k=k), _driver('c01_where'))

    @t
    def t_assoc(r):
        a, b = r.randint(1, 3), r.randint(2, 5)
        return ("""module c01_assoc
  implicit none
  type t_state
    integer :: n
    real :: f(3)
  end type t_state
contains
  subroutine work()
    type(t_state) :: st
    integer :: arr(4), k
    arr = (/ 4, 3, 2, 1 /)
    st%%n = %(a)d
    st%%f = (/ 1.5, 2.5, 3.5 /)
    k = %(b)d
    associate (n => st%%n, f => st%%f, e => arr(%(a)d), twice => 2 * k + 1)
      n = n + twice
      f(2) = f(1) * real(n) - f(3)
      e = e + n
      associate (g => f(2:3))
        g(1) = g(1) + 0.25
      end associate
    end associate
    print *, st%%n, arr
    print '(3F9.3)', st%%f
  end subroutine work
end module c01_assoc
""" % dict(a=a, b=b), _driver('c01_assoc'))

    @t
    def t_internal(r):
        a, b = r.randint(1, 5), r.randint(1, 5)
        return ("""module c01_internal
  implicit none
  integer :: shared = %(a)d
contains
  subroutine work()
    integer :: loc, res
    loc = %(b)d
    call bump(2)
    res = scaled(loc) + helper(loc, shared)
    print *, loc, shared, res, fact(4)
  contains
    subroutine bump(by)
      integer, intent(in) :: by
      loc = loc + by
      shared = shared * by
    end subroutine bump
    integer function scaled(v)
      integer, intent(in) :: v
      scaled = v * shared - loc
    end function scaled
  end subroutine work
  pure function helper(p, q) result(h)
    integer, intent(in) :: p, q
    integer :: h
    h = max(p, q) - min(p, q) / 2
  end function helper
  recursive function fact(n) result(f)
    integer, intent(in) :: n
    integer :: f
    if (n <= 1) then
      f = 1
    else
      f = n * fact(n - 1)
    end if
  end function fact
end module c01_internal
""" % dict(a=a, b=b), _driver('c01_internal'))

    @t
    def t_strings(r):
        w = r.choice(['alpha', 'Beta', 'g a m m a'])
        return ("""module c01_strings
  implicit none
contains
  subroutine work()
    character(len=12) :: s
    character(len=30) :: t
    integer :: n
    s = '%(w)s'
    t = 'it''s ' // trim(s) // "!"
    n = len_trim(t)
    print *, trim(t), n
    print *, 'a "quoted" word', ' ; semicolon ! not a comment'
    print *, "double-quoted with 'single' inside"
    print '(A,1X,I3,1X,A)', s(2:4), index(t, 's'), t(n:n)
    write (*, '(A)') 'plain & ampersand'
    write (*, 100) n, n * 2
100 format ('n=', I3, ' 2n=', I4)
  end subroutine work
end module c01_strings
""" % dict(w=w), _driver('c01_strings'))

    @t
    def t_labels(r):
        n, k = r.randint(3, 6), r.randint(1, 3)
        return ("""module c01_labels
  implicit none
contains
  subroutine work()
    integer :: i, j, acc, arr(%(n)d)
    acc = 0
    do 10 i = 1, %(n)d
      arr(i) = i * i - %(k)d
10  continue
    do 30 i = 1, %(n)d
      do 20 j = 1, i
        if (j == %(k)d) goto 20
        acc = acc + arr(j)
20    continue
30  continue
    outer: do i = 1, %(n)d
      if (arr(i) > %(n)d) exit
      if (mod(i, 2) == 0) cycle
      acc = acc + 1000
    end do outer
    i = 0
    do
      i = i + 1
      if (i > %(k)d) exit
    end do
    do while (acc > 500)
      acc = acc - 500
    enddo
    print *, acc, i, arr
    if (acc < 0) stop 1
    return
  end subroutine work
end module c01_labels
""" % dict(n=n, k=k), _driver('c01_labels'))

    @t
    def t_cont(r):
        a, b, c = r.randint(1, 9), r.randint(1, 9), r.randint(2, 5)
        return ("""MODULE c01_cont
  IMPLICIT NONE
CONTAINS
  SUBROUTINE Work()
    INTEGER :: Alpha, beta, &
         &     GAMMA
    REAL :: x, &
            y
    Alpha = %(a)d; beta = %(b)d ; GAMMA = %(c)d
    alpha = ALPHA + &
          & Beta * gamma &
          & - (alpha &
          &    / GAMMA)
    x = 1.5 * real(alpha) - &
        2.0 ** 2 / &
        real(beta)
    y = (x + 1.0e-1) + (-x)
    IF (alpha > beta .AND. &
        & gamma /= 0) THEN
      PRINT *, 'cont', alpha, beta, &
             & gamma
    ELSEIF (ALPHA .EQ. BETA) THEN
      print *, 'equal'
    ENDIF
    PRINT '(2F12.6)', x, y
    CALL Show(alpha, &
              beta)
  END SUBROUTINE Work
  SUBROUTINE SHOW(p, Q)
    INTEGER, INTENT(IN) :: P, q
    print *, p - q, p / q * q, p / (q * q), -p ** 2, (-p) ** 2, 2 ** 3 ** 2, p - (q - 1) - 1, p - q - 1 + 1
  END SUBROUTINE show
END MODULE c01_cont
""" % dict(a=a, b=b, c=c), _driver('c01_cont'))

    @t
    def t_types(r):
        a, b = r.randint(1, 9), r.randint(1, 9)
        return ("""module c01_types
  implicit none
  private
  public :: work
  type :: t_inner
    integer :: id = %(a)d
    real, allocatable :: w(:)
  end type t_inner
  type, public :: t_outer
    type(t_inner) :: inner(2)
    integer, pointer :: p => null()
    character(len=4) :: name = 'none'
  end type t_outer
  interface total
    module procedure total_i, total_r
  end interface total
contains
  integer function total_i(v)
    integer, intent(in) :: v(:)
    total_i = sum(v)
  end function total_i
  real function total_r(v)
    real, intent(in) :: v(:)
    total_r = sum(v)
  end function total_r
  subroutine fill(o, n, scale)
    type(t_outer), intent(inout) :: o
    integer, intent(in) :: n
    real, intent(in), optional :: scale
    integer :: i
    real :: sc
    sc = 1.0
    if (present(scale)) sc = scale
    do i = 1, 2
      if (allocated(o%%inner(i)%%w)) deallocate(o%%inner(i)%%w)
      allocate(o%%inner(i)%%w(n))
      o%%inner(i)%%w = (/ (real(i * n) * sc, n = 1, size(o%%inner(i)%%w)) /)
      o%%inner(i)%%id = o%%inner(i)%%id + i
    end do
    o%%name = 'full'
  end subroutine fill
  subroutine work()
    type(t_outer) :: o
    integer, target :: tgt
    tgt = %(b)d
    o%%p => tgt
    call fill(o, 3)
    call fill(o, n=2, scale=0.5)
    o%%p = o%%p + o%%inner(2)%%id
    print *, o%%name, tgt, o%%inner(1)%%id, associated(o%%p), total((/ 1, 2, tgt /))
    print '(4F8.2)', o%%inner(1)%%w, o%%inner(2)%%w
    print '(F8.2)', total(o%%inner(2)%%w)
    nullify(o%%p)
    print *, associated(o%%p)
  end subroutine work
end module c01_types
""" % dict(a=a, b=b), _driver('c01_types'))

    @t
    def t_reals(r):
        a, b, c = r.choice(['1.0e7', '3.3e6', '1.0e-7']), r.choice(['-1.0e7', '0.1', '7.77']), r.choice(['0.3', '1.0e-3', '2.5'])
        return ("""module c01_reals
  implicit none
  integer, parameter :: dp = kind(1.0d0)
contains
  subroutine work()
    real :: a, b, c, r1, r2, r3
    real(kind=dp) :: d1, d2
    integer :: i, j
    logical :: p, q
    a = %(a)s; b = %(b)s; c = %(c)s
    r1 = (a + b) + c
    r2 = a + (b + c)
    r3 = a * (b / c) - (a * b) / c
    d1 = 1.0_dp / 3.0_dp + 1.d-1
    d2 = real(a, dp) * 1.0e0_dp
    i = 17; j = -5
    p = i > j; q = .not. p
    print '(3ES16.8)', r1, r2, r3
    print '(2ES24.16)', d1, d2
    print *, i / j, mod(i, j), modulo(i, j), i / j * j + mod(i, j), (i + j) / 2 * 2, i * j / 3, i * (j / 3)
    print *, p .eqv. q, p .neqv. q, p .or. q .and. .not. p, (p .or. q) .and. .not. p, .not. (p .and. q)
    print *, merge(i, j, p), sign(i, j), abs(j) ** 2, int(2.7), nint(2.5), floor(-2.5), ceiling(2.1)
    print *, 2.0 ** 3, 2 ** (-1), (-2) ** 3, -2 ** 2, 1.0e0 - 2.0e0 - 3.0e0, 1.0e0 - (2.0e0 - 3.0e0)
  end subroutine work
end module c01_reals
""" % dict(a=a, b=b, c=c), _driver('c01_reals'))

    @t
    def t_callvar(r):
        a, b = r.randint(1, 5), r.randint(1, 5)
        return ("""module c01_callvar
  implicit none
contains
  subroutine upd(u, v, w)
    integer, intent(in) :: u
    integer, intent(inout) :: v
    integer, intent(out), optional :: w
    v = v + u
    if (present(w)) w = v * 2
  end subroutine upd
  subroutine work()
    integer :: x, y, z, arr(3)
    x = %(a)d; y = %(b)d; z = 0
    arr = (/ 1, 2, 3 /)
    call upd(x, y)
    call upd(x + 1, y, z)
    call upd(u=arr(2), v=arr(3))
    call upd((x + y), v=z, w=arr(1))
    call upd(2 * (x), x)
    print *, x, y, z, arr
  end subroutine work
end module c01_callvar
""" % dict(a=a, b=b), _driver('c01_callvar'))
    return T

RICH = rich_templates()

def gf_pair(original, regenerated, main):
    """compile and run both; returns None if identical stdout, else a description"""
    ok1, out1 = MF.gfortran_run([original], main, timeout=240, flags=('-O0', '-ffree-line-length-none', '-w'))
    if not ok1 and out1 == 'timeout':
        ok1, out1 = MF.gfortran_run([original], main, timeout=600, flags=('-O0', '-ffree-line-length-none', '-w'))
    if not ok1:
        return ('skip', 'original program does not build/run: ' + out1[-300:])
    ok2, out2 = MF.gfortran_run([regenerated], main, timeout=240, flags=('-O0', '-ffree-line-length-none', '-w'))
    if not ok2 and out2 == 'timeout':
        ok2, out2 = MF.gfortran_run([regenerated], main, timeout=600, flags=('-O0', '-ffree-line-length-none', '-w'))
    if not ok2:
        return ('fail', 'regenerated program fails (%s) while the original prints %r' % (' '.join(out2.split())[:300], out1[:120]))
    if out1 != out2:
        l1, l2 = out1.split('\n'), out2.split('\n')
        for i in range(max(len(l1), len(l2))):
            x, y = (l1[i] if i < len(l1) else '<eof>'), (l2[i] if i < len(l2) else '<eof>')
            if x != y:
                return ('fail', 'output line %d differs: original %r, regenerated %r' % (i + 1, x.strip()[:100], y.strip()[:100]))
    return None

# =====================================================================================================
class C01(Property):
    id = 'C01'
    imports = ['Base.Expr', 'Base.MiniF', 'models.M_C06', 'models.M_C01']
    theorem_file = 'theories/props/T_C01.v'
    parallel = True
    shard = 40
    rule = ('minif stream: random source programs over 5 scalars, 2 loop and 2 while counters, two rank-1 and one rank-2 array: assignments, array-element '
            'stores, DO with/without step (incl. explicit step 1 and negative steps), DO WHILE, IF/ELSE, ELSE IF chains, ELSE followed by a nested IF, '
            'inline IF, CALL of three external subroutines (expression and variable actuals, no aliasing), comments; expressions generated along the '
            'Fortran grammar levels (text generated, expected tree = the tree the standard assigns to that text), with random blanks, case, dotted '
            'operators, ENDDO/ENDIF/ELSEIF, continuation lines, blank lines. Each program goes source -> Sourcefile.from_source(FP) -> fgen -> FP again. '
            'Tie (Coq, vm_compute): token lines of the real fgen(body) = model print_stmts (keywords compared exactly as upper case, blanks '
            'insignificant, identifiers case-folded, continuation lines joined, blank lines dropped); real text cut into lines with slots parsed by the real '
            'expression frontend -> model read_lines = statement list of the real second parse; model re-read (ref_parse + fx_to_expr + read_lines) = '
            'real second parse with Parenthesised* erased; python class predicates = model wf/nf/safe; Coq exec of the program and of the model re-read '
            '= observation of the reference run. Oracle: reference interpreter on expected tree / first parse / second parse on 3 stores (all variables '
            'observed); gfortran original vs regenerated on a sample. rich stream (oracle only): template programs with kinds, parameters, initialisers, '
            'SELECT CASE, WHERE, ASSOCIATE, internal procedures, module variables, derived types, generic interfaces, optional/keyword arguments, PRINT/WRITE/'
            'FORMAT, string literals with quotes, labels, GOTO, named loops, continuation lines, mixed case: gfortran output of original vs regenerated module. '
            'minif-select stream (oracle only): generated programs with SELECT CASE constructs (disjoint selectors: values, value lists, closed/half-open ranges; CASE DEFAULT '
            'first / in the middle / last / absent; construct names; nesting; all bodies non-empty): reference interpreter on the generator\'s ground truth (SELECT CASE as an IF '
            'chain) vs first parse vs second parse, gfortran on a sample. A template or program whose ORIGINAL does not build is reported as an oracle failure, never skipped. '
            'A case is non-trivial when the program has >= 4 statements and changes the store; distinct = distinct source texts.')
    modelled_not_verified = [
        'the expression level is C06: the composition theorem re-reads each slot through the derivation relation G (existential: G is not proved unambiguous); the executable reference reader ref_parse is tied, not verified',
        'tokenisation of the fgen text, joining of continuation lines (C04 proves content preservation), cutting the text into lines and recognising the keyword skeleton are done by the harness',
        'fparser (the tokeniser/parser under FParser2IR) is not modelled: the frontend is covered by the reader tie (block structure) and by the differential runs',
        'declarations, SELECT CASE, WHERE, ASSOCIATE, derived types, internal procedures, I/O statements, labels, named constructs: no model, gfortran differential runs only',
        'MiniF semantics: integers are unbounded (runs with |value| >= 2^30 are skipped), CALL is copy-in/copy-out (generated calls have no aliasing), real arithmetic is not modelled',
    ]

    # ---------------------------------------------------------------------------------------------
    def _minif_case(self, rng, tier, depth=None, n=None, plain=False, canon=False, select=False):
        for _ in range(30):
            pg = ProgGen(rng, {'canon': canon, 'select': 0.6, 'if': 0.35} if select else {'canon': canon})
            body = pg.stmts(depth if depth is not None else rng.choice([1, 2, 2, 3]), n if n is not None else rng.randint(2, 5), [], [])
            callees = sorted(pg.used_calls)
            prog = {'body': body, 'callees': callees, 'callee_bodies': {c: callee_src(c, rng) for c in callees}}
            exp_body = conv_stmts(body)
            exp_procs = procs_of({c: conv_stmts(b) for c, b in prog['callee_bodies'].items()})
            stores = []
            for _ in range(8):
                st = store_json(gen_store(rng))
                if not isinstance(run_ref(exp_body, exp_procs, st), str): stores.append(st)
                if len(stores) >= 3: break
            if not stores: continue
            if select and not has_select(exp_body): continue
            st = Style(random.Random(rng.random()), plain=plain)
            case = {'kind': 'minif-select' if select else 'minif', 'src': program_source(prog, st), 'expected': exp_body,
                    'expected_callees': {c: conv_stmts(b) for c, b in prog['callee_bodies'].items()}, 'stores': stores}
            if rng.random() < (0.04 if tier == 'quick' else 0.15): case['gfortran'] = True
            return case
        raise RuntimeError('no runnable program generated')

    def _rich_case(self, rng, name=None):
        name = name or rng.choice(sorted(RICH))
        mod, main = RICH[name](rng)
        return {'kind': 'rich', 'template': name, 'module': mod, 'main': main}

    def generate(self, rng, tier):
        n = int(os.environ.get('LOKI_VERIF_C01_N', '0')) or (260 if tier == 'quick' else 1200)
        nr = int(os.environ.get('LOKI_VERIF_C01_NR', '0')) or (len(RICH) if tier == 'quick' else 6 * len(RICH))
        names = sorted(RICH)
        for i in range(nr):
            yield self._rich_case(rng, names[i % len(names)])
        for _ in range(n):
            yield self._minif_case(rng, tier)
        # programs with SELECT CASE constructs (default block first / in the middle / last / absent, value lists, ranges, names):
        # reference-interpreter oracle (no model of SELECT CASE)
        ns = int(os.environ.get('LOKI_VERIF_C01_NS', '0')) or (60 if tier == 'quick' else 300)
        for _ in range(ns):
            yield self._minif_case(rng, tier, select=True)

    # ---------------------------------------------------------------------------------------------
    def run_impl(self, case):
        from loki.backend.fgen import fgen
        if case['kind'] == 'rich':
            from loki import Sourcefile
            from loki.frontend import FP
            sf = Sourcefile.from_source(case['module'], frontend=FP)
            return {'regen': sf.to_fortran()}
        sf1, ir1 = parse_all(case['src'])
        main1 = sf1['c01_main']
        text1 = fgen(main1.body)
        regen = sf1.to_fortran()
        sf2, ir2 = parse_all(regen)
        main2 = sf2['c01_main']
        if case['kind'] == 'minif-select':
            return {'ir1': ir1, 'ir2': ir2, 'regen': regen}
        # the real text cut into lines; slots parsed by the real expression frontend in the scope of the re-read routine
        cls = [classify_line(l) for l in logical_lines(text1)]
        it = slots_of(ir2['c01_main'])
        try:
            lines_model = coq([line_model(c, it) for c in cls])
            if next(it, None) is not None: lines_model = 'slots-left-over'
        except StopIteration:
            lines_model = 'slots-missing'
        if lines_model.startswith('slots-'): lines_model = '[LErr] (* %s *)' % lines_model
        callee_lines = {r.name.lower(): logical_lines(fgen(r.body)) for r in sf1.routines if r.name.lower() != 'c01_main'}
        return {'ir1': ir1, 'ir2': ir2, 'lines1': logical_lines(text1), 'callee_lines': callee_lines, 'regen': regen,
                'read_lines_model': lines_model}

    # ---------------------------------------------------------------------------------------------
    prelude = 'Open Scope string_scope.\n'

    def model_term(self, case, out):
        if case['kind'] != 'minif' or '__exception__' in out: return None
        p1 = out['ir1']['c01_main']; p2 = out['ir2']['c01_main']
        if has_select(p1) or has_select(p2): return None
        parts = []
        P1 = coq(fstmts_model(p1))
        same = (p1 == p2)
        P2 = 'p1' if same else coq(fstmts_model(p2))
        parts.append('chk_print p1 %s' % coq([ktoks(classify_line(l)) for l in out['lines1']]))
        for name, lines in sorted(out['callee_lines'].items()):
            parts.append('chk_print %s %s' % (coq(fstmts_model(out['ir1'][name])), coq([ktoks(classify_line(l)) for l in lines])))
        parts.append('chk_read %s p2' % out['read_lines_model'])
        is_safe = all(safe(s) for s in p1)
        parts.append('chk_class p1 %s %s %s' % (coq(all(wf(s) for s in p1)), coq(all(nf(s) for s in p1)), coq(is_safe)))
        if is_safe:
            parts.append('chk_reparse p1 p2')
            procs = procs_of({n: b for n, b in out['ir1'].items() if n != 'c01_main'})
            ps = coq([(n, C('Build_proc', [(d, bool(a)) for d, a in p['params']], Raw('(erase_list %s)' % coq(fstmts_model(p['body']))))) for n, p in sorted(procs.items())])
            stj = case['stores'][0]
            obs = run_ref(p1, procs, stj)
            st = store_unjson(stj)
            sc, cells = MF.store_model(st)
            osc, ocells = MF.observe_spec(st)
            parts.append('chk_run %s 400%%nat p1 %s %s %s %s %s' % (ps, coq(sc), coq(cells), coq(osc), coq(ocells), coq(None if isinstance(obs, str) else Some(obs))))
        return ('(let p1 := %s in let p2 := %s in %s)' % (P1, P2, ' && '.join(parts))).replace('%string', '')

    def show_model(self, case, out):
        if case['kind'] != 'minif' or '__exception__' in out: return []
        p1 = coq(fstmts_model(out['ir1']['c01_main']))
        return ['map render (print_stmts %s)' % p1, '(wf_list %s, nf_list %s, safe_list %s)' % (p1, p1, p1), 'reparse_exec %s' % p1]

    # ---------------------------------------------------------------------------------------------
    def oracle(self, case, out):
        if '__exception__' in out:
            return 'frontend/backend raised %s: %s' % (out['__exception__'], out.get('msg'))
        if case['kind'] == 'rich':
            r = gf_pair(case['module'], out['regen'], case['main'])
            if r is None: return None
            if r[0] == 'skip':
                # never silent: a template whose ORIGINAL does not build checks nothing (this hid a seeded change once)
                return 'harness defect, nothing was checked: ' + r[1]
            return 'gfortran: ' + r[1]
        exp_procs = procs_of(case['expected_callees'])
        for which in ('ir1', 'ir2'):
            irs = out[which]
            if 'c01_main' not in irs: return '%s: routine lost' % which
            procs = procs_of({n: b for n, b in irs.items() if n != 'c01_main'})
            if sorted(procs) != sorted(exp_procs): return '%s: callee routines %s, expected %s' % (which, sorted(procs), sorted(exp_procs))
            for stj in case['stores']:
                ref = run_ref(case['expected'], exp_procs, stj)
                got = run_ref(irs['c01_main'], procs, stj)
                if ref != got:
                    st = store_unjson(stj)
                    names = MF.observe_spec(st)
                    return ('%s behaves differently from the source on store %s: source %s, %s %s' %
                            ({'ir1': 'the parsed program', 'ir2': 'the regenerated and re-parsed program'}[which],
                             {k: v for k, v in stj.items() if not isinstance(v, list)}, _diff(ref, got, names)[0], which, _diff(ref, got, names)[1]))
        if case.get('gfortran'):
            st = store_unjson(case['stores'][0])
            spec = MF.observe_spec(st)
            main = MF.main_program(unit_json(), st, spec)
            r = gf_pair(case['src'], out['regen'], main)
            if r is not None and r[0] == 'fail': return 'gfortran: ' + r[1]
            if r is not None and r[0] == 'skip': return 'harness defect, nothing was checked: ' + r[1]
            if r is None:
                ok, txt = MF.gfortran_run([out['regen']], main, flags=('-O0', '-ffree-line-length-none', '-w'))
                ref = run_ref(case['expected'], exp_procs, case['stores'][0])
                if ok and not isinstance(ref, str) and [int(x) for x in txt.split()] != ref:
                    return 'gfortran run of the regenerated program prints %s, the reference interpreter gives %s' % (txt.split()[:12], ref[:12])
        return None

    def nontrivial_key(self, case, out):
        if not isinstance(out, dict) or '__exception__' in out: return None
        if case['kind'] == 'rich': return 'rich:' + case['module']
        if count_stmts(case['expected']) < 4: return None
        exp_procs = procs_of(case['expected_callees'])
        for stj in case['stores']:
            st = store_unjson(stj)
            before = MF.observe(st, MF.observe_spec(st))
            after = run_ref(case['expected'], exp_procs, stj)
            if not isinstance(after, str) and after != before: return case['src']
        return None

    def search(self, rng, bad_cases):
        for _ in range(400):
            yield self._minif_case(rng, 'quick', depth=rng.choice([1, 2]), n=rng.randint(1, 4), plain=rng.random() < 0.5)
        for name in sorted(RICH):
            for _ in range(3): yield self._rich_case(rng, name)

def _diff(ref, got, names):
    if isinstance(ref, str) or isinstance(got, str): return (ref, got)
    sc, cells = names
    labels = list(sc) + ['%s%s' % (a, tuple(i)) for a, i in cells]
    d = [(l, r, g) for l, r, g in zip(labels, ref, got) if r != g][:4]
    return (dict((l, r) for l, r, _ in d), dict((l, g) for l, _, g in d))

PROP = C01
