"""C12 — symbol tables behave as scoped, case-insensitive mappings (SymbolTable, Scope, CaseInsensitive[Default]Dict).

A case is an operation history.  It is run on real SymbolTable/Scope (or CaseInsensitive*Dict) objects, on the Coq
model (vm_compute) and on a plain dict-of-lower-case reference written here (the oracle).  Every operation's output and
the final contents are compared."""
import json, hashlib
from ..framework import Property
from ..coqlit import coq, C, Nat, Some, Raw

# ------------------------------------------------------------------------------------------------
# names
BASES = ['a', 'b', 'klev', 'x_1', 'tmp', 'var']
DIMS = ['1', 'i,j', ':', '1:n', 'KLON,klev', '', 'f(2)', 'N']
EDGE_NAMES = ['', '(', '(x', 'a(b(c))', 'a b', ' a', 'a%b', 'A%B(1)', 'a)', 'Z' * 30, '_', '1x', 'a\tb', 'A(', 'a((', "it's", 'KLEV (1)']
DTYPES = ['DEFERRED', 'LOGICAL', 'INTEGER', 'REAL', 'CHARACTER', 'COMPLEX']


def fold(n):
    """the reference's key: lower-case, cut at the first '('"""
    return n.lower().partition('(')[0]


def spell(rng, base):
    r = rng.random()
    if r < 0.3: s = base
    elif r < 0.55: s = base.upper()
    elif r < 0.7: s = base.capitalize()
    else: s = ''.join(ch.upper() if rng.random() < 0.5 else ch.lower() for ch in base)
    if rng.random() < 0.25:
        s = s + '(' + rng.choice(DIMS) + ')'
    return s


def respell(rng, key):
    """another spelling of an already folded key"""
    r = rng.random()
    s = key if r < 0.25 else key.upper() if r < 0.5 else ''.join(ch.upper() if rng.random() < 0.5 else ch for ch in key)
    if rng.random() < 0.25:
        s = s + '(' + rng.choice(DIMS) + ')'
    return s


def pick_name(rng, edge=False):
    if edge and rng.random() < 0.5:
        return rng.choice(EDGE_NAMES)
    return spell(rng, rng.choice(BASES))


# ------------------------------------------------------------------------------------------------
# reference: dict of lower-case names per table, value semantics (tuples), parent pointers
class RefSym:
    def __init__(self):
        self.objs = []       # (dt, tag)
        self.tabs = []       # dict folded -> (dt, tag)
        self.parent = []     # index or None
        self.scoped = []

    def give(self, v):
        self.objs.append(v)
        return ['obj', len(self.objs) - 1, v[0], v[1]]

    def find(self, t, k, rec):
        seen = set()
        while t is not None:
            if t in seen:
                return 'diverge'
            seen.add(t)
            if k in self.tabs[t]:
                return (t, self.tabs[t][k])
            if not rec:
                return None
            t = self.parent[t]
        return None

    def valid(self, op):
        """are all table indices / references of `op` in range (and scopes where a Scope is needed)?"""
        nt, no = len(self.tabs), len(self.objs)
        k = op[0]
        tid = lambda t: isinstance(t, int) and 0 <= t < nt
        ref = lambda r: isinstance(r, int) and 0 <= r < no
        if k == 'new': return True
        if k == 'mut': return ref(op[1])
        if k == 'scope': return op[1] is None or (tid(op[1]) and self.scoped[op[1]])
        if k == 'set': return tid(op[1]) and ref(op[3])
        if k == 'setdefault': return tid(op[1]) and (op[3] is None or ref(op[3]))
        if k == 'update':
            if not (tid(op[1]) and all(ref(r) for _, r in op[2])): return False
            return not op[3] or len({n for n, _ in op[2]}) == len(op[2])
        if k in ('getitem', 'get', 'lookup', 'in', 'del', 'pop'): return tid(op[1])
        if k == 'clone': return tid(op[1]) and (op[2] == 'keep' or op[3] is None or tid(op[3]))
        if k == 'reparent': return tid(op[1]) and tid(op[2]) and self.scoped[op[1]] and self.scoped[op[2]]
        if k in ('declare', 'supdate', 'gettype', 'symscope'): return tid(op[1]) and self.scoped[op[1]]
        return False

    def would_cycle(self, t, p):
        while p is not None:
            if p == t: return True
            p = self.parent[p]
        return False

    def step(self, op):
        k = op[0]
        if k == 'new':
            return self.give((op[1], op[2]))
        if k == 'mut':
            self.objs[op[1]] = (op[2], op[3]); return ['none']
        if k == 'scope':
            self.tabs.append({}); self.parent.append(op[1]); self.scoped.append(True)
            return ['tab', len(self.tabs) - 1]
        t = op[1]; tab = self.tabs[t]
        if k == 'set':
            tab[fold(op[2])] = self.objs[op[3]]; return ['none']
        if k == 'setdefault':
            v = (0, None) if op[3] is None else self.objs[op[3]]
            tab.setdefault(fold(op[2]), v); return ['none']
        if k == 'update':
            for n, r in op[2]:
                tab[fold(n)] = self.objs[r]
            return ['none']
        if k == 'getitem':
            f = fold(op[2])
            return self.give(tab[f]) if f in tab else ['err', 'KeyError']
        if k == 'get':
            f = fold(op[2])
            return self.give(tab[f]) if f in tab else (['default'] if op[3] else ['none'])
        if k == 'lookup':
            r = self.find(t, fold(op[2]), op[3])
            if r == 'diverge': return ['diverge']
            return self.give(r[1]) if r else ['none']
        if k == 'in':
            return ['bool', fold(op[2]) in tab]
        if k == 'del':
            f = fold(op[2])
            if f in tab:
                del tab[f]; return ['none']
            return ['err', 'KeyError']
        if k == 'pop':
            f = fold(op[2])
            if f in tab:
                return self.give(tab.pop(f))
            return ['default'] if op[3] else ['err', 'KeyError']
        if k == 'clone':
            self.tabs.append(dict(tab)); self.scoped.append(False)
            self.parent.append(self.parent[t] if op[2] == 'keep' else op[3])
            return ['tab', len(self.tabs) - 1]
        if k == 'reparent':
            self.parent[t] = op[2]; return ['none']
        if k == 'declare':
            f = fold(op[2])
            if op[5] and f in tab: return ['err', 'ValueError']
            tab[f] = (op[3], op[4]); return ['none']
        if k == 'supdate':
            f = fold(op[2]); dt, tg = op[4], op[5]
            if f in tab:
                v = tab[f]
                tab[f] = (v[0] if dt is None else dt, v[1] if tg is None else (None if tg == 'del' else tg))
                return ['none']
            if op[3]: return ['err', 'ValueError']
            if dt is None: return ['err', 'TypeError']
            tab[f] = (dt, None if tg in (None, 'del') else tg); return ['none']
        if k == 'gettype':
            r = self.find(t, fold(op[2]), op[3])
            if r == 'diverge': return ['diverge']
            if r: return self.give(r[1])
            return ['err', 'KeyError'] if op[4] else ['none']
        if k == 'symscope':
            r = self.find(t, fold(op[2]), True)
            if r == 'diverge': return ['diverge']
            return ['tab', r[0]] if r else ['none']
        raise ValueError(op)

    def dump(self):
        return {'tabs': [[sorted([k, list(v)] for k, v in tb.items()), p] for tb, p in zip(self.tabs, self.parent)],
                'objs': [list(v) for v in self.objs]}


def dfold(key):
    return ['s', key[1].lower()] if key[0] == 's' else key


class RefDict:
    def __init__(self, factory):
        self.d = {}
        self.factory = factory

    def step(self, op):
        k = op[0]; d = self.d
        if k == 'update':
            for key, v in op[1]:
                d[json.dumps(dfold(key))] = v
            return ['none']
        f = json.dumps(dfold(op[1]))
        if k == 'set':
            d[f] = op[2]; return ['none']
        if k == 'getitem':
            if f in d: return ['val', d[f]]
            if self.factory is None: return ['err', 'KeyError']
            d[f] = self.factory; return ['val', self.factory]
        if k == 'get':
            return ['val', d[f]] if f in d else (['default'] if op[2] else ['none'])
        if k == 'in':
            return ['bool', f in d]
        if k == 'del':
            if f in d:
                del d[f]; return ['none']
            return ['err', 'KeyError']
        if k == 'pop':
            if f in d: return ['val', d.pop(f)]
            return ['default'] if op[2] else ['err', 'KeyError']
        if k == 'setdefault':
            return ['val', d.setdefault(f, op[2])]
        raise ValueError(op)

    def dump(self):
        return sorted([json.loads(k), v] for k, v in self.d.items())


# ------------------------------------------------------------------------------------------------
# the real thing
def _exc(e):
    n = type(e).__name__
    if n == 'RecursionError': return ['diverge']
    if n in ('KeyError', 'ValueError', 'TypeError'): return ['err', n]
    return ['err', 'Other:' + n]


def run_sym(ops):
    from loki.types import SymbolTable, SymbolAttributes, Scope, BasicType
    BT = [getattr(BasicType, n) for n in DTYPES]
    def content(o):
        dt = BT.index(o.dtype) if o.dtype in BT else -1
        tg = o.__dict__.get('tag')
        return dt, (tg if isinstance(tg, int) or tg is None else -999)
    objs, tabs, scopes = [], [], []
    outs, aliased = [], []
    def give(x):
        if not isinstance(x, SymbolAttributes):
            return ['other', type(x).__name__]
        objs.append(x)
        dt, tg = content(x)
        return ['obj', len(objs) - 1, dt, tg]
    def stored():
        return {id(v) for tb in tabs for v in dict.values(tb)}
    sentinel = object()
    for i, op in enumerate(ops):
        k = op[0]
        try:
            if k == 'new':
                o = give(SymbolAttributes(BT[op[1]], tag=op[2]))
            elif k == 'mut':
                x = objs[op[1]]
                x.dtype = BT[op[2]]
                x.tag = op[3]
                o = ['none']
            elif k == 'scope':
                sc = Scope(parent=None if op[1] is None else scopes[op[1]])
                scopes.append(sc); tabs.append(sc.symbol_attrs)
                o = ['tab', len(tabs) - 1]
            else:
                tb = tabs[op[1]]; sc = scopes[op[1]]
                if k == 'set':
                    tb[op[2]] = objs[op[3]]; o = ['none']
                elif k == 'setdefault':
                    r = tb.setdefault(op[2]) if op[3] is None else tb.setdefault(op[2], objs[op[3]])
                    o = ['none'] if r is None else ['other', type(r).__name__]
                elif k == 'update':
                    data = [(n, objs[r]) for n, r in op[2]]
                    r = tb.update(dict(data) if op[3] else data)
                    o = ['none'] if r is None else ['other', type(r).__name__]
                elif k == 'getitem':
                    o = give(tb[op[2]])
                elif k == 'get':
                    r = tb.get(op[2], sentinel) if op[3] else tb.get(op[2])
                    o = ['default'] if r is sentinel else ['none'] if r is None else give(r)
                elif k == 'lookup':
                    r = tb.lookup(op[2], recursive=op[3])
                    o = ['none'] if r is None else give(r)
                elif k == 'in':
                    o = ['bool', op[2] in tb]
                elif k == 'del':
                    del tb[op[2]]; o = ['none']
                elif k == 'pop':
                    r = tb.pop(op[2], sentinel) if op[3] else tb.pop(op[2])
                    o = ['default'] if r is sentinel else give(r)
                elif k == 'clone':
                    if op[2] == 'keep': nt = tb.clone()
                    else: nt = tb.clone(parent=None if op[3] is None else tabs[op[3]])
                    tabs.append(nt); scopes.append(None)
                    o = ['tab', len(tabs) - 1]
                elif k == 'reparent':
                    sc._reset_parent(scopes[op[2]]); o = ['none']
                elif k == 'declare':
                    r = sc.declare(op[2], BT[op[3]], fail=op[5], tag=op[4])
                    o = ['none'] if r is None else ['other', type(r).__name__]
                elif k == 'supdate':
                    kw = {}
                    if op[4] is not None: kw['dtype'] = BT[op[4]]
                    if op[5] is not None: kw['tag'] = None if op[5] == 'del' else op[5]
                    r = sc.update(op[2], fail=op[3], **kw)
                    o = ['none'] if r is None else ['other', type(r).__name__]
                elif k == 'gettype':
                    r = sc.get_type(op[2], recursive=op[3], fail=op[4])
                    o = ['none'] if r is None else give(r)
                elif k == 'symscope':
                    r = sc.get_symbol_scope(op[2])
                    o = ['none'] if r is None else ['tab', next((j for j, s in enumerate(scopes) if s is r), -1)]
                else:
                    raise AssertionError('unknown op %r' % (op,))
        except (KeyError, ValueError, TypeError, RecursionError) as e:
            o = _exc(e)
        outs.append(o)
        # identity level: no object the caller holds may be one the tables store
        st = stored()
        if any(id(x) in st for x in objs):
            aliased.append(i)
    def pidx(tb):
        p = tb.parent
        return None if p is None else next((j for j, t in enumerate(tabs) if t is p), -1)
    return {'outs': outs,
            'tabs': [[[[k, list(content(v))] for k, v in dict.items(tb)], pidx(tb)] for tb in tabs],
            'objs': [list(content(x)) for x in objs],
            'aliased': aliased}


def pykey(key):
    return key[1] if key[0] in ('s', 'i') else (key[1],)


def unkey(k):
    if isinstance(k, str): return ['s', k]
    if isinstance(k, int): return ['i', k]
    if isinstance(k, tuple) and len(k) == 1 and isinstance(k[0], str): return ['t', k[0]]
    return ['?', repr(k)]


def run_dict(case):
    from loki.tools.util import CaseInsensitiveDict, CaseInsensitiveDefaultDict
    fac = case.get('factory')
    init = case.get('init')
    if case['flavour'] == 'ordered':
        d = CaseInsensitiveDict() if init is None else CaseInsensitiveDict([(pykey(k), v) for k, v in init])
    else:
        f = None if fac is None else (lambda: fac)
        d = CaseInsensitiveDefaultDict(f) if init is None else CaseInsensitiveDefaultDict(f, [(pykey(k), v) for k, v in init])
    sentinel = object()
    outs = []
    for op in case['ops']:
        k = op[0]
        try:
            if k == 'update':
                data = [(pykey(key), v) for key, v in op[1]]
                r = d.update(dict(data) if op[2] else data); o = ['none'] if r is None else ['other']
            else:
                key = pykey(op[1])
                if k == 'set': d[key] = op[2]; o = ['none']
                elif k == 'getitem': o = ['val', d[key]]
                elif k == 'get':
                    r = d.get(key, sentinel) if op[2] else d.get(key)
                    o = ['default'] if r is sentinel else ['none'] if r is None else ['val', r]
                elif k == 'in': o = ['bool', key in d]
                elif k == 'del': del d[key]; o = ['none']
                elif k == 'pop':
                    r = d.pop(key, sentinel) if op[2] else d.pop(key)
                    o = ['default'] if r is sentinel else ['val', r]
                elif k == 'setdefault': o = ['val', d.setdefault(key, op[2])]
                else: raise AssertionError('unknown op %r' % (op,))
        except (KeyError, ValueError, TypeError) as e:
            o = _exc(e)
        outs.append(o)
    return {'outs': outs, 'items': [[unkey(k), v] for k, v in d.items()]}


# ------------------------------------------------------------------------------------------------
# Coq literals
def cval(dt, tg):
    return '(%d, %s)' % (dt, 'None' if tg is None else 'Some (%d)' % tg)

def cnat(n): return '%d%%nat' % n
def conat(n): return 'None' if n is None else '(Some %d%%nat)' % n
def cbool(b): return 'true' if b else 'false'

def cop(op):
    k = op[0]
    if k == 'new': return 'ONew %s' % cval(op[1], op[2])
    if k == 'mut': return 'OMutate %s %s' % (cnat(op[1]), cval(op[2], op[3]))
    if k == 'scope': return 'ONewScope %s' % conat(op[1])
    if k == 'set': return 'OSet %s %s %s' % (cnat(op[1]), coq(op[2]), cnat(op[3]))
    if k == 'setdefault': return 'OSetDefault %s %s %s' % (cnat(op[1]), coq(op[2]), conat(op[3]))
    if k == 'update': return 'OUpdate %s [%s]' % (cnat(op[1]), '; '.join('(%s, %s)' % (coq(n), cnat(r)) for n, r in op[2]))
    if k == 'getitem': return 'OGetItem %s %s' % (cnat(op[1]), coq(op[2]))
    if k == 'get': return 'OGet %s %s %s' % (cnat(op[1]), coq(op[2]), cbool(op[3]))
    if k == 'lookup': return 'OLookup %s %s %s' % (cnat(op[1]), coq(op[2]), cbool(op[3]))
    if k == 'in': return 'OContains %s %s' % (cnat(op[1]), coq(op[2]))
    if k == 'del': return 'ODel %s %s' % (cnat(op[1]), coq(op[2]))
    if k == 'pop': return 'OPop %s %s %s' % (cnat(op[1]), coq(op[2]), cbool(op[3]))
    if k == 'clone': return 'OClone %s %s' % (cnat(op[1]), 'PKeep' if op[2] == 'keep' else '(PSet %s)' % conat(op[3]))
    if k == 'reparent': return 'OReparent %s %s' % (cnat(op[1]), cnat(op[2]))
    if k == 'declare': return 'ODeclare %s %s %s %s' % (cnat(op[1]), coq(op[2]), cval(op[3], op[4]), cbool(op[5]))
    if k == 'supdate':
        dt = 'None' if op[4] is None else '(Some (%d))' % op[4]
        tg = 'None' if op[5] is None else '(Some None)' if op[5] == 'del' else '(Some (Some (%d)))' % op[5]
        return 'OSUpdate %s %s %s %s %s' % (cnat(op[1]), coq(op[2]), cbool(op[3]), dt, tg)
    if k == 'gettype': return 'OGetType %s %s %s %s' % (cnat(op[1]), coq(op[2]), cbool(op[3]), cbool(op[4]))
    if k == 'symscope': return 'OSymScope %s %s' % (cnat(op[1]), coq(op[2]))
    raise ValueError(op)

ERR = {'KeyError': 'EKey', 'ValueError': 'EValue', 'TypeError': 'EType'}

def cout(o):
    k = o[0]
    if k == 'none': return 'OutNone'
    if k == 'default': return 'OutDefault'
    if k == 'bool': return 'OutBool %s' % cbool(o[1])
    if k == 'obj': return 'OutObj %s %s' % (cnat(o[1]), cval(o[2], o[3]))
    if k == 'tab': return 'OutTab %s' % cnat(o[1]) if o[1] >= 0 else 'OutErr EOther'
    if k == 'err': return 'OutErr %s' % ERR.get(o[1], 'EOther')
    if k == 'diverge': return 'OutDiverge'
    return 'OutErr EOther'

def cdkey(key):
    if key[0] == 's': return '(KStr %s)' % coq(key[1])
    if key[0] == 'i': return '(KInt (%d))' % key[1]
    if key[0] == 't': return '(KTup %s)' % coq(key[1])
    raise ValueError(key)

def cdop(op):
    k = op[0]
    if k == 'update': return 'DUpdate [%s]' % '; '.join('(%s, (%d))' % (cdkey(key), v) for key, v in op[1])
    if k == 'set': return 'DSet %s (%d)' % (cdkey(op[1]), op[2])
    if k == 'getitem': return 'DGetItem %s' % cdkey(op[1])
    if k == 'get': return 'DGet %s %s' % (cdkey(op[1]), cbool(op[2]))
    if k == 'in': return 'DContains %s' % cdkey(op[1])
    if k == 'del': return 'DDel %s' % cdkey(op[1])
    if k == 'pop': return 'DPop %s %s' % (cdkey(op[1]), cbool(op[2]))
    if k == 'setdefault': return 'DSetDefault %s (%d)' % (cdkey(op[1]), op[2])
    raise ValueError(op)

def cdout(o):
    k = o[0]
    if k == 'none': return 'RNone'
    if k == 'default': return 'RDefault'
    if k == 'bool': return 'RBool %s' % cbool(o[1])
    if k == 'val' and isinstance(o[1], int): return 'RVal (%d)' % o[1]
    if k == 'err' and o[1] == 'KeyError': return 'RKeyError'
    return None


# ------------------------------------------------------------------------------------------------
def ref_sym(ops):
    """reference run; None if an operation does not apply to the state (bad index)"""
    r = RefSym(); outs = []
    for op in ops:
        if not r.valid(op): return None
        outs.append(r.step(op))
    d = r.dump(); d['outs'] = outs
    return d

def diff_sym(ops, out):
    if not isinstance(out, dict) or 'outs' not in out:
        return 'the implementation raised: %s' % (out,)
    ref = ref_sym(ops)
    if ref is None:
        return None          # not a history of the domain
    for i, (a, b) in enumerate(zip(out['outs'], ref['outs'])):
        if a != b:
            return 'operation %d %s returned %s, a mapping keyed by the folded name gives %s' % (i, ops[i], a, b)
    if out.get('aliased'):
        i = out['aliased'][0]
        return 'after operation %d %s the caller holds an object that is also stored in a table (not an independent copy)' % (i, ops[i])
    for t, (a, b) in enumerate(zip(out['tabs'], ref['tabs'])):
        if sorted(a[0]) != b[0]:
            return 'final contents of table %d are %s, expected %s' % (t, sorted(a[0]), b[0])
        if a[1] != b[1]:
            return 'final parent of table %d is %s, expected %s' % (t, a[1], b[1])
        keys = [k for k, _ in a[0]]
        if any(k != fold(k) for k in keys) or len(set(keys)) != len(keys):
            return 'table %d holds keys that are not folded or not unique: %s' % (t, keys)
    if out['objs'] != ref['objs']:
        return 'objects held by the caller are %s, expected %s' % (out['objs'], ref['objs'])
    return None

def diff_dict(case, out):
    if not isinstance(out, dict) or 'outs' not in out:
        return 'the implementation raised: %s' % (out,)
    r = RefDict(case.get('factory'))
    ops = case['ops']
    if case.get('init') is not None:
        r.step(['update', case['init'], False])
    for i, op in enumerate(ops):
        b = r.step(op)
        if out['outs'][i] != b:
            return 'operation %d %s returned %s, a mapping keyed by the folded key gives %s' % (i, op, out['outs'][i], b)
    if sorted(out['items']) != r.dump():
        return 'final items are %s, expected %s' % (sorted(out['items']), r.dump())
    return None

def shrink(ops, fails):
    """greedy: shortest failing prefix, then drop single operations while the history stays in the domain and keeps failing"""
    for n in range(1, len(ops) + 1):
        if fails(ops[:n]):
            ops = ops[:n]; break
    changed = True
    while changed:
        changed = False
        for i in range(len(ops) - 1, -1, -1):
            cand = ops[:i] + ops[i + 1:]
            if cand and fails(cand):
                ops = cand; changed = True
    return ops


class C12(Property):
    id = 'C12'
    imports = ['models.M_C12']
    theorem_file = 'theories/props/T_C12.v'
    shard = 110
    rule = ('random operation histories (quick: length 8-60) on real Scope/SymbolTable objects: 1-4 nested scopes created first ("sym-stack"), '
            'or a growing graph of scopes with sibling scopes, SymbolTable.clone([parent=]) and Scope._reset_parent ("sym-graph"); operations '
            'set/setdefault/update(dict|pairs)/[]/get/lookup(recursive?)/in/del/pop/clone/declare/Scope.update/get_type/get_symbol_scope plus creation and '
            'MUTATION of SymbolAttributes objects by the caller (the returned/inserted object is changed afterwards, the tables must not change); '
            'names = 6 base names x case variants x name(dims) forms, an edge stream adds malformed names ("", "(x", "a(b(c))", blanks, "%"); '
            'histories for CaseInsensitiveDict / CaseInsensitiveDefaultDict (str, int and tuple keys; constructor data, update, setdefault, factory). '
            'Compared per operation: output (value content, fresh reference number, None/default/bool/exception name) and at the end the ordered items of every '
            'table, its parent link and the content of every object the caller holds. Symbol-table histories are unrestricted (clone() with and without parent=, '
            'below empty and non-empty parents); dictionary histories are drawn from the class where the code meets the property: no upper-case str keys in '
            'update/setdefault/constructor data of the defaultdict flavour (witnesses are known finding F7b). Non-trivial = at least one successful look-up and two spellings of one folded name; distinct = distinct histories.')
    modelled_not_verified = [
        'SymbolAttributes is reduced to (BasicType code, value of one attribute "tag"); SymbolAttributes.clone/compare themselves are not modelled',
        'str.lower() is modelled on ASCII text (A-Z); names with non-ASCII letters are outside the generated class',
        'parent links are weak references in the code; the harness keeps every scope alive, garbage collection of a parent is not modelled',
        'case_sensitive=True tables, __hash__/pickling of SymbolTable, Scope.clone (raises TypeError on a plain Scope; ScopedNode rebuild is C14/C15 territory) are not modelled',
        'cyclic parent chains: the model answers OutDiverge on fuel exhaustion; the generator never builds a cycle',
    ]

    # ---------------------------------------------------------------------------------------
    def gen_sym(self, rng, kind, length):
        ref = RefSym(); ops = []
        edge = kind == 'sym-edge'
        def emit(op):
            assert ref.valid(op), op
            ref.step(op); ops.append(op)
        depth = rng.randint(1, 4)
        for d in range(depth):
            emit(['scope', None if d == 0 else d - 1])
        graph = kind != 'sym-stack'
        def rnd_val():
            return rng.randrange(len(DTYPES)), (None if rng.random() < 0.2 else rng.randint(0, 9))
        last_ref = None
        while len(ops) < length:
            nt, no = len(ref.tabs), len(ref.objs)
            t = rng.randrange(nt) if rng.random() < 0.7 else nt - 1
            name = pick_name(rng, edge)
            if rng.random() < 0.45:
                # a name that is bound somewhere on the chain of t (or anywhere), spelled differently
                keys, q, seen = [], t, set()
                while q is not None and q not in seen:
                    seen.add(q); keys += list(ref.tabs[q]); q = ref.parent[q]
                if not keys or rng.random() < 0.15:
                    keys = [k for tb in ref.tabs for k in tb]
                if keys:
                    name = respell(rng, rng.choice(keys))
            r = rng.random()
            before = len(ref.objs)
            if no == 0 or r < 0.10:
                emit(['new'] + list(rnd_val()))
            elif r < 0.18:
                tgt = last_ref if (last_ref is not None and rng.random() < 0.7) else rng.randrange(no)
                emit(['mut', tgt] + list(rnd_val()))
            elif r < 0.30:
                emit(['set', t, name, rng.randrange(no)])
            elif r < 0.34:
                emit(['setdefault', t, name, None if rng.random() < 0.4 else rng.randrange(no)])
            elif r < 0.39:
                n = rng.randint(0, 3)
                pairs = [[pick_name(rng, edge), rng.randrange(no)] for _ in range(n)]
                as_dict = rng.random() < 0.5 and len({p[0] for p in pairs}) == len(pairs)
                emit(['update', t, pairs, as_dict])
            elif r < 0.45:
                emit(['getitem', t, name])
            elif r < 0.50:
                emit(['get', t, name, rng.random() < 0.5])
            elif r < 0.62:
                emit(['lookup', t, name, rng.random() < 0.75])
            elif r < 0.68:
                emit(['in', t, name])
            elif r < 0.73:
                emit(['del', t, name])
            elif r < 0.78:
                emit(['pop', t, name, rng.random() < 0.4])
            elif r < 0.82 and ref.scoped[t]:
                emit(['declare', t, name] + list(rnd_val()) + [rng.random() < 0.6])
            elif r < 0.86 and ref.scoped[t]:
                dt = None if rng.random() < 0.6 else rng.randrange(len(DTYPES))
                tg = rng.choice([None, 'del', rng.randint(0, 9), rng.randint(0, 9)])
                emit(['supdate', t, name, rng.random() < 0.5, dt, tg])
            elif r < 0.90 and ref.scoped[t]:
                emit(['gettype', t, name, rng.random() < 0.75, rng.random() < 0.5])
            elif r < 0.94 and ref.scoped[t]:
                emit(['symscope', t, name])
            elif graph and nt < 9:
                q = rng.random()
                scoped = [i for i in range(nt) if ref.scoped[i]]
                if q < 0.35:
                    emit(['scope', rng.choice(scoped + [None])])
                elif q < 0.75:
                    if rng.random() < 0.5:
                        emit(['clone', t, 'keep'])        # parent absent, empty or non-empty (F7c repaired by 0d55598)
                    else:
                        emit(['clone', t, 'set', rng.choice(list(range(nt)) + [None])])
                else:
                    a, b = rng.choice(scoped), rng.choice(scoped)
                    if a != b and not ref.would_cycle(a, b):
                        emit(['reparent', a, b])
            if len(ref.objs) > before:
                last_ref = len(ref.objs) - 1
        return {'kind': kind, 'ops': ops}

    def gen_dict(self, rng, flavour, length):
        kind = 'dict-' + flavour
        fac = None if (flavour == 'ordered' or rng.random() < 0.3) else rng.randint(50, 59)
        bases = ['abc', 'key', 'mode', 'x']
        def key(folded=False):
            r = rng.random()
            if r < 0.75:
                b = rng.choice(bases)
                if not folded:
                    q = rng.random()
                    b = b if q < 0.3 else b.upper() if q < 0.55 else b.capitalize() if q < 0.7 else \
                        ''.join(ch.upper() if rng.random() < 0.5 else ch for ch in b)
                return ['s', b]
            if r < 0.88: return ['i', rng.randint(0, 3)]
            return ['t', rng.choice(['abc', 'ABC', 'Key'])]
        bulk_folded = flavour == 'default'        # the class where the defaultdict flavour is right
        init = None
        if rng.random() < 0.4:
            init = [[key(bulk_folded), rng.randint(0, 99)] for _ in range(rng.randint(0, 3))]
        ops = []
        while len(ops) < length:
            r = rng.random(); v = rng.randint(0, 99)
            if r < 0.25: ops.append(['set', key(), v])
            elif r < 0.38: ops.append(['getitem', key()])
            elif r < 0.50: ops.append(['get', key(), rng.random() < 0.5])
            elif r < 0.62: ops.append(['in', key()])
            elif r < 0.72: ops.append(['del', key()])
            elif r < 0.82: ops.append(['pop', key(), rng.random() < 0.5])
            elif r < 0.91: ops.append(['setdefault', key(bulk_folded), v])
            else:
                pairs = [[key(bulk_folded), rng.randint(0, 99)] for _ in range(rng.randint(0, 3))]
                as_dict = rng.random() < 0.5 and len({json.dumps(p[0]) for p in pairs}) == len(pairs)
                ops.append(['update', pairs, as_dict])
        return {'kind': kind, 'flavour': flavour, 'factory': fac, 'init': init, 'ops': ops}

    def generate(self, rng, tier):
        quick = tier == 'quick'
        n_stack, n_graph, n_edge, n_dict = (380, 380, 80, 230) if quick else (3000, 3000, 500, 1500)
        maxlen = 60 if quick else 90
        for _ in range(n_stack): yield self.gen_sym(rng, 'sym-stack', rng.randint(8, maxlen))
        for _ in range(n_graph): yield self.gen_sym(rng, 'sym-graph', rng.randint(8, maxlen))
        for _ in range(n_edge): yield self.gen_sym(rng, 'sym-edge', rng.randint(8, 40))
        for _ in range(n_dict): yield self.gen_dict(rng, 'ordered', rng.randint(4, 40))
        for _ in range(n_dict): yield self.gen_dict(rng, 'default', rng.randint(4, 40))

    # ---------------------------------------------------------------------------------------
    def run_impl(self, case):
        if case['kind'].startswith('dict'):
            return run_dict(case)
        return run_sym(case['ops'])

    def model_term(self, case, out):
        if not isinstance(out, dict) or 'outs' not in out:
            return 'false'
        if case['kind'].startswith('dict'):
            ops = ([['update', case['init'], False]] if case.get('init') is not None else []) + case['ops']
            outs = (['RNone'] if case.get('init') is not None else []) + [cdout(o) for o in out['outs']]
            items = []
            for k, v in out['items']:
                if k[0] == '?' or not isinstance(v, int): return 'false'
                items.append('(%s, (%d))' % (cdkey(k), v))
            if any(o is None for o in outs): return 'false'
            fac = case.get('factory')
            fl = 'fl_ordered' if case['flavour'] == 'ordered' else '(fl_default %s)' % ('None' if fac is None else '(Some (%d))' % fac)
            return '(chk_dict %s [%s] [%s] [%s])' % (fl, '; '.join(cdop(o) for o in ops), '; '.join(outs), '; '.join(items))
        tabs = []
        for items, p in out['tabs']:
            if p is not None and p < 0: return 'false'
            tabs.append('([%s], %s)' % ('; '.join('(%s, %s)' % (coq(k), cval(*v)) for k, v in items), 'None' if p is None else 'Some %d%%nat' % p))
        return '(chk_sym [%s] [%s] [%s] [%s])' % ('; '.join(cop(o) for o in case['ops']), '; '.join(cout(o) for o in out['outs']),
                                                   '; '.join(tabs), '; '.join(cval(*v) for v in out['objs']))

    def show_model(self, case, out):
        if case['kind'].startswith('dict'):
            ops = ([['update', case['init'], False]] if case.get('init') is not None else []) + case['ops']
            fac = case.get('factory')
            fl = 'fl_ordered' if case['flavour'] == 'ordered' else '(fl_default %s)' % ('None' if fac is None else '(Some (%d))' % fac)
            o = '[%s]' % '; '.join(cdop(x) for x in ops)
            return ['douts dm_ops %s [] %s' % (fl, o), 'dexec dm_ops %s [] %s' % (fl, o)]
        o = '[%s]' % '; '.join(cop(x) for x in case['ops'])
        return ['mouts minit %s' % o, 'map dump_tab (st_tabs (mexec minit %s))' % o, 'st_objs (mexec minit %s)' % o]

    # ---------------------------------------------------------------------------------------
    def oracle(self, case, out):
        if case['kind'].startswith('dict'):
            fail = diff_dict(case, out)
            if fail and len(case['ops']) > 3:
                def fails(ops):
                    c = dict(case); c['ops'] = ops
                    try: return diff_dict(c, run_dict(c)) is not None
                    except Exception: return False
                small = shrink(list(case['ops']), fails)
                fail += ' | shrunk history: init=%s ops=%s' % (json.dumps(case.get('init')), json.dumps(small))
            return fail
        fail = diff_sym(case['ops'], out)
        if fail and len(case['ops']) > 4:
            def fails(ops):
                if ref_sym(ops) is None: return False
                try: return diff_sym(ops, run_sym(ops)) is not None
                except Exception: return False
            small = shrink(list(case['ops']), fails)
            fail += ' | shrunk history: %s' % json.dumps(small)
        return fail

    def nontrivial_key(self, case, out):
        if not isinstance(out, dict) or 'outs' not in out: return None
        found = any(o[0] in ('obj', 'val') for op, o in zip(case['ops'], out['outs']) if op[0] not in ('new',))
        spellings = {}
        for op in case['ops']:
            for x in op[1:]:
                if isinstance(x, str) and x not in ('keep', 'set', 'del'):
                    spellings.setdefault(fold(x), set()).add(x)
                elif isinstance(x, list) and len(x) == 2 and x[0] == 's':
                    spellings.setdefault(x[1].lower(), set()).add(x[1])
        if found and any(len(v) > 1 for v in spellings.values()):
            return hashlib.sha1(json.dumps([case.get('flavour'), case.get('init'), case['ops']], sort_keys=True).encode()).hexdigest()
        return None

    def search(self, rng, bad_cases):
        """around a model/implementation disagreement: every prefix of the history, and fresh histories of the same kind"""
        for c in bad_cases[:5]:
            n = len(c['ops'])
            for k in range(1, n):
                d = {x: y for x, y in c.items() if not x.startswith('_')}; d['ops'] = c['ops'][:k]
                yield d
        for _ in range(300):
            yield self.gen_sym(rng, rng.choice(['sym-stack', 'sym-graph', 'sym-edge']), rng.randint(5, 40))
        for _ in range(100):
            yield self.gen_dict(rng, rng.choice(['ordered', 'default']), rng.randint(3, 25))


PROP = C12
