"""C21 — the scheduler graph is exactly the pruned dependency closure of the seeds.

Cases: (a) generated multi-file Fortran projects x scheduler configurations run through the real
`Scheduler`; model input (raw dependency nodes, item configs, seeds) is read from the live item objects,
the Coq model `scheduler_graph` must reproduce items, dependencies and is_ignored flags; the oracle closes
the generator's own ground-truth relation under the documented pruning rules.  (b) direct calls of
`SchedulerConfig.match_item_keys` against the Coq matcher and an independent Python matcher."""
import os, json, copy, shutil, tempfile, fnmatch, itertools
from ..framework import Property
from ..coqlit import coq, C, Nat, Some, Raw

# ----------------------------------------------------------------------------------------------
# project description -> Fortran files
# ----------------------------------------------------------------------------------------------

def _sp(name, how):
    if how == 'upper': return name.upper()
    if how == 'cap': return name[:1].upper() + name[1:]
    return name

def _routine_src(r, bound_type=None, ind='  '):
    """Fortran text of one routine (subroutine(x) / function(x) result(y) / bound subroutine(this, x))"""
    L = []
    nm = _sp(r['name'], r.get('spell', 'lower'))
    isfun = r['kind'] == 'fun'
    pre = 'recursive ' if r.get('recursive') else ''
    var = 'z' if isfun else 'x'
    if isfun:
        L.append('%sfunction %s(x) result(y)' % (pre, nm))
    elif bound_type:
        L.append('%ssubroutine %s(this, x)' % (pre, nm))
    else:
        L.append('%ssubroutine %s(x)' % (pre, nm))
    for u in r.get('uses', []):
        if u.get('only') is None:
            L.append('  use %s' % _sp(u['module'], u.get('spell', 'lower')))
        else:
            syms = []
            for s in u['only']:
                if isinstance(s, list):   # [local, orig] renamed import
                    syms.append('%s => %s' % (s[0], s[1]))
                else:
                    syms.append(s)
            L.append('  use %s, only: %s' % (_sp(u['module'], u.get('spell', 'lower')), ', '.join(syms)))
    L.append('  implicit none')
    if bound_type:
        L.append('  class(%s), intent(inout) :: this' % bound_type)
    if isfun:
        L.append('  integer, intent(in) :: x')
        L.append('  integer :: y')
        L.append('  integer :: z')
    else:
        L.append('  integer, intent(inout) :: x')
    for tv in r.get('tvars', []):
        L.append('  type(%s) :: %s' % (tv['type'], tv['name']))
    if isfun:
        L.append('  z = x')
    L.append('  %s = %s + 1' % (var, var))
    for c in r.get('calls', []):
        cs = c.get('spell', 'lower')
        if c['k'] in ('sub', 'intf', 'missing'):
            L.append('  call %s(%s)' % (_sp(c['name'], cs), var))
        elif c['k'] == 'fun':
            L.append('  %s = %s + %s(%s)' % (var, var, _sp(c['name'], cs), var))
        elif c['k'] == 'tbp':
            L.append('  call %s%%%s(%s)' % (c['var'], _sp(c['binding'], cs), var))
        elif c['k'] == 'self':
            if isfun:
                L.append('  if (%s > 100) %s = %s(%s - 1)' % (var, var, nm, var))
            else:
                L.append('  if (%s > 100) call %s(%s)' % (var, nm, ('this, ' if bound_type else '') + var))
    for g in r.get('gvars', []):
        L.append('  %s = %s + %s' % (var, var, g))
    if isfun:
        L.append('  y = z')
        L.append('end function %s' % nm)
    else:
        L.append('end subroutine %s' % nm)
    return '\n'.join(ind + l for l in L)

def _module_src(m):
    L = ['module %s' % _sp(m['name'], m.get('spell', 'lower'))]
    for u in m.get('uses', []):
        if u.get('only') is None:
            L.append('  use %s' % u['module'])
        else:
            L.append('  use %s, only: %s' % (u['module'], ', '.join(('%s => %s' % (x[0], x[1])) if isinstance(x, list) else x
                                                                 for x in u['only'])))
    L.append('  implicit none')
    for v in m.get('vars', []):
        L.append('  integer :: %s' % v)
    for t in m.get('types', []):
        L.append('  type %s' % t['name'])
        L.append('    integer :: a')
        for i, mt in enumerate(t.get('members', [])):
            L.append('    type(%s) :: mem%d' % (mt, i))
        if t.get('bindings'):
            L.append('  contains')
            for b in t['bindings']:
                if b['name'] == b['proc']:
                    L.append('    procedure :: %s' % b['name'])
                else:
                    L.append('    procedure :: %s => %s' % (b['name'], b['proc']))
        L.append('  end type %s' % t['name'])
    for it in m.get('interfaces', []):
        L.append('  interface %s' % it['name'])
        L.append('    module procedure %s' % ', '.join(it['procs']))
        L.append('  end interface %s' % it['name'])
    L.append('contains')
    bound = {b['proc']: t['name'] for t in m.get('types', []) for b in t.get('bindings', [])}
    for r in m.get('routines', []):
        L.append(_routine_src(r, bound_type=bound.get(r['name'])))
    L.append('end module %s' % _sp(m['name'], m.get('spell', 'lower')))
    return '\n'.join(L) + '\n'

def write_project(proj, root):
    files = {}
    for m in proj['modules']:
        files.setdefault(m['file'], []).append(_module_src(m))
    for f in proj['free']:
        files.setdefault(f['file'], []).append(_routine_src(f['routine'], ind='') + '\n')
    for rel, parts in files.items():
        p = os.path.join(root, rel)
        os.makedirs(os.path.dirname(p), exist_ok=True)
        with open(p, 'w') as fh:
            fh.write('\n'.join(parts))
    return sorted(files)

# ----------------------------------------------------------------------------------------------
# ground truth: the dependency relation of the description and the documented pruning rules
# ----------------------------------------------------------------------------------------------

def _variants(name):
    """documented name forms a config key may use for an item: fully qualified, local, enclosing scope,
    type name / partial binding chains with and without scope"""
    name = name.lower()
    parts = name.split('#')
    if len(parts) == 1: scope, local = '', parts[0]
    elif len(parts) == 2: scope, local = parts
    else: scope, local = parts[0], '#'.join(parts[1:])
    out = {name, local}
    if scope: out.add(scope)
    if '%' in local:
        bits = local.split('%')
        for i in range(1, len(bits) + 1):
            p = '%'.join(bits[:i])
            out.add(p); out.add('%s#%s' % (scope, p))
    return out

def doc_match(name, keys):
    """does any key select the item: case-insensitive, fnmatch patterns, all documented name forms"""
    vs = _variants(name)
    for k in keys:
        k = k.lower()
        if any(fnmatch.fnmatchcase(v, k) for v in vs):
            return True
    return False

def _index(proj):
    idx = {'mod': {}, 'free': {}, 'where': {}}
    for m in proj['modules']:
        idx['mod'][m['name']] = m
        for r in m.get('routines', []):
            idx['where'][r['name']] = m['name']
    for f in proj['free']:
        idx['free'][f['routine']['name']] = f['routine']
    return idx

def _sym_kind(idx, module, sym):
    m = idx['mod'].get(module)
    if m is None: return 'var'
    for r in m.get('routines', []):
        if r['name'] == sym: return 'item' if r['kind'] == 'fun' else 'sub'
    if any(t['name'] == sym for t in m.get('types', [])): return 'item'
    if any(i['name'] == sym for i in m.get('interfaces', [])): return 'item'
    return 'var'

def _import_atom(idx, u):
    if u.get('only') is None:
        return ('import', u['module'], [])
    syms = []
    for s in u['only']:
        orig = s[1] if isinstance(s, list) else s
        syms.append((orig, _sym_kind(idx, u['module'], orig)))
    return ('import', u['module'], syms)

def truth_atoms(proj):
    """item name -> list of dependency atoms ('item', name) | ('missing', name) | ('import', m, [(sym, kind)])
    plus per-item flags"""
    idx = _index(proj)
    atoms, flags = {}, {}
    def routine_atoms(r, host):
        A = [_import_atom(idx, u) for u in r.get('uses', [])]
        if host:
            hm = idx['mod'][host]
            bound = {b['proc']: t['name'] for t in hm.get('types', []) for b in t.get('bindings', [])}
            if r['name'] in bound:
                A.append(('item', '%s#%s' % (host, bound[r['name']])))
            for tv in r.get('tvars', []):
                if tv['module'] == host:
                    A.append(('item', '%s#%s' % (host, tv['type'])))
                elif tv.get('hostimp'):
                    # the type is made accessible by a module-level USE statement of the host module
                    A.append(_import_atom(idx, tv['hostimp']))
        tvars = {tv['name']: tv for tv in r.get('tvars', [])}
        for c in r.get('calls', []):
            if c['k'] in ('sub', 'fun', 'intf'):
                if c['via'] == 'free': A.append(('item', '#' + c['name']))
                elif c['via'] == 'host': A.append(('item', '%s#%s' % (host, c['name'])))
                else: A.append(('item', '%s#%s' % (c['mod'], c.get('orig', c['name']))))
            elif c['k'] == 'missing':
                A.append(('missing', '#' + c['name']))
            elif c['k'] == 'tbp':
                tv = tvars[c['var']]
                A.append(('item', '%s#%s%%%s' % (tv['module'], tv.get('rtype', tv['type']), c['binding'])))
        return A
    for m in proj['modules']:
        atoms[m['name']] = [_import_atom(idx, u) for u in m.get('uses', [])]
        flags[m['name']] = {'recursive': False, 'kind': 'module'}
        for r in m.get('routines', []):
            n = '%s#%s' % (m['name'], r['name'])
            atoms[n] = routine_atoms(r, m['name']); flags[n] = {'recursive': bool(r.get('recursive')), 'kind': 'proc'}
        for t in m.get('types', []):
            n = '%s#%s' % (m['name'], t['name'])
            atoms[n] = [('item', '%s#%s' % (m['name'], mt)) for mt in t.get('members', [])]
            flags[n] = {'recursive': False, 'kind': 'type'}
            for b in t.get('bindings', []):
                bn = '%s%%%s' % (n, b['name'])
                atoms[bn] = [('item', '%s#%s' % (m['name'], b['proc']))]; flags[bn] = {'recursive': False, 'kind': 'binding'}
        for it in m.get('interfaces', []):
            n = '%s#%s' % (m['name'], it['name'])
            atoms[n] = [('item', '%s#%s' % (m['name'], p)) for p in it['procs']]; flags[n] = {'recursive': False, 'kind': 'intf'}
    for f in proj['free']:
        r = f['routine']; n = '#' + r['name']
        atoms[n] = routine_atoms(r, None); flags[n] = {'recursive': bool(r.get('recursive')), 'kind': 'proc'}
    return atoms, flags

def item_conf(config, name):
    """default options overridden by the `routines` entries whose key is the item's qualified or local name"""
    conf = dict(config.get('default', {}))
    nm = name.lower(); local = nm.split('#', 1)[-1] if '#' in nm else nm
    for k, v in config.get('routines', {}).items():
        if k.lower() in (nm, local):
            conf.update(v)
    return conf

def truth_children(config, name, atoms):
    """documented pruning of the children of one item; returns (list of names, missing_unpruned)"""
    conf = item_conf(config, name)
    if not conf.get('expand', False):
        return [], []
    keys = list(config.get('default', {}).get('disable', []) or []) + list(conf.get('disable', []) or []) + list(conf.get('block', []) or [])
    dead = lambda n: doc_match(n, keys)
    out, missing = [], []
    for a in atoms.get(name, []):
        if a[0] == 'item':
            if not dead(a[1]): out.append(a[1])
        elif a[0] == 'missing':
            if not dead(a[1]): out.append(a[1]); missing.append(a[1])
        else:
            _, m, syms = a
            if dead(m): continue
            if not syms: out.append(m); continue
            live = [(s, k) for s, k in syms if not dead('%s#%s' % (m, s))]
            if any(k == 'var' for _, k in live): out.append(m)
            out += ['%s#%s' % (m, s) for s, k in live if k == 'item']
    res = []
    for n in out:
        if n not in res: res.append(n)
    return res, missing

def truth_seeds(proj, config, seeds):
    idx = _index(proj)
    gd = list(config.get('default', {}).get('disable', []) or [])
    out = []
    for s in seeds:
        s = s.lower()
        if '#' in s:
            scope, local = s.split('#', 1)
            if scope == '':
                cands = ['#' + local] if local in idx['free'] else []
            else:
                m = idx['mod'].get(scope)
                cands = ['%s#%s' % (scope, local)] if m and (any(r['name'] == local for r in m.get('routines', [])) or any(t['name'] == local for t in m.get('types', []))) else []
        elif s in idx['free']:
            cands = ['#' + s]
        else:
            cands = ['%s#%s' % (m['name'], s) for m in proj['modules']
                     if any(r['name'] == s for r in m.get('routines', [])) or any(t['name'] == s for t in m.get('types', []))]
        for c in cands:
            if c.startswith('#') or not doc_match(c, gd):
                if c not in out: out.append(c)
    return out

def truth_graph(proj, config, seeds):
    atoms, flags = truth_atoms(proj)
    strict = config.get('default', {}).get('strict', True)
    nodes = list(truth_seeds(proj, config, seeds)); edges = []; work = list(nodes); err = None
    while work:
        x = work.pop(0)
        ch, missing = truth_children(config, x, atoms)
        if missing and strict:
            err = 'RuntimeError'
        for y in ch:
            if y != x and (x, y) not in edges: edges.append((x, y))
            if y not in nodes:
                nodes.append(y); work.append(y)
    return nodes, edges, flags, err

def _reach(adj, src):
    seen, st = set(), [src]
    while st:
        u = st.pop()
        for v in adj.get(u, ()):
            if v not in seen:
                seen.add(v); st.append(v)
    return seen

# ----------------------------------------------------------------------------------------------
# generator
# ----------------------------------------------------------------------------------------------

PREFIXES = ['kern', 'util', 'comp', 'abor', 'calc', 'phys']

def _spell(rng):
    return rng.choice(['lower', 'lower', 'lower', 'upper', 'cap'])

def gen_project(rng, size):
    """files in a fixed order; every reference goes to the same or a later file (acyclic file graph), except
    recursion inside one file"""
    used = set()
    def fresh(prefix=None):
        while True:
            n = '%s%s%d' % (prefix or rng.choice(PREFIXES), rng.choice(['', '_']), rng.randint(1, 40))
            if n not in used:
                used.add(n); return n
    def new_routine(kind='sub'):
        return {'name': fresh(), 'kind': kind, 'recursive': False, 'spell': _spell(rng), 'uses': [], 'tvars': [],
                'calls': [], 'gvars': []}
    units = []      # ('mod', module dict) | ('free', file name, [routines])
    left = size
    while left > 0:
        if rng.random() < 0.6:
            stem = fresh(rng.choice(['ma', 'mb', 'geo', 'util', 'phys']))
            fn = stem + '_mod'
            fn = rng.choice([fn, fn.upper(), fn.capitalize()]) + rng.choice(['.F90', '.f90'])
            k = min(left, rng.randint(1, 4))
            m = {'name': stem + '_mod', 'file': rng.choice(['', 'module/', 'src/mods/']) + fn, 'spell': _spell(rng),
                 'vars': [], 'types': [], 'interfaces': [], 'uses': [],
                 'routines': [new_routine('fun' if rng.random() < 0.15 else 'sub') for _ in range(k)]}
            units.append(('mod', m)); left -= k
        else:
            k = min(left, 1 if rng.random() < 0.8 else 2)
            rs = [new_routine() for _ in range(k)]
            stem = rs[0]['name']
            fn = rng.choice(['', 'source/', 'src/']) + rng.choice([stem, stem.upper(), stem.capitalize()]) + rng.choice(['.F90', '.f90', '.f', '.F'])
            units.append(('free', fn, rs)); left -= k
    mods = [u[1] for u in units if u[0] == 'mod']
    # module vars, types with bindings, interfaces
    for m in mods:
        if rng.random() < 0.6:
            m['vars'] = ['gv_' + m['name'][:-4] + str(k) for k in range(rng.randint(1, 2))]
        subs = [r for r in m['routines'] if r['kind'] == 'sub']
        if subs and rng.random() < 0.5:
            for k in range(rng.randint(1, 2)):
                t = {'name': fresh('ty'), 'members': [], 'bindings': []}
                if m['types'] and rng.random() < 0.5:
                    t['members'].append(rng.choice(m['types'])['name'])
                m['types'].append(t)
            unbound = list(subs)
            for t in m['types']:
                if unbound and rng.random() < 0.8:
                    p = unbound.pop(rng.randrange(len(unbound)))
                    t['bindings'].append({'name': rng.choice(['apply', 'run', p['name']]), 'proc': p['name']})
        bound = {b['proc'] for t in m['types'] for b in t['bindings']}
        plain = [r for r in subs if r['name'] not in bound]
        if plain and rng.random() < 0.35:
            ps = rng.sample(plain, min(len(plain), rng.randint(1, 2)))
            m['interfaces'].append({'name': fresh('gen'), 'procs': [p['name'] for p in ps]})
    if mods and rng.random() < 0.5:
        hdr = {'name': 'hdr_mod', 'file': 'hdr_mod.F90', 'spell': 'lower', 'vars': ['kpar', 'nlev'], 'types': [],
               'interfaces': [], 'routines': [], 'uses': []}
        for m in mods:
            if rng.random() < 0.5:
                m['uses'].append({'module': 'hdr_mod', 'only': [rng.choice(hdr['vars'])]})
        units.append(('mod', hdr)); mods.append(hdr)
    # global order of routines with their file index and host module
    allr = []
    for fi, u in enumerate(units):
        if u[0] == 'mod':
            for r in u[1]['routines']: allr.append((r, u[1]['name'], fi))
        else:
            for r in u[2]: allr.append((r, None, fi))
    modfile = {u[1]['name']: fi for fi, u in enumerate(units) if u[0] == 'mod'}
    boundall = {b['proc'] for m in mods for t in m['types'] for b in t['bindings']}
    for i, (r, host, fi) in enumerate(allr):
        ncall = rng.choice([0, 1, 1, 2, 2, 3, 4])
        later = allr[i + 1:]
        samefile_earlier = [a for a in allr[:i] if a[2] == fi]
        imports = {}   # module -> None (unqualified) | list of symbols
        def need(mod, sym):
            if mod not in imports:
                imports[mod] = None if rng.random() < 0.4 else []
            if imports[mod] is not None and sym not in imports[mod]:
                imports[mod].append(sym)
        for _ in range(ncall):
            u = rng.random()
            if u < 0.06:
                r['calls'].append({'k': 'missing', 'name': fresh('ext'), 'spell': _spell(rng)})
                continue
            if u < 0.12 and r['kind'] == 'sub':
                r['recursive'] = True
                if not any(c['k'] == 'self' for c in r['calls']): r['calls'].append({'k': 'self'})
                continue
            if u < 0.2 and samefile_earlier:
                # back edge inside the file: one of the two routines is RECURSIVE
                tgt, thost, _ = rng.choice(samefile_earlier)
                if tgt['name'] in boundall: continue
                rng.choice([r, tgt])['recursive'] = True
            elif later:
                tgt, thost, _ = rng.choice(later)
                if tgt['name'] in boundall: continue
            else:
                continue
            if any(c.get('name') == tgt['name'] for c in r['calls']): continue
            k = 'fun' if tgt['kind'] == 'fun' else 'sub'
            if thost is None:
                r['calls'].append({'k': k, 'name': tgt['name'], 'via': 'free', 'spell': _spell(rng)})
            elif thost == host:
                r['calls'].append({'k': k, 'name': tgt['name'], 'via': 'host', 'spell': _spell(rng)})
            else:
                need(thost, tgt['name'])
                r['calls'].append({'k': k, 'name': tgt['name'], 'mod': thost, 'via': 'imp', 'spell': _spell(rng)})
        later_mods = [m for m in mods if modfile[m['name']] > fi or m['name'] == host]
        # type-bound call
        tmods = [m for m in later_mods if any(t['bindings'] for t in m['types'])]
        if tmods and rng.random() < 0.3:
            tm = rng.choice(tmods)
            t = rng.choice([t for t in tm['types'] if t['bindings']])
            b = rng.choice(t['bindings'])
            vn = 'v_%s' % t['name']
            if tm['name'] == host and any(a[0]['name'] == b['proc'] for a in allr[:i + 1]):
                r['recursive'] = True     # possible recursion through the binding
            if tm['name'] != host:
                if imports.get(tm['name'], []) is None: imports[tm['name']] = []
                need(tm['name'], t['name'])
                if imports[tm['name']] is None: imports[tm['name']] = [t['name']]
            r['tvars'].append({'name': vn, 'type': t['name'], 'module': tm['name']})
            r['calls'].append({'k': 'tbp', 'var': vn, 'binding': b['name'], 'spell': _spell(rng)})
        # generic interface call (from outside the module, qualified import)
        imods = [m for m in later_mods if m['interfaces'] and m['name'] != host]
        if imods and rng.random() < 0.25:
            im = rng.choice(imods); it = rng.choice(im['interfaces'])
            if imports.get(im['name'], []) is None: imports[im['name']] = []
            need(im['name'], it['name'])
            if imports[im['name']] is None: imports[im['name']] = [it['name']]
            r['calls'].append({'k': 'intf', 'name': it['name'], 'mod': im['name'], 'via': 'imp', 'spell': _spell(rng)})
        # module variables
        vmods = [m for m in later_mods if m['vars'] and m['name'] != host]
        if vmods and rng.random() < 0.3:
            vm = rng.choice(vmods); v = rng.choice(vm['vars'])
            need(vm['name'], v); r['gvars'].append(v)
        if rng.random() < 0.08:
            es = 'ext_sym%d' % rng.randint(1, 3)
            imports.setdefault('ext_lib_mod', [])
            if es not in imports['ext_lib_mod']: imports['ext_lib_mod'].append(es)
        if rng.random() < 0.05:
            others = [m['name'] for m in later_mods if m['name'] != host]
            if others: imports.setdefault(rng.choice(others), None)    # an unused unqualified import
        # qualified imports list every called name
        for c in r['calls']:
            if c.get('via') == 'imp' and imports.get(c['mod']) is not None and c['name'] not in imports[c['mod']]:
                imports[c['mod']].append(c['name'])
        # renamed imports for some qualified subroutine calls
        for c in r['calls']:
            if c['k'] == 'sub' and c.get('via') == 'imp' and imports.get(c['mod']) is not None and rng.random() < 0.15:
                loc = 'loc_' + c['name']
                imports[c['mod']] = [([loc, c['name']] if s == c['name'] else s) for s in imports[c['mod']]]
                c['orig'] = c['name']; c['name'] = loc
        for mod, syms in imports.items():
            r['uses'].append({'module': mod, 'only': (None if syms is None else list(syms)), 'spell': _spell(rng)})
        for c in r['calls']:
            if c.get('via') == 'imp':
                c['via'] = 'unq' if imports[c['mod']] is None else 'only'
    free = [{'file': u[1], 'routine': r} for u in units if u[0] == 'free' for r in u[2]]
    proj = {'modules': mods, 'free': free}
    if rng.random() < 0.7:
        add_shadow(rng, proj, fresh)
    return proj

def add_shadow(rng, proj, fresh):
    """the same local name imported at module level (from an outer module) and again inside a procedure (from an inner
    module), with plain and renamed ONLY entries: a called subroutine and/or a derived type with a bound procedure.
    Fortran resolves the name innermost-first; one sibling procedure keeps using the module-level import."""
    mods = [m for m in proj['modules'] if m['name'] != 'hdr_mod']
    boundp = lambda m: {b['proc'] for t in m['types'] for b in t['bindings']}
    infc = lambda m: {p for it in m['interfaces'] for p in it['procs']}
    subs = lambda m: [r for r in m['routines'] if r['kind'] == 'sub' and r['name'] not in boundp(m)]
    shadow = []
    def existing(r):
        names = set()
        for c in r['calls']:
            names.update(x for x in (c.get('name'), c.get('orig')) if x)
        for u in r['uses']:
            for x in (u.get('only') or []):
                names.update(x if isinstance(x, list) else [x])
        names.update(tv['type'] for tv in r['tvars'])
        return names
    for ui, U in enumerate(mods):
        later = mods[ui + 1:]
        if not U['routines'] or len(later) < 2: continue
        rs = [r for r in U['routines']]
        r_in = rng.choice(rs)
        others = [r for r in rs if r is not r_in]
        r_out = rng.choice(others) if others else None
        did = False
        # called subroutine
        cand = [m for m in later if subs(m)]
        if len(cand) >= 2 and rng.random() < 0.8:
            O, I = rng.sample(cand, 2)
            po, pi = rng.choice(subs(O))['name'], rng.choice(subs(I))['name']
            al = rng.choice([po, pi, fresh('hlp')])
            if al in existing(r_in) or {po, pi} & existing(r_in): al = fresh('hlp')
            if r_out is not None and ({al, po, pi} & existing(r_out)): r_out_p = None
            else: r_out_p = r_out
            U['uses'].append({'module': O['name'], 'only': [po if al == po else [al, po]]})
            r_in['uses'].append({'module': I['name'], 'only': [pi if al == pi else [al, pi]], 'spell': _spell(rng)})
            c = {'k': 'sub', 'name': al, 'mod': I['name'], 'via': 'only', 'spell': _spell(rng)}
            if al != pi: c['orig'] = pi
            r_in['calls'].append(c)
            if r_out_p is not None and rng.random() < 0.7:
                c = {'k': 'sub', 'name': al, 'mod': O['name'], 'via': 'modimp', 'spell': _spell(rng)}
                if al != po: c['orig'] = po
                r_out_p['calls'].append(c)
            did = True
        # derived type with a bound procedure
        # (renamed type imports are resolved through fall-backs of the item factory that an unqualified USE in the same
        # procedure derails; keep such procedures out)
        cand = [m for m in later if any(t['bindings'] for t in m['types'])]
        if len(cand) >= 2 and rng.random() < 0.8 and all(u.get('only') is not None for u in r_in['uses']):
            O, I = rng.sample(cand, 2)
            to = rng.choice([t for t in O['types'] if t['bindings']]); ti = rng.choice([t for t in I['types'] if t['bindings']])
            al = rng.choice([to['name'], ti['name'], fresh('tya')])
            if {al, to['name'], ti['name']} & existing(r_in): al = fresh('tya')
            if al == ti['name'] and any(tv['type'] == ti['name'] for r in rs for tv in r['tvars']): al = fresh('tya')
            # host-associated use of the module-level type import only for a plain (not renamed) module-level entry
            r_out_t = None if (r_out is None or al != to['name'] or ({al, to['name'], ti['name']} & existing(r_out))
                               or any(u.get('only') is None for u in r_out['uses'])) else r_out
            stmt = {'module': O['name'], 'only': [to['name'] if al == to['name'] else [al, to['name']]]}
            U['uses'].append(stmt)
            r_in['uses'].append({'module': I['name'], 'only': [ti['name'] if al == ti['name'] else [al, ti['name']]], 'spell': _spell(rng)})
            # the procedure also imports the outer type under a third name: with the REGEX frontend (and for an alias equal
            # to the inner type's own name) ProcedureItem._dependencies looks the declared type name up in the module-level
            # import map and adds the outer typedef as a dependency; this import makes that dependency a real one
            r_in['uses'].append({'module': O['name'], 'only': [[fresh('tyo'), to['name']]], 'spell': _spell(rng)})
            vn = 'w_%s' % al
            r_in['tvars'].append({'name': vn, 'type': al, 'module': I['name'], 'rtype': ti['name']})
            r_in['calls'].append({'k': 'tbp', 'var': vn, 'binding': rng.choice(ti['bindings'])['name'], 'spell': _spell(rng)})
            if r_out_t is not None and rng.random() < 0.7:
                r_out_t['tvars'].append({'name': vn, 'type': al, 'module': O['name'], 'rtype': to['name'], 'hostimp': stmt})
                r_out_t['calls'].append({'k': 'tbp', 'var': vn, 'binding': rng.choice(to['bindings'])['name'], 'spell': _spell(rng)})
            did = True
        if did:
            shadow.append('%s#%s' % (U['name'], r_in['name']))
            break
    if shadow:
        proj['shadow'] = shadow

def _all_item_names(proj):
    atoms, flags = truth_atoms(proj)
    return atoms, flags

def gen_keys(rng, proj, n, allow_pattern=True):
    atoms, flags = truth_atoms(proj)
    names = sorted(atoms)
    out = []
    for _ in range(n):
        if not names: break
        nm = rng.choice(names)
        scope = nm.split('#')[0] if '#' in nm else ''
        local = nm.split('#', 1)[1] if '#' in nm else nm
        form = rng.choice(['local', 'local', 'scoped', 'scope', 'pattern', 'pattern', 'type'])
        if form == 'local': k = local
        elif form == 'scoped': k = nm
        elif form == 'scope': k = scope or local
        elif form == 'type': k = local.split('%')[0]
        else:
            if not allow_pattern: k = local
            else:
                base = local.split('%')[0]
                u = rng.random()
                if u < 0.5: k = base[:rng.randint(2, max(2, len(base) - 1))] + '*'
                elif u < 0.75 and len(base) > 2:
                    j = rng.randrange(len(base)); k = base[:j] + '?' + base[j + 1:]
                else: k = '*' + base[-rng.randint(1, max(1, len(base) - 1)):]
        if k.startswith('#'): k = k[1:]
        if not k: continue
        k = rng.choice([k, k, k.upper(), k.capitalize()])
        out.append(k)
    return out

def gen_config(rng, proj):
    atoms, flags = truth_atoms(proj)
    procs = sorted(n for n in atoms if flags[n]['kind'] == 'proc')
    default = {'role': 'kernel', 'expand': rng.random() < 0.9, 'strict': rng.random() < 0.3,
               'enable_imports': rng.random() < 0.5}
    if rng.random() < 0.6: default['disable'] = gen_keys(rng, proj, rng.randint(1, 2))
    if rng.random() < 0.3: default['block'] = gen_keys(rng, proj, 1)
    if rng.random() < 0.4: default['ignore'] = gen_keys(rng, proj, rng.randint(1, 2), allow_pattern=rng.random() < 0.3)
    routines = {}
    for _ in range(rng.choice([0, 0, 1, 2, 3])):
        if not procs: break
        nm = rng.choice(procs)
        local = nm.split('#', 1)[1]
        key = rng.choice([local, local, nm if not nm.startswith('#') else local])
        key = rng.choice([key, key.upper()])
        if any(k.lower().split('#')[-1] == local for k in routines): continue
        ov = {}
        u = rng.random()
        if u < 0.3: ov['expand'] = not default['expand'] if rng.random() < 0.8 else default['expand']
        elif u < 0.55: ov['block'] = gen_keys(rng, proj, rng.randint(1, 2))
        elif u < 0.75: ov['disable'] = gen_keys(rng, proj, rng.randint(0, 2))
        elif u < 0.9: ov['ignore'] = gen_keys(rng, proj, rng.randint(1, 2), allow_pattern=False)
        else: ov['role'] = 'driver'
        routines[key] = ov
    return {'default': default, 'routines': routines}

def aim_block(rng, case):
    """block / disable entries (plain, scoped, mixed case) of a reachable caller aimed at one of its callees from another
    module: callees behind an unqualified USE next to ONLY-imported ones"""
    proj, config = case['proj'], case['config']
    routines, default = config['routines'], config['default']
    nodes = set(truth_graph(proj, config, case['seeds'])[0])
    pairs = []
    for m in proj['modules']:
        for r in m['routines']:
            pairs += [('%s#%s' % (m['name'], r['name']), c) for c in r['calls'] if c.get('via') in ('unq', 'only') and c['k'] in ('sub', 'fun')]
    for f in proj['free']:
        pairs += [('#' + f['routine']['name'], c) for c in f['routine']['calls'] if c.get('via') in ('unq', 'only') and c['k'] in ('sub', 'fun')]
    pairs = [p for p in pairs if p[0] in nodes and item_conf(config, p[0]).get('expand', False)]
    unqp = [p for p in pairs if p[1]['via'] == 'unq']
    if not unqp:
        # turn one ONLY import of a reachable caller into an unqualified USE when it lists called procedures only
        byname = {('%s#%s' % (m['name'], r['name'])): r for m in proj['modules'] for r in m['routines']}
        byname.update({'#' + f['routine']['name']: f['routine'] for f in proj['free']})
        for caller, c in rng.sample(pairs, len(pairs)):
            r = byname[caller]
            if any('rtype' in tv for tv in r['tvars']): continue
            u = next((u for u in r['uses'] if u['module'] == c['mod']), None)
            called = {cc['name'] for cc in r['calls'] if cc.get('mod') == c['mod'] and cc['k'] in ('sub', 'fun')}
            hal = {(x[0] if isinstance(x, list) else x) for m in proj['modules'] if m['name'] == caller.split('#')[0]
                   for uu in m.get('uses', []) for x in (uu.get('only') or [])}
            if u and u['only'] is not None and all(isinstance(x, str) and x in called for x in u['only']) and not (called & hal):
                u['only'] = None
                for cc in r['calls']:
                    if cc.get('mod') == c['mod'] and cc.get('via') == 'only': cc['via'] = 'unq'
                unqp = [(caller, cc) for cc in r['calls'] if cc.get('mod') == c['mod'] and cc.get('via') == 'unq']
                break
    for _ in range(rng.choice([1, 1, 2])):
        pool = unqp if (unqp and rng.random() < 0.75) else pairs
        if not pool: break
        caller, c = rng.choice(pool)
        callee = c.get('orig', c['name'])
        key = rng.choice([callee, callee, '%s#%s' % (c['mod'], callee)])
        key = rng.choice([key, key.upper(), key.capitalize()])
        local = caller.split('#', 1)[1]
        ex = next((k for k in routines if k.lower().split('#')[-1] == local), None)
        if ex is None:
            ex = rng.choice([local, local.upper(), caller if not caller.startswith('#') else local])
            routines[ex] = {}
        field = 'block' if rng.random() < 0.85 else 'disable'
        if field not in routines[ex]:
            routines[ex][field] = list(default.get(field, []) or [])
        routines[ex][field] = list(routines[ex][field]) + [key]
    return case

def gen_seeds(rng, proj, config):
    atoms, flags = truth_atoms(proj)
    procs = sorted(n for n in atoms if flags[n]['kind'] == 'proc')
    bound = {'%s#%s' % (m['name'], b['proc']) for m in proj['modules'] for t in m['types'] for b in t['bindings']}
    procs = [p for p in procs if p not in bound] or procs
    seeds = []
    for _ in range(rng.choice([1, 1, 2, 3])):
        nm = rng.choice(procs)
        local = nm.split('#', 1)[1]
        form = rng.choice(['local', 'local', 'full', 'upper'])
        s = local if form == 'local' else nm if form == 'full' else local.upper()
        seeds.append(s)
    if proj.get('shadow') and rng.random() < 0.6:
        seeds.append(rng.choice([proj['shadow'][0], proj['shadow'][0].split('#')[1]]))
    if rng.random() < 0.08: seeds.append('no_such_routine')
    return seeds

def plain_match(name, keys):
    nm = name.lower(); local = nm.split('#', 1)[-1]
    return any(k.lower() in (nm, local) for k in keys)

def unq_in_class(mod, p, gd, idis, iblk):
    tgt = '%s#%s' % (mod, p)
    if doc_match(tgt, gd):
        return doc_match('#' + p, gd + idis + iblk)
    return doc_match(tgt, idis + iblk) == plain_match(tgt, idis + iblk)

def normalise_case(case):
    """keep the case inside the class where the unchanged code satisfies the property (see notes/C21.md):
    * for a procedure m#p reached through an unqualified USE the code is right iff (unq_in_class): either a key of
      default.disable selects m#p AND the pruning lists also select "#p" (local-name and pattern keys do, scoped and
      module keys do not: F-C21-4), or no default.disable key selects it and "some key of item.disable/item.block selects
      m#p by pattern/scope" coincides with "some key is its qualified or local name" (plain, scoped, any case: the
      re-filter of create_dependency_items and the block test of _add_children; patterns and module names: F-C21-5);
      it must not be listed in a generic interface, and (functions) needs the FP full parse;
    * symbols imported from modules outside the search path are not disabled;
    * seeds are not disabled."""
    proj, config = case['proj'], case['config']
    fp_full = case['frontend'] == 'fp' and case['full_parse']
    infc = {(m['name'], p) for m in proj['modules'] for it in m['interfaces'] for p in it['procs']}
    gd = list(config['default'].get('disable', []) or [])
    modal = {}
    for m in proj['modules']:
        modal[m['name']] = {(x[0] if isinstance(x, list) else x) for u in m.get('uses', []) for x in (u.get('only') or [])}
    def fix_routine(r, name):
        conf = item_conf(config, name)
        aliases = modal.get(name.split('#')[0], set())
        if not fp_full:
            r['calls'] = [c for c in r['calls'] if not (c['k'] == 'fun' and c.get('via') == 'host')]
        idis, iblk = list(conf.get('disable', []) or []), list(conf.get('block', []) or [])
        for c in r['calls']:
            if c.get('via') == 'unq':
                if not unq_in_class(c['mod'], c['name'], gd, idis, iblk) or (c['mod'], c['name']) in infc \
                        or (c['k'] == 'fun' and not (fp_full and config['default'].get('enable_imports'))) \
                        or c['name'] in aliases:
                    mvars = next((m.get('vars', []) for m in proj['modules'] if m['name'] == c['mod']), [])
                    for u in r['uses']:
                        if u['module'] == c['mod'] and u['only'] is None:
                            u['only'] = [cc['name'] for cc in r['calls'] if cc.get('mod') == c['mod'] and cc.get('via') == 'unq']
                            u['only'] += [g for g in r.get('gvars', []) if g in mvars]
                    for cc in r['calls']:
                        if cc.get('mod') == c['mod'] and cc.get('via') == 'unq': cc['via'] = 'only'
    for m in proj['modules']:
        for r in m['routines']: fix_routine(r, '%s#%s' % (m['name'], r['name']))
    for f in proj['free']:
        fix_routine(f['routine'], '#' + f['routine']['name'])
    # keys must not hit external symbols / modules, nor the missing routines when strict decides the outcome elsewhere
    def clean(keys):
        return [k for k in keys if not (doc_match('ext_lib_mod#ext_sym1', [k]) or doc_match('ext_lib_mod#ext_sym2', [k])
                                        or doc_match('ext_lib_mod#ext_sym3', [k]))]
    for sect in [config['default']] + list(config['routines'].values()):
        for f in ('disable', 'block'):
            if f in sect: sect[f] = clean(sect[f])
    gd = list(config['default'].get('disable', []) or [])
    seeds = []
    for s in case['seeds']:
        rs = truth_seeds(proj, {'default': {}}, [s])
        if all(not doc_match(n, gd) for n in rs):
            seeds.append(s)
    if not seeds:
        config['default']['disable'] = []
        seeds = case['seeds']
    case['seeds'] = seeds
    return case

# ----------------------------------------------------------------------------------------------
# running the real scheduler and reading the model input off the live items
# ----------------------------------------------------------------------------------------------

def _quiet():
    import loki.logging as ll
    ll.set_log_level(ll.ERROR)

def _frontend(name):
    from loki.frontend import FP, REGEX
    return FP if name == 'fp' else REGEX

def build(case, root, strict_override=None, for_extraction=False):
    from loki.batch import Scheduler
    cfg = copy.deepcopy(case['config'])
    if strict_override is not None:
        cfg['default']['strict'] = strict_override
    if for_extraction:
        # the graph is built inside __init__ BEFORE Scheduler._enrich runs; enrichment rewrites the types of imported
        # symbols (a renamed import can lose its use_name), so the model input is read from a second instance that
        # stops where the graph was built.  The observed graph always comes from the unmodified class.
        class _GraphOnly(Scheduler):
            def _enrich(self):
                return None
        Scheduler = _GraphOnly
    return Scheduler(paths=[root], config=cfg, seed_routines=list(case['seeds']),
                     frontend=_frontend(case['frontend']), full_parse=case['full_parse'])

def extract(sched, case):
    """model input from the live scheduler objects (after the graph has been read)"""
    from loki.batch import SchedulerConfig
    from loki.batch.item import FileItem, ModuleItem, ProcedureItem, TypeDefItem, ExternalItem
    from loki.ir import Import, CallStatement
    from loki.expression import ProcedureSymbol
    fac = sched.item_factory
    cfg0d = copy.deepcopy(case['config']); cfg0d['default']['strict'] = False
    cfg0 = SchedulerConfig.from_dict(cfg0d); cfg0.disable = ()
    # which calls go through an unqualified USE: from the description
    unq = {}
    for m in case['proj']['modules']:
        for r in m['routines']:
            unq['%s#%s' % (m['name'], r['name'])] = {c['name'] for c in r['calls'] if c.get('via') == 'unq'}
    for f in case['proj']['free']:
        unq['#' + f['routine']['name']] = {c['name'] for c in f['routine']['calls'] if c.get('via') == 'unq'}
    items = [it for it in list(fac.item_cache.values()) if not isinstance(it, FileItem)]
    free = [it.name.lower() for it in items if isinstance(it, ProcedureItem) and it.name.startswith('#') and it.name.count('#') == 1]
    mods = []
    for it in items:
        if isinstance(it, ModuleItem):
            smap = [str(k).lower() for k in it.ir.subroutine_map]
            mem = [d.local_name.lower() for d in it.create_definition_items(item_factory=fac, config=cfg0, only=(ProcedureItem, TypeDefItem))]
            mods.append([it.name.lower(), smap, mem])
    table = []
    for it in items:
        conf = {'expand': bool(it.expand), 'disable': [str(k) for k in (it.disable or ())], 'block': [str(k) for k in (it.block or ())],
                'ignore': [str(k) for k in (it.ignore or ())], 'recursive': False}
        nodes = []
        if not isinstance(it, ExternalItem):
            if isinstance(it, ProcedureItem):
                conf['recursive'] = any('recursive' in str(p).lower() for p in (getattr(it.ir, 'prefix', None) or []))
            scope_ir = None
            for node in it.dependencies:
                if scope_ir is None: scope_ir = it.scope_ir
                if isinstance(node, Import):
                    m = str(node.module).lower()
                    scope_item = fac.item_cache.get(m)
                    syms = []
                    if node.symbols:
                        defs = {}
                        if scope_item is not None and not isinstance(scope_item, ExternalItem):
                            defs = {d.local_name.lower(): d for d in scope_item.create_definition_items(item_factory=fac, config=cfg0)}
                        for s in node.symbols:
                            sn = str(s.type.use_name or s).lower()
                            d = defs.get(sn)
                            if d is None: k = 'var'
                            elif isinstance(d, ProcedureItem) and not d.ir.is_function: k = 'sub'
                            else: k = 'item'
                            syms.append([sn, k])
                    nodes.append(['import', m, syms])
                    continue
                pname = None
                if isinstance(node, CallStatement): pname = str(node.name).lower()
                elif isinstance(node, ProcedureSymbol): pname = str(node.name).lower()
                if pname is not None and pname in unq.get(it.name.lower(), ()):
                    mnames = [i.module for i in scope_ir.all_imports if not i.symbols]
                    cands = fac.get_or_create_module_definitions_from_candidates(pname, cfg0, module_names=mnames, only=ProcedureItem)
                    nodes.append(['unq', pname, [c.scope_name.lower() for c in cands], ('#' + pname) in fac.item_cache])
                    continue
                for d in (fac.create_from_ir(node, scope_ir, cfg0, ignore=None) or ()):
                    if d is None: continue
                    dn = d.name.lower()
                    if isinstance(d, ExternalItem) and dn.startswith('#') and dn not in fac.item_cache:
                        nodes.append(['missing', dn])
                    else:
                        nodes.append(['item', dn])
        table.append([it.name.lower(), conf, nodes])
    return {'strict': bool(case['config']['default'].get('strict', True)),
            'gdisable': [str(k) for k in sched.config.disable],
            'table': table, 'seeds': list(case['seeds']), 'free': free, 'mods': mods,
            'two_pass': bool(case['full_parse'])}

def observe(sched):
    items = sorted({i.name.lower() for i in sched.items})
    deps = sorted({(a.name.lower(), b.name.lower()) for a, b in sched.dependencies})
    ign = sorted({i.name.lower() for i in sched.items if i.is_ignored})
    classes = {i.name.lower(): type(i).__name__ for i in sched.items}
    return {'items': items, 'ordered': [i.name.lower() for i in sched.items], 'n_items': len(sched.items), 'deps': [list(d) for d in deps], 'n_deps': len(sched.dependencies),
            'ignored': ign, 'classes': classes}

def model_input(mi):
    def cfg(c):
        return C('mk_icfg', bool(c['expand']), list(c['disable']), list(c['block']), list(c['ignore']), bool(c['recursive']))
    def node(n):
        if n[0] == 'item': return C('DItem', n[1])
        if n[0] == 'missing': return C('DMissing', n[1])
        if n[0] == 'import':
            return C('DImport', n[1], [(s, Raw({'item': 'SKitem', 'sub': 'SKsub', 'var': 'SKvar'}[k])) for s, k in n[2]])
        return C('DCallUnq', n[1], list(n[2]), bool(n[3]))
    table = [(nm, (cfg(c), [node(n) for n in ns])) for nm, c, ns in mi['table']]
    mods = [(m, (list(a), list(b))) for m, a, b in mi['mods']]
    return C('mk_input', bool(mi['strict']), list(mi['gdisable']), table, list(mi['seeds']), list(mi['free']), mods, bool(mi['two_pass']))

# ----------------------------------------------------------------------------------------------
# independent matcher for the match_item_keys stream
# ----------------------------------------------------------------------------------------------

def ref_match(name, keys, pat, parents):
    n = name.lower()
    parts = n.split('#')
    if len(parts) > 3: return None
    if len(parts) == 1: scope, local = '', parts[0]
    elif len(parts) == 2: scope, local = parts
    else: scope, local = parts[0], parts[1] + '#' + parts[2]
    vs = [n, local]
    if parents:
        if scope: vs.append(scope)
        if '%' in local:
            bits = local.split('%')
            for i in range(1, len(bits) + 1):
                p = '%'.join(bits[:i]); vs += ['%s#%s' % (scope, p), p]
    out = []
    for k in keys:
        k = k.lower()
        if any((fnmatch.fnmatchcase(v, k) if pat else v == k) for v in vs): out.append(k)
    return out

class C21(Property):
    id = 'C21'
    imports = ['models.M_C21']
    theorem_file = 'theories/props/T_C21.v'
    parallel = True
    shard = 40
    rule = ('graph: seeded random multi-file Fortran projects written to a scratch directory (5-25 routines in 1-6 modules and '
            'free files; calls across modules through qualified, renamed and unqualified USE, same-module calls, free and missing '
            'routines, module functions, type-bound calls, generic interfaces, module variables, external modules, self and mutual '
            'recursion, file names/suffixes in mixed case, several units per file) x random configs (seeds plain/scoped/upper-case/'
            'unknown; default and per-routine disable/block/ignore entries in local, scoped, module, type and */? pattern form and '
            'mixed case; expand flags; strict; enable_imports) x frontend in {FP, REGEX} x full_parse; run through the real Scheduler; '
            'non-trivial = at least 4 nodes and the configuration prunes at least one node or edge of the unpruned closure or breaks a cycle; '
            'distinct = distinct (items, dependencies) results.  match: random item names (0-3 #, % members) and key lists through '
            'SchedulerConfig.match_item_keys with all four flag combinations')
    modelled_not_verified = [
        'resolution of Fortran names to item names (ItemFactory._get_procedure_item/_get_procedure_binding_item, imports, type lookup) is '
        'not modelled: the model starts from the per-item dependency nodes read off the live items (create_from_ir with an empty ignore list); '
        'that step is covered by the oracle, which derives the expected graph from the generator\'s own project description',
        'which calls go through an unqualified USE is taken from the project description; the candidate list is obtained with '
        'ItemFactory.get_or_create_module_definitions_from_candidates',
        'the first and the second SGraph.from_seed pass of a full parse are assumed to see the same dependency nodes',
        'SGraph._get_seed_name step "exactly one cached ProcedureItem with that local name" is not modelled (generated routine names are unique)',
        'modules outside the search path are modelled with their stable (second encounter) behaviour; generated configs do not disable their symbols',
        'fnmatch character classes ([...]) are outside the modelled pattern subset (* and ?)',
        'that _break_cycles leaves no cycle below a RECURSIVE procedure is checked by the oracle on every case, not proved',
        'names with more than two # (ValueError of match_item_keys) are excluded from graph cases by wf_input and covered by the match stream only',
    ]

    # ---- cases ---------------------------------------------------------------------------------
    def generate(self, rng, tier):
        n = 48 if tier == 'quick' else 500
        for i in range(n):
            size = rng.randint(5, 14) if tier == 'quick' or rng.random() < 0.6 else rng.randint(12, 25)
            proj = gen_project(rng, size)
            case = {'kind': 'graph', 'proj': proj, 'config': gen_config(rng, proj), 'seeds': None,
                    'frontend': rng.choice(['fp', 'regex']), 'full_parse': rng.random() < 0.75}
            case['seeds'] = gen_seeds(rng, proj, case['config'])
            if rng.random() < 0.75:
                aim_block(rng, case)
            yield normalise_case(case)
        nm = 300 if tier == 'quick' else 2500
        atoms = ['kern1', 'util_2', 'ma_mod', 'ty3', 'apply', 'abort', 'comp_11', 'x']
        for i in range(nm):
            depth = rng.choice([0, 1, 1, 1, 2, 3]) if rng.random() < 0.15 else rng.choice([0, 1, 1, 2])
            parts = [rng.choice(atoms + ['']) for _ in range(depth + 1)]
            if rng.random() < 0.3:
                parts[-1] = '%'.join([rng.choice(atoms)] + [rng.choice(atoms) for _ in range(rng.randint(1, 2))])
            name = '#'.join(parts)
            name = rng.choice([name, name.upper(), name.capitalize()])
            keys = []
            for _ in range(rng.randint(0, 4)):
                u = rng.random()
                if u < 0.35: k = rng.choice(parts) or rng.choice(atoms)
                elif u < 0.5: k = name
                elif u < 0.6: k = parts[-1].split('%')[0]
                elif u < 0.8:
                    b = rng.choice(parts) or rng.choice(atoms)
                    k = rng.choice([b[:2] + '*', '*' + b[-2:], b[:1] + '?' + b[2:], '*', b[:1] + '*' + b[-1:], '?' * len(b), '*#' + b, b + '#*'])
                else: k = rng.choice(atoms)
                keys.append(rng.choice([k, k.upper()]))
            yield {'kind': 'match', 'name': name, 'keys': keys, 'pat': rng.random() < 0.5, 'parents': rng.random() < 0.5}

    # ---- implementation ------------------------------------------------------------------------
    def run_impl(self, case):
        _quiet()
        if case['kind'] == 'match':
            from loki.batch import SchedulerConfig
            try:
                r = SchedulerConfig.match_item_keys(case['name'], case['keys'], use_pattern_matching=case['pat'],
                                                    match_item_parents=case['parents'])
                return {'keys': list(r)}
            except ValueError:
                return {'error': 'ValueError'}
        root = tempfile.mkdtemp(prefix='lv_c21_')
        try:
            write_project(case['proj'], root)
            out = {}
            try:
                sched = build(case, root)
                out = observe(sched)
            except (RuntimeError, UnboundLocalError) as e:
                out = {'error': type(e).__name__, 'msg': str(e)[:200]}
                sched = None
            try:
                sched = build(case, root, strict_override=(False if sched is None else None), for_extraction=True)
                out['model'] = extract(sched, case)
            except Exception as e:     # the shadow run failed as well: no model input
                out['model_error'] = '%s: %s' % (type(e).__name__, str(e)[:200])
            return out
        finally:
            shutil.rmtree(root, ignore_errors=True)

    # ---- model -----------------------------------------------------------------------------------
    def model_term(self, case, out):
        if case['kind'] == 'match':
            impl = None if 'error' in out else Some(list(out['keys']))
            return coq(C('chk_match', bool(case['pat']), bool(case['parents']), case['name'], list(case['keys']), impl))
        if '__exception__' in out:
            raise ValueError('implementation raised %s: %s' % (out['__exception__'], out.get('msg')))
        if 'model' not in out:
            raise ValueError('no model input: %s' % out.get('model_error'))
        inp = model_input(out['model'])
        if 'error' in out:
            code = {'RuntimeError': 1, 'UnboundLocalError': 2}[out['error']]
            return coq(C('chk_error', inp, Nat(code)))
        if out['n_items'] != len(out['items']) or out['n_deps'] != len(out['deps']):
            return 'false'
        return coq(C('chk_graph', inp, list(out['ordered']), [tuple(d) for d in out['deps']], list(out['ignored'])))

    def show_model(self, case, out):
        if case['kind'] == 'match':
            return ['match_keys %s %s %s %s' % (coq(bool(case['pat'])), coq(bool(case['parents'])), coq(case['name']), coq(list(case['keys'])))]
        if 'model' not in out: return []
        return ['scheduler_graph %s' % coq(model_input(out['model']))]

    # ---- oracle ----------------------------------------------------------------------------------
    def oracle(self, case, out):
        if '__exception__' in out:
            return 'implementation raised %s: %s' % (out['__exception__'], out.get('msg'))
        if case['kind'] == 'match':
            exp = ref_match(case['name'], case['keys'], case['pat'], case['parents'])
            got = None if 'error' in out else out['keys']
            if exp != got:
                return 'match_item_keys(%r, %r, pattern=%s, parents=%s) = %r, documented rules give %r' % (
                    case['name'], case['keys'], case['pat'], case['parents'], got, exp)
            return None
        nodes, edges, flags, err = truth_graph(case['proj'], case['config'], case['seeds'])
        # every file of the description must have been discovered: lower-cased paths must be distinct
        files = [m['file'] for m in case['proj']['modules']] + [f['file'] for f in case['proj']['free']]
        if 'error' in out:
            if err == out['error']:
                return None
            return 'Scheduler raised %s (%s); expected %s' % (out['error'], out.get('msg'), err or 'a graph with %d items' % len(nodes))
        if err:
            return 'expected %s (missing routine under strict), got a graph with %d items' % (err, len(out['items']))
        got_n, exp_n = set(out['items']), set(nodes)
        if got_n != exp_n:
            return 'items differ: missing %s, unexpected %s' % (sorted(exp_n - got_n)[:6], sorted(got_n - exp_n)[:6])
        if out['n_items'] != len(out['items']):
            return 'items listed more than once (%d entries, %d distinct names)' % (out['n_items'], len(out['items']))
        # every definition present in the search path is found: defined items are never external stand-ins
        want = {'proc': 'ProcedureItem', 'module': 'ModuleItem', 'type': 'TypeDefItem', 'binding': 'ProcedureBindingItem',
                'intf': 'InterfaceItem'}
        for n in sorted(exp_n):
            cls = out['classes'].get(n)
            exp_cls = want[flags[n]['kind']] if n in flags else 'ExternalItem'
            if cls != exp_cls:
                return 'item %s is a %s, expected %s (definition %s the search path)' % (
                    n, cls, exp_cls, 'present in' if n in flags else 'absent from')
        got_e, exp_e = {tuple(d) for d in out['deps']}, set(edges)
        if got_e - exp_e:
            return 'unexpected dependencies %s' % sorted(got_e - exp_e)[:6]
        rec = {n for n in nodes if flags.get(n, {}).get('recursive')}
        adj = {}
        for a, b in exp_e: adj.setdefault(a, set()).add(b)
        missing = exp_e - got_e
        if missing:
            # only _break_cycles may drop an edge: it must lie on a cycle of the full relation that a RECURSIVE procedure reaches
            for a, b in sorted(missing):
                on_cycle = a in _reach(adj, b) or a == b
                below_rec = any(a == r or a in _reach(adj, r) for r in rec)
                if not (on_cycle and below_rec):
                    return 'missing dependency %s -> %s (not on a cycle below a RECURSIVE procedure)' % (a, b)
        gadj = {}
        for a, b in got_e: gadj.setdefault(a, set()).add(b)
        for r in rec:
            below = _reach(gadj, r) | {r}
            for u in below:
                if u in _reach(gadj, u):
                    return 'cycle through %s remains below RECURSIVE procedure %s' % (u, r)
        return None

    def nontrivial_key(self, case, out):
        if case['kind'] == 'match':
            if 'error' in out or not out.get('keys'): return None
            return ('m', case['name'].lower(), tuple(sorted(out['keys'])), case['pat'], case['parents'])
        if 'error' in out:
            return ('e', out['error'], json.dumps(case['seeds']))
        if len(out.get('items', ())) < 4: return None
        cfg0 = {'default': {'role': 'kernel', 'expand': True, 'strict': False}, 'routines': {}}
        n0, e0, _, _ = truth_graph(case['proj'], cfg0, case['seeds'])
        if len(n0) == len(out['items']) and len(e0) == len(out['deps']): return None
        return ('g', tuple(out['items']), tuple(map(tuple, out['deps'])))

    def search(self, rng, bad_cases):
        # variations around a disagreeing project: drop default lists / per-routine overrides one at a time, other frontend;
        # every variation is brought back into the class (normalise_case)
        def fin(d):
            d.pop('_origin', None)
            return normalise_case(d)
        for c in bad_cases:
            if c.get('kind') != 'graph': continue
            for f in ('disable', 'block', 'ignore'):
                if c['config']['default'].get(f):
                    d = copy.deepcopy(c); d['config']['default'][f] = []; yield fin(d)
            for k in list(c['config']['routines']):
                d = copy.deepcopy(c); del d['config']['routines'][k]; yield fin(d)
            d = copy.deepcopy(c); d['frontend'] = 'regex' if c['frontend'] == 'fp' else 'fp'; yield fin(d)
            d = copy.deepcopy(c); d['full_parse'] = not c['full_parse']; yield fin(d)

PROP = C21
