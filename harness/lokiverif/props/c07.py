"""C07 — the standalone expression parser (loki.expression.parser.parse_expr) vs Fortran semantics.

Tie: random derivations of the Fortran expression grammar -> strings (random blanks, letter case, operator
spellings, kinds, redundant parentheses) -> real `parse_expr(s)` tree vs the Coq model's tree on the token
list (own tokenizer, independent of pytools.lex).  Oracle: the same text inside an assignment through the
real Fortran frontend; both trees evaluated by the reference evaluator below on several valuations."""
import re, random
from fractions import Fraction
from ..framework import Property
from ..coqlit import coq, C, Raw
from ..bridge_expr import structure, model_of_structure, NotRepresentable

# ------------------------------------------------------------------------------------------------
# universe of names (declared in the frontend wrapper)
IVARS = ['a', 'b', 'c', 'n', 'k', 'i', 'j']
LVARS = ['l', 'm', 'p']
RVARS = ['u', 'v', 'w']
ARRAYS = {'arr': 1, 'brr': 2, 'x%w': 1}
INTRINSICS = ['mod', 'min', 'max', 'abs']

TEMPLATE = """
subroutine c07t(a, b, c, n, k, i, j, l, m, p, u, v, w, arr, brr, x, ri, rl, rr)
  implicit none
  integer, parameter :: jpim = 4
  integer, parameter :: jprb = 8
  type ty
    integer :: y, z
    integer :: w(8)
  end type ty
  integer, intent(in) :: a, b, c, n, k, i, j
  logical, intent(in) :: l, m, p
  real(kind=jprb), intent(in) :: u, v, w
  integer, intent(in) :: arr(8), brr(8, 8)
  type(ty), intent(in) :: x
  integer, intent(out) :: ri
  logical, intent(out) :: rl
  real(kind=jprb), intent(out) :: rr
  %s = %s
end subroutine c07t
"""
LHS = {'int': 'ri', 'log': 'rl', 'real': 'rr'}

# ------------------------------------------------------------------------------------------------
# reference evaluator on the canonical structure (mirrors Base/Expr.v evalZ / M_C07.evalL; exact rationals
# for the real-typed stream).  Undefined -> None.

class Undef(Exception):
    pass

def tdiv(a, b):
    q = abs(a) // abs(b)
    return q if (a >= 0) == (b >= 0) else -q

def _num(x):
    if isinstance(x, bool) or not isinstance(x, (int, Fraction)):
        raise Undef('type')
    return x

def _log(x):
    if not isinstance(x, bool):
        raise Undef('type')
    return x

def array_value(name, idx, salt):
    v = (sum((3 + q) * int(t) for q, t in enumerate(idx)) * 7 + salt + len(name)) % 13 - 6
    return v if v != 0 else 1

def ev(s, env):
    k = s[0]
    if k in ('py', 'int'): return s[1]
    if k == 'log': return bool(s[1])
    if k == 'var':
        if s[1] not in env: raise Undef('unbound ' + s[1])
        return env[s[1]]
    if k == 'sum':
        r = 0
        for c in s[2:]: r = r + _num(ev(c, env))
        return r
    if k == 'prod':
        r = 1
        for c in s[2:]: r = r * _num(ev(c, env))
        return r
    if k == 'quot':
        a, b = _num(ev(s[2], env)), _num(ev(s[3], env))
        if b == 0: raise Undef('div0')
        if isinstance(a, int) and isinstance(b, int): return tdiv(a, b)
        return Fraction(a) / Fraction(b)
    if k == 'pow':
        a, n = _num(ev(s[2], env)), _num(ev(s[3], env))
        if not isinstance(n, int): raise Undef('non-integer exponent')
        if abs(n) > 40 or abs(a) > 10 ** 9: raise Undef('beyond the evaluator range')
        if n >= 0: return a ** n
        if a == 0: raise Undef('0**neg')
        if isinstance(a, int): return tdiv(1, a ** (-n))
        return Fraction(1) / (a ** (-n))
    if k == 'cmp':
        l, r = _num(ev(s[2], env)), _num(ev(s[3], env))
        return {'==': l == r, '!=': l != r, '<': l < r, '<=': l <= r, '>': l > r, '>=': l >= r}[s[1]]
    if k == 'and':
        vs = [_log(ev(c, env)) for c in s[1:]]
        return all(vs)
    if k == 'or':
        vs = [_log(ev(c, env)) for c in s[1:]]
        return any(vs)
    if k == 'not': return not _log(ev(s[1], env))
    if k == 'call':
        f = s[1]
        args = [_num(ev(c, env)) for c in s[2:]]
        if f in ARRAYS:
            if len(args) != ARRAYS[f] or not all(isinstance(t, int) for t in args): raise Undef('subscripts')
            return array_value(f, args, env.get('@salt', 0))
        if f == 'mod' and len(args) == 2:
            if args[1] == 0: raise Undef('mod0')
            return args[0] - args[1] * tdiv(args[0], args[1])
        if f == 'abs' and len(args) == 1: return abs(args[0])
        if f == 'min' and args: return min(args)
        if f == 'max' and args: return max(args)
        if f == 'not' and len(args) == 1: return ~args[0]
        raise Undef('call ' + f)
    if k == '?' and s[1] == 'FloatLiteral':
        txt = s[2].split('_')[0].lower().replace('d', 'e')
        try:
            return Fraction(txt)
        except Exception:
            raise Undef('float ' + s[2])
    raise Undef('node %s' % (s[:2],))

def evs(s, env):
    try:
        return ev(s, env)
    except Undef as e:
        return None

def jval(v):
    """JSON-able rendering of a value"""
    if isinstance(v, Fraction): return 'Q%d/%d' % (v.numerator, v.denominator)
    return v

def make_envs(vseed, n=10):
    r = random.Random('c07env/%s' % vseed)
    envs = []
    for q in range(n):
        e = {}
        for v in IVARS:
            x = r.randint(-7, 9)
            if x == 0 and r.random() < 0.8: x = r.choice([1, 2, 3, -2])
            e[v] = x
        for v in LVARS: e[v] = r.random() < 0.5
        for v in RVARS:
            e[v] = Fraction(r.choice([1, 2, 3, 5, -3, -1, 7]), r.choice([1, 2, 3, 4]))
        e['x%y'] = r.randint(-5, 6) or 2
        e['x%z'] = r.randint(-5, 6) or -3
        e['@salt'] = r.randint(0, 12)
        envs.append(e)
    return envs

# ------------------------------------------------------------------------------------------------
# own tokenizer (the token alphabet of the Coq model)

class NotTokenizable(Exception):
    pass

_DOTTED = {'true': 'TTrue', 'false': 'TFalse', 'and': 'TAnd', 'or': 'TOr', 'not': 'TNot',
           'eq': ('TCmp', 'Ceq'), 'ne': ('TCmp', 'Cne'), 'lt': ('TCmp', 'Clt'), 'le': ('TCmp', 'Cle'),
           'gt': ('TCmp', 'Cgt'), 'ge': ('TCmp', 'Cge')}
_SYM = [('**', 'TPow'), ('==', ('TCmp', 'Ceq')), ('/=', ('TCmp', 'Cne')), ('<=', ('TCmp', 'Cle')),
        ('>=', ('TCmp', 'Cge')), ('<', ('TCmp', 'Clt')), ('>', ('TCmp', 'Cgt')), ('*', 'TStar'), ('/', 'TSlash'),
        ('+', 'TPlus'), ('-', 'TMinus'), ('(', 'TLp'), (')', 'TRp'), (',', 'TComma'), ('%', 'TPct'), ('.', 'TPct')]
_RE_DOT = re.compile(r'\.(true|false|and|or|not|eq|ne|lt|le|gt|ge)\.', re.I)
_RE_INT = re.compile(r'[0-9]+(_[a-zA-Z]+)?')
_RE_ID = re.compile(r'[a-zA-Z_][a-zA-Z_0-9]*')
_PYKW = ('and', 'or', 'not', 'if', 'else')

def tokenize(s):
    """list of tokens: 'TPlus' | ('TInt', n) | ('TId', name) | ('TCmp', op) ..."""
    out, i, n = [], 0, len(s)
    while i < n:
        ch = s[i]
        if ch in ' \t\n':
            i += 1; continue
        m = _RE_DOT.match(s, i)
        if m:
            out.append(_DOTTED[m.group(1).lower()]); i = m.end(); continue
        m = _RE_INT.match(s, i)
        if m:
            j = m.end()
            if j < n and (s[j] == '.' or s[j].isalnum() or s[j] == '_'):
                raise NotTokenizable('literal followed by %r' % s[j])
            out.append(('TInt', int(m.group(0).split('_')[0]))); i = j; continue
        m = _RE_ID.match(s, i)
        if m:
            w = m.group(0)
            if w in _PYKW or w.startswith('True') or w.startswith('False'):
                raise NotTokenizable('python keyword ' + w)
            out.append(('TId', w.lower())); i = m.end(); continue
        for txt, tok in _SYM:
            if s.startswith(txt, i):
                if txt in ('(', '/') and s.startswith('(/', i) or s.startswith('/)', i):
                    raise NotTokenizable('array constructor bracket')
                out.append(tok); i += len(txt); break
        else:
            raise NotTokenizable('character %r' % ch)
    return out

def tok_coq(t):
    if isinstance(t, str): return Raw(t)
    if t[0] == 'TInt': return C('TInt', t[1])
    if t[0] == 'TId': return C('TId', t[1])
    return C('TCmp', Raw(t[1]))

# ------------------------------------------------------------------------------------------------
# derivations (JSON-able nested lists), their yield, class predicate, Coq literal, and text rendering

CMPS = {'Ceq': ['==', '.eq.', '.EQ.'], 'Cne': ['/=', '.ne.', '.NE.'], 'Clt': ['<', '.lt.', '.LT.'],
        'Cle': ['<=', '.le.', '.Le.'], 'Cgt': ['>', '.gt.', '.GT.'], 'Cge': ['>=', '.ge.', '.gE.']}

class Gen:
    """random derivations; `cls` = only derivations inside std_prec; `ext` = allow derived-type components"""
    def __init__(self, rng, cls=True, ext=False, maxlit=9, budget=None):
        self.r, self.cls, self.ext, self.maxlit = rng, cls, ext, maxlit
        self.left = budget if budget is not None else rng.choice([3, 4, 5, 6, 7, 8, 10, 12, 14])

    def prim(self, d):
        r = self.r
        x = r.random()
        self.left -= 1
        if d <= 0 or self.left <= 0 or x < 0.45:
            y = r.random()
            if self.ext and y < 0.35:
                return ['comp', 'x', r.choice(['y', 'z'])] if r.random() < 0.7 else ['compcall', 'x', 'w', [self.l2(0)]]
            if y < 0.4: return ['int', r.randint(0, self.maxlit)]
            return ['var', r.choice(IVARS)]
        if x < 0.70:
            if r.random() < 0.35:        # parenthesised term: (b/c), (b*c/n) ... exercises _parenthesise against the '*' re-association
                ops = [r.choice('/*/')] + [r.choice('*/') for _ in range(r.choice([0, 0, 1]))]
                if self.cls: ops = self.fix_ops(ops)
                return ['paren', ['l2', None, ['ao', self.mul(d - 1), [[o, self.mul(d - 2)] for o in ops]], []]]
            return ['paren', self.l2(d - 1)]
        if x < 0.85:
            f = r.choice(INTRINSICS)
            n = 1 if f == 'abs' else (2 if f == 'mod' else r.choice([2, 2, 3]))
            return ['call', f, [self.l2(d - 1) for _ in range(n)]]
        f = r.choice(['arr', 'arr', 'brr'])
        return ['call', f, [self.l2(d - 2) for _ in range(ARRAYS[f])]]

    def mul(self, d):
        r = self.r
        if d > 0 and r.random() < 0.22:
            e = self.mul(d - 1) if r.random() < 0.4 else ['m', ['int', r.randint(0, 3)] if r.random() < 0.7 else self.prim(d - 2)]
            return ['pow', self.prim(d - 1), e]
        return ['m', self.prim(d)]

    def mtail(self, d):
        r = self.r
        n = r.choice([0, 0, 0, 1, 1, 2, 3, 4]) if d > 0 else r.choice([0, 0, 1])
        n = max(0, min(n, self.left))
        ops = [r.choice('**/') for _ in range(n)]
        if self.cls:
            ops = self.fix_ops(ops)
        return [[o, self.mul(d - 1)] for o in ops]

    def fix_ops(self, ops):
        """make the operator chain satisfy ok_mtail: after a '*' only '*'s and at most one final '/'"""
        out = []
        for q, o in enumerate(ops):
            out.append(o)
        # find first '*'; everything after its operand must be simple
        if '*' in out:
            f = out.index('*')
            rest = out[f + 1:]
            rest = ['*'] * len(rest) if not rest else ['*'] * (len(rest) - 1) + [rest[-1]]
            out = out[:f + 1] + rest
        return out

    def add(self, d):
        return ['ao', self.mul(d), self.mtail(d)]

    def l2(self, d):
        r = self.r
        sg = None
        if r.random() < 0.2: sg = r.choice(['-', '-', '+'])
        a = self.add(d)
        if self.cls and sg == '-' and a[1][0] == 'pow':
            a[1] = ['m', ['paren', ['l2', None, ['ao', a[1], []], []]]] if r.random() < 0.5 else ['m', a[1][1]]
        n = r.choice([0, 0, 1, 1, 2]) if d > 0 else r.choice([0, 0, 0, 1])
        n = max(0, min(n, self.left))
        return ['l2', sg, a, [[r.choice('+-'), self.add(d - 1)] for _ in range(n)]]

    # logical levels
    def lprim(self, d):
        r = self.r
        x = r.random()
        self.left -= 1
        if d <= 0 or self.left <= 0 or x < 0.5:
            y = r.random()
            if y < 0.2: return [r.choice(['true', 'false'])]
            return ['lvar', r.choice(LVARS)]
        return ['lparen', self.lexpr(d - 1)]

    def l4(self, d):
        if self.r.random() < 0.55:
            return ['cmp', self.l2(min(d, 1) if self.r.random() < 0.7 else d - 1), self.r.choice(list(CMPS)),
                    self.l2(min(d, 1) if self.r.random() < 0.7 else d - 1)]
        return ['l4p', self.lprim(d)]

    def andop(self, d):
        if self.r.random() < 0.3:
            x = self.l4(d)
            if self.cls and x[0] == 'cmp':
                x = ['l4p', ['lparen', ['le', ['oro', ['ab', x], []], []]]]
            return ['an', x]
        return ['ab', self.l4(d)]

    def orop(self, d):
        n = self.r.choice([0, 0, 1, 1, 2]) if d > 0 else self.r.choice([0, 0, 1])
        n = max(0, min(n, self.left))
        return ['oro', self.andop(d), [self.andop(d - 1) for _ in range(n)]]

    def lexpr(self, d):
        n = self.r.choice([0, 0, 1, 1, 2]) if d > 0 else self.r.choice([0, 0, 1])
        n = max(0, min(n, self.left))
        return ['le', self.orop(d), [self.orop(d - 1) for _ in range(n)]]

def d_tokens(d):
    """yield of a derivation; component primaries are followed by the marker '#' (removed by the caller)"""
    k = d[0]
    if k == 'int': return [('TInt', d[1])]
    if k == 'var' or k == 'lvar': return [('TId', d[1])]
    if k == 'comp': return [('TId', d[1]), 'TPct', ('TId', d[2]), '#']
    if k == 'compcall':
        return [('TId', d[1]), 'TPct', ('TId', d[2]), 'TLp'] + d_args(d[3]) + ['TRp', '#']
    if k in ('paren', 'lparen'): return ['TLp'] + d_tokens(d[1]) + ['TRp']
    if k == 'call': return [('TId', d[1]), 'TLp'] + d_args(d[2]) + ['TRp']
    if k == 'm': return d_tokens(d[1])
    if k == 'pow': return d_tokens(d[1]) + ['TPow'] + d_tokens(d[2])
    if k == 'ao':
        out = d_tokens(d[1])
        for o, m in d[2]: out += [{'*': 'TStar', '/': 'TSlash'}[o]] + d_tokens(m)
        return out
    if k == 'l2':
        out = [] if d[1] is None else [{'+': 'TPlus', '-': 'TMinus'}[d[1]]]
        out += d_tokens(d[2])
        for o, a in d[3]: out += [{'+': 'TPlus', '-': 'TMinus'}[o]] + d_tokens(a)
        return out
    if k == 'true': return ['TTrue']
    if k == 'false': return ['TFalse']
    if k == 'l4p': return d_tokens(d[1])
    if k == 'cmp': return d_tokens(d[1]) + [('TCmp', d[2])] + d_tokens(d[3])
    if k == 'ab': return d_tokens(d[1])
    if k == 'an': return ['TNot'] + d_tokens(d[1])
    if k == 'oro':
        out = d_tokens(d[1])
        for x in d[2]: out += ['TAnd'] + d_tokens(x)
        return out
    if k == 'le':
        out = d_tokens(d[1])
        for x in d[2]: out += ['TOr'] + d_tokens(x)
        return out
    raise ValueError(d)

def d_args(args):
    out = []
    for q, a in enumerate(args):
        if q: out.append('TComma')
        out += d_tokens(a)
    return out

def has_ext(d):
    if isinstance(d, list):
        if d and d[0] in ('comp', 'compcall'): return True
        return any(has_ext(c) for c in d)
    return False

def simple_ops(ops):
    return all(o == '*' for o in ops[:-1])

def ok_ops(ops):
    if '*' not in ops: return True
    return simple_ops(ops[ops.index('*') + 1:])

def d_std(d):
    """python mirror of std_prec (cross-checked against the Coq definition by chk_deriv on every case)"""
    k = d[0]
    if k in ('int', 'var', 'lvar', 'true', 'false', 'comp'): return True
    if k in ('paren', 'lparen', 'm', 'l4p', 'ab'): return d_std(d[1])
    if k == 'call': return d[1] not in ('real', 'int') and all(d_std(a) for a in d[2])
    if k == 'compcall': return all(d_std(a) for a in d[3])
    if k == 'pow': return d_std(d[1]) and d_std(d[2])
    if k == 'ao': return d_std(d[1]) and all(d_std(m) for _, m in d[2]) and ok_ops([o for o, _ in d[2]])
    if k == 'l2':
        if d[1] == '-' and d[2][1][0] == 'pow': return False
        return d_std(d[2]) and all(d_std(a) for _, a in d[3])
    if k == 'cmp': return d_std(d[1]) and d_std(d[3])
    if k == 'an': return d[1][0] != 'cmp' and d_std(d[1])
    if k in ('oro', 'le'): return d_std(d[1]) and all(d_std(x) for x in d[2])
    raise ValueError(d)

def d_coq(d):
    k = d[0]
    if k == 'int': return C('PrInt', d[1])
    if k == 'var': return C('PrVar', d[1])
    if k == 'paren': return C('PrParen', d_coq(d[1]))
    if k == 'call': return C('PrCall', d[1], args_coq(d[2]))
    if k == 'm': return C('MBase', d_coq(d[1]))
    if k == 'pow': return C('MPow', d_coq(d[1]), d_coq(d[2]))
    if k == 'ao':
        t = Raw('MNil')
        for o, m in reversed(d[2]): t = C('MMul' if o == '*' else 'MDiv', d_coq(m), t)
        return C('AO', d_coq(d[1]), t)
    if k == 'l2':
        t = Raw('ANil')
        for o, a in reversed(d[3]): t = C('AAdd' if o == '+' else 'ASub', d_coq(a), t)
        sg = Raw('None') if d[1] is None else Raw('(Some SPlus)' if d[1] == '+' else '(Some SMinus)')
        return C('L2', sg, d_coq(d[2]), t)
    if k == 'true': return Raw('LTrue')
    if k == 'false': return Raw('LFalse')
    if k == 'lvar': return C('LVar', d[1])
    if k == 'lparen': return C('LParen', d_coq(d[1]))
    if k == 'l4p': return C('L4Prim', d_coq(d[1]))
    if k == 'cmp': return C('L4Cmp', d_coq(d[1]), Raw(d[2]), d_coq(d[3]))
    if k == 'ab': return C('AndBase', d_coq(d[1]))
    if k == 'an': return C('AndNot', d_coq(d[1]))
    if k == 'oro':
        t = Raw('DNil')
        for x in reversed(d[2]): t = C('DAnd', d_coq(x), t)
        return C('OrO', d_coq(d[1]), t)
    if k == 'le':
        t = Raw('ONil')
        for x in reversed(d[2]): t = C('OOr', d_coq(x), t)
        return C('LE', d_coq(d[1]), t)
    raise ValueError(d)

def args_coq(args):
    t = C('AOne', d_coq(args[-1]))
    for a in reversed(args[:-1]): t = C('ACons', d_coq(a), t)
    return t

def comp_class(toks):
    """tokens with '#' markers -> (tokens, ok): a component designator must not be followed by * / ** (F-comp)"""
    out, ok = [], True
    for q, t in enumerate(toks):
        if t == '#':
            nxt = next((u for u in toks[q + 1:] if u != '#'), None)
            if nxt in ('TStar', 'TSlash', 'TPow'): ok = False
        else:
            out.append(t)
    return out, ok

def render(toks, rng, spaced=False):
    """token list -> source text with random spellings, letter case, kinds and blanks"""
    parts = []
    for t in toks:
        if isinstance(t, tuple):
            if t[0] == 'TInt':
                txt = str(t[1]) + ('_jpim' if rng.random() < 0.08 else '')
            elif t[0] == 'TId':
                txt = t[1].upper() if rng.random() < 0.25 else (t[1].capitalize() if rng.random() < 0.1 else t[1])
            else:
                txt = rng.choice(CMPS[t[1]])
        else:
            txt = {'TTrue': ['.true.', '.TRUE.', '.True.'], 'TFalse': ['.false.', '.FALSE.'], 'TPlus': ['+'], 'TMinus': ['-'],
                   'TStar': ['*'], 'TSlash': ['/'], 'TPow': ['**'], 'TLp': ['('], 'TRp': [')'], 'TComma': [','],
                   'TPct': ['%'], 'TAnd': ['.and.', '.AND.'], 'TOr': ['.or.', '.OR.'], 'TNot': ['.not.', '.NOT.']}[t]
            txt = rng.choice(txt)
        parts.append(txt)
    s = ''
    style = rng.random()
    for q, txt in enumerate(parts):
        if q:
            prev = parts[q - 1]
            need = (prev[-1].isdigit() or prev.endswith('_jpim')) and txt[0] == '.'   # "1.eq." lexes as a real literal (F-lex)
            need = need or (prev == '/' and txt in ('=', '==', ')')) or (prev == '(' and txt == '/')
            if spaced or need or (style < 0.3 and rng.random() < 0.7) or (0.3 <= style < 0.8 and rng.random() < 0.25):
                s += ' ' * rng.choice([1, 1, 1, 2])
        s += txt
    if rng.random() < 0.1: s = ' ' + s
    if rng.random() < 0.1: s = s + ' '
    return s

# ------------------------------------------------------------------------------------------------
# the real-typed stream (oracle only: the shared Coq tree type has no real literals)

def gen_real(rng, d):
    """real-typed expression text: real literals (some with exponent letters), real variables, integer exponents"""
    def lit():
        return rng.choice(['1.5', '2.', '0.25', '3.0', '1.5e1', '2.5d0', '4.E0', '.5', '10.0', '2.0', '1e1', '0.5D0'])
    def prim(d):
        x = rng.random()
        if d <= 0 or x < 0.5:
            return lit() if rng.random() < 0.5 else rng.choice(RVARS)
        if x < 0.8: return '(' + expr(d - 1) + ')'
        f = rng.choice(['abs', 'max', 'min'])
        if f == 'abs': return 'abs(' + expr(d - 1) + ')'
        return f + '(' + expr(d - 1) + ', ' + expr(d - 1) + ')'
    def mul(d, nopow=False):
        p = prim(d)
        if not nopow and rng.random() < 0.2: p = p + '**' + str(rng.randint(0, 3))
        return p
    def add(d, nopow=False):
        s = mul(d, nopow)
        for _ in range(rng.choice([0, 0, 1, 2, 3])):
            o = rng.choice('*/')
            s += rng.choice([o, ' %s ' % o]) + mul(d - 1)
        return s
    def expr(d):
        neg = rng.random() < 0.15          # a leading minus never meets a power here (that is finding F2a)
        s = ('-' if neg else '') + add(d, neg)
        for _ in range(rng.choice([0, 0, 1, 2])): s += rng.choice([' + ', '-', '+', ' - ']) + add(d - 1)
        return s
    s = expr(d)
    if rng.random() < 0.3: s = s + rng.choice([' + ', '*', ' - ']) + rng.choice(['1.5_jprb', '2._jprb', '0.5_JPRB'])
    return s

# ------------------------------------------------------------------------------------------------

class C07(Property):
    id = 'C07'
    imports = ['Base.Expr', 'models.M_C07']
    theorem_file = 'theories/props/T_C07.v'
    parallel = True
    shard = 400
    rule = ('random derivations of the Fortran expression grammar (primary / mult-operand with right-assoc ** / add-operand with '
            'left-assoc * and / chains / level-2 with leading sign and + - chains / relational / .not. / .and. / .or.), depth<=4, '
            'with integer literals (some kinded), integer and logical variables, intrinsic calls mod/min/max/abs, subscripted arrays, '
            'derived-type components, redundant parentheses; printed with random blanks, letter case and operator spellings '
            '(== vs .eq. etc.); tie = parse_expr(s) tree vs Coq model tree on the token list (own tokenizer) + the Coq yield/class of the '
            'derivation vs the harness\'; oracle = same text in an assignment parsed by the Fortran frontend (fparser), both trees '
            'evaluated on 10 valuations (definedness and value must agree); streams: in-class (oracle+tie), out-of-class instances of the '
            'known-finding families (tie only), malformed token mutations (tie only: ParseError / same tree), real-typed strings (oracle '
            'only, exact rationals); distinct = distinct blank-free lower-cased strings with >= 2 operators')
    modelled_not_verified = [
        'lexer (pytools.lex with Loki\'s lex_table) is not modelled: the model starts from the token list of an independent tokenizer in the harness; it is covered by the tie and the oracle only',
        'FORTRAN_INTRINSIC_PROCEDURES is represented in the mapper model by the four names the generator uses (mod, min, max, abs); Cast (real/int) is outside the model',
        'AttachScopes / scope lookup after the mapper is modelled as the identity on the tree structure',
        'real literals, string literals, ranges, array constructors, keyword arguments are outside the Coq tree type (real literals: oracle only)',
        'values: reference evaluator of the harness on both trees (mirrors Base/Expr.v evalZ and M_C07.evalL)',
    ]

    # ---------------------------------------------------------------- generation
    def _case(self, kind, s, ty, deriv=None, in_class=None, oracle=True, vseed=0):
        c = {'kind': kind, 's': s, 'ty': ty, 'oracle': bool(oracle), 'vseed': int(vseed)}
        if deriv is not None:
            c['deriv'] = deriv
            c['in_class'] = bool(in_class)
        return c

    def _from_deriv(self, rng, kind, d, ty, ext=False):
        toks = d_tokens(d)
        toks, comp_ok = comp_class(toks)
        s = render(toks, rng)
        cls = d_std(d) and comp_ok
        if has_ext(d):
            return self._case(kind + ('' if cls else '-out'), s, ty, None, None, oracle=cls, vseed=rng.randint(0, 10 ** 6))
        return self._case(kind + ('' if cls else '-out'), s, ty, d, cls, oracle=cls, vseed=rng.randint(0, 10 ** 6))

    def generate(self, rng, tier):
        scale = 1 if tier == 'quick' else 10
        # fixed small strings first (precedence landmarks)
        for s, ty in [('a*b/c', 'int'), ('a/b*c', 'int'), ('a/b/c', 'int'), ('a*b*c/n', 'int'), ('a-b-c', 'int'), ('-a*b', 'int'),
                      ('-a/b', 'int'), ('2**3**2', 'int'), ('(2**3)**2', 'int'), ('-(a**2)', 'int'), ('a-b**2', 'int'), ('+a**2', 'int'),
                      ('a - (-b)', 'int'), ('a*(b/c)*n', 'int'), ('a == -b', 'log'), ('a .lt. b .and. .not. l', 'log'),
                      ('l .or. m .and. p', 'log'), ('.not. (a == b)', 'log'), ('.not. l .and. m', 'log'), ('a+1 <= b*2 .or. l', 'log'),
                      ('x%y + a', 'int'), ('a*x%y', 'int'), ('x%w(i) - 1', 'int'), ('mod(a, b) + max(a, b, c)', 'int'),
                      ('arr(i+1)*brr(i, j)', 'int'), ('1_jpim + a', 'int'), ('a .eq. 1 .and. b .ne. 2', 'log'), ('f()', 'int')]:
            yield self._case('fixed', s, ty, None, None, oracle=(s != 'f()'), vseed=7)
        for q in range(420 * scale):
            g = Gen(rng, cls=True)
            d = g.l2(rng.choice([1, 2, 2, 3, 3, 4]))
            yield self._from_deriv(rng, 'arith', d, 'int')
        for q in range(230 * scale):
            g = Gen(rng, cls=True)
            d = g.lexpr(rng.choice([1, 2, 2, 3]))
            yield self._from_deriv(rng, 'logic', d, 'log')
        for q in range(150 * scale):
            g = Gen(rng, cls=False)
            if rng.random() < 0.65:
                yield self._from_deriv(rng, 'arith', g.l2(rng.choice([1, 2, 3])), 'int')
            else:
                yield self._from_deriv(rng, 'logic', g.lexpr(rng.choice([1, 2])), 'log')
        for q in range(120 * scale):
            g = Gen(rng, cls=True, ext=True)
            if rng.random() < 0.75:
                yield self._from_deriv(rng, 'comp', g.l2(rng.choice([1, 2, 3])), 'int')
            else:
                yield self._from_deriv(rng, 'comp', g.lexpr(rng.choice([1, 2])), 'log')
        for q in range(120 * scale):
            g = Gen(rng, cls=False)
            toks = d_tokens(g.l2(rng.choice([1, 2])) if rng.random() < 0.6 else g.lexpr(rng.choice([1, 2])))
            toks = self._mutate(rng, toks)
            yield self._case('malformed', render(toks, rng, spaced=True), 'int', None, None, oracle=False, vseed=0)
        for q in range(60 * scale):
            s = gen_real(rng, rng.choice([1, 2, 2, 3]))
            yield self._case('real', s, 'real', None, None, oracle=True, vseed=rng.randint(0, 10 ** 6))

    def _mutate(self, rng, toks):
        toks = list(toks)
        ops = ['TPlus', 'TMinus', 'TStar', 'TSlash', 'TPow', 'TLp', 'TRp', 'TComma', 'TAnd', 'TOr', 'TNot', ('TCmp', 'Clt'),
               ('TId', 'a'), ('TInt', 2), 'TTrue']
        for _ in range(rng.choice([1, 1, 2])):
            x = rng.random()
            q = rng.randrange(len(toks) + 1)
            if x < 0.35 and toks: toks.pop(min(q, len(toks) - 1))
            elif x < 0.75: toks.insert(q, rng.choice(ops))
            elif x < 0.9: toks = toks[:q]
            else: toks = toks[q:]
        if not toks: toks = ['TPlus'] if rng.random() < 0.5 else []
        return toks

    # ---------------------------------------------------------------- implementation side
    def run_impl(self, case):
        from loki import parse_expr
        s, ty = case['s'], case['ty']
        out = {'tree': None, 'error': None, 'fe_tree': None, 'fe_error': None}
        try:
            t = parse_expr(s)
            out['tree'] = structure(t)
        except Exception as e:            # expected: pytools.lex.ParseError and friends
            out['error'] = type(e).__name__
        if not case.get('oracle'):
            return out
        try:
            from loki import Subroutine, FindNodes, Assignment
            from loki.frontend import FP
            r = Subroutine.from_source(TEMPLATE % (LHS[ty], s), frontend=FP)
            out['fe_tree'] = structure(FindNodes(Assignment).visit(r.body)[0].rhs)
        except BaseException as e:
            out['fe_error'] = type(e).__name__
            return out
        envs = case.get('envs') or make_envs(case.get('vseed', 0))
        envs = [dict(e) for e in envs]
        if out['tree'] is not None:
            out['lv'] = [jval(evs(out['tree'], e)) for e in envs]
        out['fv'] = [jval(evs(out['fe_tree'], e)) for e in envs]
        return out

    # ---------------------------------------------------------------- model side
    def _tokens(self, case):
        try:
            return tokenize(case['s'])
        except NotTokenizable:
            return None

    def model_term(self, case, out):
        if '__exception__' in out:
            raise ValueError('harness failure: %s' % out.get('msg'))
        if case['ty'] == 'real':
            return None
        toks = self._tokens(case)
        if toks is None:
            return None
        tl = [tok_coq(t) for t in toks]
        parts = []
        if out['tree'] is not None:
            try:
                parts.append(coq(C('chk_tree', tl, model_of_structure(out['tree']))))
            except (NotRepresentable, KeyError):
                if case['kind'] == 'malformed': return None
                raise
        elif out['error'] == 'ParseError':
            parts.append(coq(C('chk_error_weak' if case['kind'] == 'malformed' else 'chk_parse_error', tl)))
        elif case['kind'] == 'malformed':
            return None
        else:
            raise ValueError('unexpected exception %s from parse_expr on %r' % (out['error'], case['s']))
        if case.get('deriv') is not None:
            d = case['deriv']
            top = C('FLogic' if d[0] == 'le' else 'FArith', d_coq(d))
            parts.append(coq(C('chk_deriv', top, tl, bool(case['in_class']))))
        return '(' + ' && '.join(parts) + ')'

    def show_model(self, case, out):
        toks = self._tokens(case)
        if toks is None: return []
        return ['parse_res %s' % coq([tok_coq(t) for t in toks])]

    # ---------------------------------------------------------------- oracle
    def oracle(self, case, out):
        if not case.get('oracle'):
            return None
        if '__exception__' in out:
            return 'harness failure: %s' % out.get('msg')
        s = case['s']
        if out.get('fe_error'):
            return None       # not accepted by the Fortran frontend: outside the quantifier
        if out.get('error'):
            return 'parse_expr(%r) raises %s but the Fortran frontend parses the same text' % (s, out['error'])
        envs = case.get('envs') or make_envs(case.get('vseed', 0))
        seen_defined = False
        for q, (lv, fv) in enumerate(zip(out.get('lv', []), out.get('fv', []))):
            if fv is not None: seen_defined = True
            if lv != fv:
                e = {k: jval(v) for k, v in envs[q].items() if not k.startswith('@') and re.search(r'(?<![a-z0-9_%%])%s(?![a-z0-9_])' % re.escape(k), s.lower())}
                return 'parse_expr(%r) evaluates to %s but the frontend tree of the same text to %s under %s [parse_expr tree %s]' % (
                    s, lv, fv, e, out['tree'])
        return None

    def nontrivial_key(self, case, out):
        s = re.sub(r'\s+', '', case['s'].lower())
        nops = len(re.findall(r'\*\*|[-+*/<>]|==|/=|\.[a-z]+\.|%', s))
        if nops < 2: return None
        return case['ty'] + ':' + s

    def search(self, rng, bad_cases):
        for c in bad_cases:
            for q in range(3):
                d = {k: v for k, v in c.items() if not k.startswith('_')}
                d['oracle'] = True
                d['vseed'] = rng.randint(0, 10 ** 6)
                yield d

PROP = C07
