"""C02 — read-write of generated Fortran is a fixpoint (text) and the re-read IR is structurally identical.

Streams:
  minif   generated programs (generator of C01): src -> FP -> fgen = text1 -> FP -> fgen = text2.
          tie: the model of the frontend's expression reader (M_C02.parse_fe) on the tokens of every printed expression slot == the
          tree the real frontend built; the model's prediction of "text fixpoint" / "IR identical" (statement level by C01's reader,
          expression level by parse_fe) == what is observed; oracle: text2 == text1 and dump(ir2) == dump(ir1).
  expr    single assignments with generated / edge expressions (tie as above on one slot).
  file    every Fortran file of the repository that the FP frontend accepts: text2 == text1, dump(ir2) == dump(ir1).
  rich    the template programs of C01.
"""
import os, re, json, random, glob
from ..framework import Property
from ..coqlit import coq, C, Nat, Some, Raw
from .. import bridge_expr as BE
from . import c01 as C1
from .c06 import tokenise_f, tok_coq

REPO = os.environ.get('LOKI_VERIF_REPO', '/repo')
MAX_FILE_BYTES = 200000

# =====================================================================================================
# structural dump of Loki IR (everything but `source` objects and object identities)
def _is_expr(o):
    import pymbolic.primitives as pmbl
    return isinstance(o, pmbl.Expression)

def type_dump(t):
    if t is None: return None
    out = {}
    for k, v in sorted(t.__dict__.items()):
        if k in ('source',) or v is None: continue
        if k == 'dtype':
            out[k] = type(v).__name__ + ':' + str(getattr(v, 'name', v))
        elif k == 'shape':
            out[k] = ir_dump(v)
        else:
            out[k] = ir_dump(v)
    return out

def ir_dump(o, with_types=False):
    from loki import ir, Subroutine, Module, Sourcefile
    from loki.expression import symbols as sym
    from loki.types import SymbolAttributes, DataType
    import pymbolic.primitives as pmbl
    if o is None or isinstance(o, (bool, int, float)): return o
    if isinstance(o, str): return o
    if isinstance(o, (tuple, list)): return [ir_dump(x, with_types) for x in o]
    if isinstance(o, dict): return {str(k): ir_dump(v, with_types) for k, v in o.items()}
    if isinstance(o, Sourcefile): return ['Sourcefile', ir_dump(o.ir)]
    if isinstance(o, (Subroutine, Module)):
        d = {'name': o.name, 'docstring': ir_dump(getattr(o, 'docstring', None)), 'spec': ir_dump(o.spec), 'contains': ir_dump(o.contains)}
        if isinstance(o, Subroutine):
            d.update(args=[str(a).lower() for a in o.argnames], body=ir_dump(o.body), prefix=ir_dump(o.prefix), bind=ir_dump(o.bind),
                     is_function=bool(o.is_function), result_name=getattr(o, 'result_name', None))
        else:
            d.update(default_access_spec=o.default_access_spec, public=ir_dump(o.public_access_spec), private=ir_dump(o.private_access_spec))
        return [type(o).__name__, d]
    if isinstance(o, ir.Node):
        d = {}
        for f in o.__dataclass_fields__:
            if f in ('source',) or f.startswith('_'): continue
            if f in ('parent', 'symbol_attrs', 'rescope_symbols'): continue
            v = getattr(o, f)
            if isinstance(o, (ir.VariableDeclaration, ir.ProcedureDeclaration)) and f == 'symbols':
                d[f] = [[ir_dump(s), type_dump(s.type)] for s in v]
            elif isinstance(o, ir.TypeDef) and f == 'body':
                d[f] = ir_dump(v)
            else:
                d[f] = ir_dump(v)
        return [type(o).__name__, d]
    if isinstance(o, (sym.TypedSymbol, sym.DeferredTypeSymbol, sym.ProcedureSymbol, sym.MetaSymbol)) or hasattr(o, 'basename') and hasattr(o, 'parent'):
        out = ['sym', type(o).__name__, str(o.basename).lower() if hasattr(o, 'basename') else str(o.name).lower()]
        if getattr(o, 'dimensions', None): out.append(['dims', ir_dump(o.dimensions)])
        if getattr(o, 'parent', None) is not None: out.append(['parent', ir_dump(o.parent)])
        return out
    if isinstance(o, sym.InlineCall):
        return ['InlineCall', ir_dump(o.function), ir_dump(o.parameters), ir_dump(tuple(o.kw_parameters.items()) if isinstance(o.kw_parameters, dict) else o.kw_parameters)]
    if isinstance(o, pmbl.Expression):
        try:
            args = o.__getinitargs__()
        except Exception:
            args = (str(o),)
        return [type(o).__name__] + [ir_dump(a) for a in args]
    if isinstance(o, SymbolAttributes): return type_dump(o)
    if isinstance(o, DataType): return type(o).__name__ + ':' + str(getattr(o, 'name', o))
    return [type(o).__name__, str(o)]

def first_diff(a, b, path=''):
    """a short description of the first structural difference of two dumps"""
    if type(a) != type(b): return '%s: %s vs %s' % (path, _short(a), _short(b))
    if isinstance(a, list):
        for i, (x, y) in enumerate(zip(a, b)):
            d = first_diff(x, y, '%s[%d]' % (path, i))
            if d: return d
        if len(a) != len(b): return '%s: %d vs %d items (%s)' % (path, len(a), len(b), _short(a[len(b):] if len(a) > len(b) else b[len(a):]))
        return None
    if isinstance(a, dict):
        for k in sorted(set(a) | set(b)):
            if k not in a or k not in b: return '%s.%s: only on one side (%s)' % (path, k, _short(a.get(k, b.get(k))))
            d = first_diff(a[k], b[k], '%s.%s' % (path, k))
            if d: return d
        return None
    return None if a == b else '%s: %s vs %s' % (path, _short(a), _short(b))

def _short(x):
    s = json.dumps(x, default=str)
    return s if len(s) <= 160 else s[:160] + '...'

def _node_path(dump, path):
    return path

def text_diff(t1, t2):
    l1, l2 = t1.split('\n'), t2.split('\n')
    for i in range(max(len(l1), len(l2))):
        x, y = (l1[i] if i < len(l1) else '<eof>'), (l2[i] if i < len(l2) else '<eof>')
        if x != y: return 'line %d: first text %r, second text %r' % (i + 1, x[:120], y[:120])
    return None

# =====================================================================================================
def repo_files():
    """every Fortran file shipped with the repository (tests' sources, examples), enumerated at run time"""
    roots = [os.path.join(REPO, 'loki'), os.path.join(REPO, 'example'), os.path.join(REPO, 'lint_rules'), os.path.join(REPO, 'scripts')]
    out = []
    for root in roots:
        for dp, dn, fn in os.walk(root):
            dn[:] = [d for d in dn if d not in ('.git', 'build', '__pycache__')]
            for f in fn:
                if f.lower().endswith(('.f90', '.f', '.f03', '.f08', '.f95')):
                    out.append(os.path.relpath(os.path.join(dp, f), REPO))
    return sorted(out)

def roundtrip_text(src):
    from loki import Sourcefile
    from loki.frontend import FP
    sf1 = Sourcefile.from_source(src, frontend=FP)
    t1 = sf1.to_fortran()
    sf2 = Sourcefile.from_source(t1, frontend=FP)
    t2 = sf2.to_fortran()
    return sf1, t1, sf2, t2

def needs_cpp(src):
    return bool(re.search(r'^\s*#\s*(include|if|ifdef|ifndef|define|else|endif)', src, re.M))

# =====================================================================================================
def slot_texts_and_trees(ir1, ir2):
    """pairs (slot of the first IR, slot of the re-read IR) in textual order; None if the shapes differ"""
    a, b = list(C1.slots_of(ir1)), list(C1.slots_of(ir2))
    if len(a) != len(b): return None
    return list(zip(a, b))

# hand-picked expressions; the ones in EDGE_OUT are outside the class (correspondence only), all others carry the oracle
EDGE_EXPRS = [
    'a - (+2)', '(+b) * c', '+a', '+a + b',
    'a + (b + c)', '(a + b) + c', 'a * (b * c)', 'a - (b - c)', 'a / (b / c)', '(a ** b) ** 2', 'a ** (b ** 2)', '-(-a)', '-(a)', '(a)', '((a + b))',
    '(-a) ** 2', '-a ** 2', 'a * (-b)', 'a - (-b)', '2 * (+3)', '(a) + (b)', 'a + (-1)', 'mod((a), (b + 1))', 'x((k))', 'min(a, (b), +c)', '(1)', '-(1)', '- 1 + a',
    'a * (b / c)', '(a * b) / c', 'a / (b * c)', 'a - (b + c) * 2', '(a - b) * (a + b)', '2 ** (3 ** 2)', 'a * b * c / 2 / 3', 'a / 2 * b',
]
EDGE_LOGIC = [
    '.not. (.not. a < b)', '(a < b)', '.not. (a < b)', '(a < b) .or. (b < c) .and. (c < a)', '((a < b) .or. (b < c)) .and. (c < a)', 'a < b .or. (b < c .or. c < a)',
    'a < b .and. (b < c .and. c < a)', '.not. (a < b .and. b < c)', '(.not. a < b) .and. b < c', 'a < b .eqv. b < c', 'a < b .neqv. (b < c .eqv. c < a)', '(a) < (b + 1)', '(.true.)',
    'a < b .and. (b < c .or. c < a)', '.not. a < b .and. .not. (b < c .or. c < a)',
]
EDGE_OUT = {'a - (+2)', '(+b) * c', '+a', '+a + b', '2 * (+3)', 'min(a, (b), +c)', '.not. (.not. a < b)', 'a < b .or. (b < c .or. c < a)',
            'a < b .and. (b < c .and. c < a)', 'a < b .neqv. (b < c .eqv. c < a)'}

class C02(Property):
    id = 'C02'
    imports = ['Base.Expr', 'Base.MiniF', 'models.M_C06', 'models.M_C01', 'models.M_C02']
    theorem_file = 'theories/props/T_C02.v'
    parallel = True
    shard = 40
    prelude = 'Open Scope string_scope.\n'
    rule = ('minif stream: the generated programs of C01 (assignments, stores, DO/DO WHILE/IF/ELSE IF/inline IF/CALL/comments, grammar-driven expression text with '
            'surface variation, incl. explicit unit steps, unary plus, redundant parentheses): text1 = fgen(parse(src)), text2 = fgen(parse(text1)); expr stream: single '
            'assignments / conditions with generated and edge expressions. Tie (Coq): the model of the frontend expression reader parse_fe applied to the tokens of every '
            'printed slot = the tree the real frontend built from text1; the model\'s verdicts "text is a fixpoint" / "re-read IR identical" (statement level: C01 reader + '
            'norm, expression level: parse_fe) = the observed verdicts. Oracle: text2 == text1 (string equality) and structural dump of the second IR == dump of the first '
            '(all node fields except source objects; declared types included). file stream: every Fortran file under <repo>/loki, <repo>/example, <repo>/lint_rules, '
            '<repo>/scripts (enumerated at run time, files that the frontend rejects, that need cpp/includes or exceed 200 kB are skipped and counted) with the same oracle; '
            'rich stream: the template programs of C01. A case is non-trivial when the frontend accepted it and the text has >= 5 lines; distinct = distinct texts.')
    modelled_not_verified = [
        'parse_fe (the model of FParser2IR\'s expression construction on fgen text) is executable and tied on every slot, not proved equivalent to fparser; its inverse relation to print_f is evaluated per case (fe_fix / fe_id), the Coq theorems lift these per-slot facts to statements',
        'tokenisation, line cutting and continuation joining are done by the harness (C04 proves content preservation of the wrapping)',
        'declarations, derived types, SELECT CASE, WHERE, interfaces, I/O ... : no model; covered by the differential oracle on the repository sources and the template programs',
        'the structural dump ignores source objects (line numbers, original strings) and object identities (scopes)',
    ]

    # ---------------------------------------------------------------------------------------------
    def generate(self, rng, tier):
        files = repo_files()
        for f in files:
            # files that need the C preprocessor / includes or are too large are counted separately (kind file-skipped)
            path = os.path.join(REPO, f)
            try:
                skip = os.path.getsize(path) > MAX_FILE_BYTES or needs_cpp(open(path, errors='replace').read())
            except OSError:
                skip = True
            yield {'kind': 'file-skipped' if skip else 'file', 'path': f}
        names = sorted(C1.RICH)
        for i in range(len(names) if tier == 'quick' else 4 * len(names)):
            mod, main = C1.RICH[names[i % len(names)]](rng)
            # two constructs of C01's templates are outside C02's class (findings G1, G9): access statements, apostrophes in "..." literals
            mod = mod.replace("  private\n  public :: work\n", "").replace("    print *, \"double-quoted with 'single' inside\"\n", "")
            yield {'kind': 'rich', 'template': names[i % len(names)], 'src': mod}
        c1 = C1.PROP()
        n = int(os.environ.get('LOKI_VERIF_C02_N', '0')) or (150 if tier == 'quick' else 600)
        for _ in range(n):
            if rng.random() < 0.8:
                c = c1._minif_case(rng, 'quick', canon=True)
                yield {'kind': 'minif', 'src': c['src']}
            else:
                # programs outside the class (unit steps, unary plus, redundant parentheses ...): correspondence only
                c = c1._minif_case(rng, 'quick')
                yield {'kind': 'minif-any', 'src': c['src'], 'tie_only': True}
        # programs with SELECT CASE (default block at any position, ranges, value lists, names): oracle only
        ns = int(os.environ.get('LOKI_VERIF_C02_NS', '0')) or (30 if tier == 'quick' else 150)
        for _ in range(ns):
            c = c1._minif_case(rng, 'quick', canon=True, select=True)
            yield {'kind': 'select-prog', 'src': c['src']}
        ne = int(os.environ.get('LOKI_VERIF_C02_NE', '0')) or (120 if tier == 'quick' else 600)
        for i in range(ne):
            yield self._expr_case(rng, i)

    def _expr_case(self, rng, i):
        tie_only = False
        st = C1.Style(random.Random(rng.random()), plain=rng.random() < 0.5)
        if i < len(EDGE_EXPRS): kind, text = 'a', EDGE_EXPRS[i]; tie_only = text in EDGE_OUT
        elif i < len(EDGE_EXPRS) + len(EDGE_LOGIC): kind, text = 'l', EDGE_LOGIC[i - len(EDGE_EXPRS)]; tie_only = text in EDGE_OUT
        else:
            tie_only = rng.random() < 0.25
            g = C1.SrcGen(rng, C1.SCALARS, {'x': [[1, 4]]}, {'pos': 0.08, 'eqv': 0.1} if tie_only else {'canon': True})
            if rng.random() < 0.7: kind, text = 'a', C1.stext(g.expr(rng.choice([1, 2, 2, 3])), st)
            else: kind, text = 'l', C1.stext(g.logic(rng.choice([1, 2])), st)
        body = '  a = %s\n' % text if kind == 'a' else '  if (%s) a = 1\n' % text
        src = ('subroutine c01_main(a, b, c, n, k, x)\n  implicit none\n  integer, intent(inout) :: a, b, c, n, k, x(1:4)\n' + body + 'end subroutine c01_main\n')
        case = {'kind': 'expr-any' if tie_only else 'expr', 'src': src}
        if tie_only: case['tie_only'] = True
        return case

    # ---------------------------------------------------------------------------------------------
    def run_impl(self, case):
        from loki.backend.fgen import fgen
        if case['kind'] in ('file', 'file-skipped'):
            path = os.path.join(REPO, case['path'])
            if os.path.getsize(path) > MAX_FILE_BYTES: return {'skipped': 'too large'}
            src = open(path, errors='replace').read()
            if needs_cpp(src): return {'skipped': 'needs cpp / include'}
        else:
            src = case['src']
        try:
            from loki import Sourcefile
            from loki.frontend import FP
            sf1 = Sourcefile.from_source(src, frontend=FP)
        except Exception as e:   # pylint: disable=broad-except
            if case['kind'] in ('file', 'file-skipped'): return {'skipped': 'frontend rejects the file: %s' % type(e).__name__}
            raise
        t1 = sf1.to_fortran()
        out = {'text1': t1}
        modelled = case['kind'] in ('minif', 'expr', 'minif-any', 'expr-any')
        if modelled:
            try:
                out['ir1'] = C1.from_loki2(sf1['c01_main'].body.body)
            except C1.Unsupported as e:
                out['unsupported'] = str(e); modelled = False
        try:
            sf2 = Sourcefile.from_source(t1, frontend=FP)
            t2 = sf2.to_fortran()
        except Exception as e:   # pylint: disable=broad-except
            out['reparse_error'] = '%s: %s' % (type(e).__name__, str(e)[:200])
            return out
        out['text_same'] = (t1 == t2)
        if t1 != t2: out['text_diff'] = text_diff(t1, t2)
        d1, d2 = ir_dump(sf1), ir_dump(sf2)
        out['ir_same'] = (d1 == d2)
        if d1 != d2: out['ir_diff'] = first_diff(d1, d2)
        if modelled:
            try:
                ir1 = out['ir1']; ir2 = C1.from_loki2(sf2['c01_main'].body.body)
                out['ir2'] = ir2
                out['body_text_same'] = (fgen(sf1['c01_main'].body) == fgen(sf2['c01_main'].body))
                pairs = slot_texts_and_trees(ir1, ir2)
                out['slots'] = None if pairs is None else [[fgen(BE.build(a)), b] for a, b in pairs]
            except C1.Unsupported as e:
                out['unsupported'] = str(e)
        return out

    # ---------------------------------------------------------------------------------------------
    def model_term(self, case, out):
        if case['kind'] not in ('minif', 'expr', 'minif-any', 'expr-any') or 'ir1' not in out or 'unsupported' in out: return None
        if 'reparse_error' in out:
            # the real frontend rejects the generated text: so does the model
            return ('chk_reparse_fails %s' % coq(C1.fstmts_model(out['ir1']))).replace('%string', '')
        if out.get('slots') is None: return None
        p1, p2 = out['ir1'], out['ir2']
        parts = []
        # the model reader of expressions on the real text of every slot = the real re-read tree
        seen = set()
        for text, tree in out['slots']:
            key = text + json.dumps(tree)
            if key in seen: continue
            seen.add(key)
            toks = tokenise_f(text)
            if toks is None: raise ValueError('untokenisable slot text %r' % text)
            parts.append('chk_fe %s %s' % (coq([tok_coq(t) for t in toks]), coq(BE.model_of_structure(tree))))
        # predicted verdicts = observed verdicts
        parts.append('chk_verdict p1 %s %s' % (coq(bool(out['body_text_same'])), coq(p1 == p2)))
        # the model's re-read program is the real one
        parts.append('chk_reparse_fe p1 %s' % ('p1' if p1 == p2 else coq(C1.fstmts_model(p2))))
        return ('(let p1 := %s in %s)' % (coq(C1.fstmts_model(p1)), ' && '.join(parts))).replace('%string', '')

    def show_model(self, case, out):
        if 'ir1' not in out: return []
        p1 = coq(C1.fstmts_model(out['ir1'])).replace('%string', '')
        return ['reparse_fe %s' % p1, '(text_fix_pred %s, ir_same_pred %s)' % (p1, p1), 'map render (print_stmts %s)' % p1]

    # ---------------------------------------------------------------------------------------------
    def oracle(self, case, out):
        if '__exception__' in out:
            return 'frontend/backend raised %s: %s' % (out['__exception__'], out.get('msg'))
        if 'skipped' in out or case.get('tie_only'): return None
        if 'reparse_error' in out:
            return 'the generated text is rejected when read back (%s)' % out['reparse_error']
        if not out['text_same']:
            return 'fgen(parse(fgen(parse(src)))) differs from fgen(parse(src)): %s' % out.get('text_diff')
        if not out['ir_same']:
            return 're-read IR differs structurally from the IR the text was written from: %s' % out.get('ir_diff')
        return None

    def nontrivial_key(self, case, out):
        if not isinstance(out, dict) or 'text1' not in out: return None
        if out['text1'].count('\n') < 4: return None
        return out['text1']

    def search(self, rng, bad_cases):
        c1 = C1.PROP()
        for _ in range(300):
            c = c1._minif_case(rng, 'quick', depth=rng.choice([1, 2]), n=rng.randint(1, 3))
            yield {'kind': 'minif', 'src': c['src']}
        for i in range(300):
            yield self._expr_case(rng, 1000 + i)

PROP = C02
