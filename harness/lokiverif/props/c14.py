"""C14 — the IR tree transformers apply exactly the requested node mapping.

Cases are abstract descriptions (JSON) of an IR tree, a mapper and the transformer flags.  ``run_impl`` builds
the real Loki objects from the description, exports them (object identities, equality classes of the
non-traversable fields, ``Node.children``) for the Coq model, runs the real transformer and exports the result,
the difference of the heap of the ORIGINAL objects and ``Transformer.rebuilt``.  The oracle is an independent
substitution over the abstract description.
"""
import sys
from ..framework import Property

KINDS = ['Section', 'Associate', 'Loop', 'WhileLoop', 'Conditional', 'PragmaRegion', 'Interface', 'Assignment',
         'CallStatement', 'Comment', 'Pragma', 'MultiConditional', 'TypeDef', 'Forall', 'MaskedStatement',
         'Allocation', 'RawSource']
KIDX = {n: i for i, n in enumerate(KINDS)}
SCOPED = {'Associate', 'TypeDef'}
LEAVES = ['Assignment', 'CallStatement', 'Comment', 'Pragma', 'Allocation', 'RawSource']
ONEBODY = ['Section', 'Associate', 'Loop', 'WhileLoop', 'PragmaRegion', 'Interface', 'TypeDef', 'Forall']
MULTI = ['MultiConditional', 'MaskedStatement']
CLS = {'plain': 'TPlain', 'nested': 'TNested', 'masked': 'TMasked', 'nestedmasked': 'TNestedMasked'}
ERR = {'RecursionError': 5, 'AttributeError': 2, 'ValueError': 3, 'ValidationError': 4, 'AssertionError': 4,
       'KeyError': 6, 'TypeError': 7}

# --------------------------------------------------------------------------------------------------------
# abstract descriptions:  node = [kind, oid, label, src, slots, extra]   |   ['ref', oid]
#   slots: list of bodies (each a list of node descriptions); Conditional: [body, else_body];
#   MultiConditional / MaskedStatement: [body_1, ..., body_n, else/default]
# --------------------------------------------------------------------------------------------------------

def is_ref(d):
    return d[0] == 'ref'

def resolve(d, table):
    return table[d[1]] if is_ref(d) else d

def index_descs(d, table):
    """oid -> description for every node description below d"""
    if d is None or is_ref(d):
        return
    if d[0] in ('tuple', 'list', 'win'):
        for x in d[1]:
            index_descs(x, table)
        return
    table[d[1]] = d
    for s in d[4]:
        for x in s:
            index_descs(x, table)

def same(a, b, table):
    """structural equality of two node descriptions (what Python's == on the built nodes gives)"""
    a, b = resolve(a, table), resolve(b, table)
    if a is b:
        return True
    if a[0] != b[0] or a[2] != b[2] or a[3] != b[3] or a[5] != b[5] or len(a[4]) != len(b[4]):
        return False
    for s, t in zip(a[4], b[4]):
        if len(s) != len(t) or not all(same(x, y, table) for x, y in zip(s, t)):
            return False
    return True

def walk(d, table, fn):
    """pre-order over node descriptions, references followed"""
    d = resolve(d, table)
    fn(d)
    for s in d[4]:
        for x in s:
            walk(x, table, fn)

# ---- independent reference of the substitution semantics (the oracle) ------------------------------------
def ref_subst(root, mapper, table):
    """expected content [kind, label, [bodies]] of Transformer(mapper).visit(root); None = removed"""
    def find(n):
        for k, h in mapper:
            if k[0] != 'win' and same(k, n, table):
                return (k, h)
        return None
    def content(n):
        n = resolve(n, table)
        return [n[0], n[2], [[content(x) for x in s] for s in n[4]]]
    def through(n):
        n = resolve(n, table)
        return [n[0], n[2], [[y for x in s for y in elem(x)] for s in n[4]]]
    def elem(n):
        e = find(n)
        if e is None:
            return [through(n)]
        h = e[1]
        if h is None:
            return []
        if h[0] in ('tuple', 'list'):
            return [y for x in h[1] for y in ([through(x)] if same(x, n, table) else elem(x))]
        return [content(h)]
    if root[0] == 'tuple':
        return ['tuple', [y for x in root[1] for y in elem(x)]]
    r = elem(root)
    return r[0] if r else None

def ref_masked(root, table, start, stop, active, all_start, greedy, nested):
    """expected pre-order label sequence of (Nested)MaskedTransformer without mapper"""
    st = {'active': active, 'start': list(start)}
    def inset(n, s):
        return any(same(x, n, table) for x in s)
    def pre(n):
        if st['start'] is None:
            pass
        if all_start:
            if inset(n, st['start']):
                st['start'] = [x for x in st['start'] if not same(x, n, table)]
                st['active'] = st['active'] or not st['start']
            else:
                st['active'] = st['active'] and not inset(n, stop)
        else:
            st['active'] = (st['active'] and not inset(n, stop)) or inset(n, st['start'])
        if greedy and inset(n, stop):
            st['start'] = []
            st['active'] = False
    def visit(n):
        n = resolve(n, table)
        pre(n)
        act = st['active']
        subs = [[y for x in s for y in visit(x)] for s in n[4]]
        flat = [y for s in subs for y in s]
        if not nested:
            return ([n[2]] + flat) if act else flat
        if n[0] in LEAVES:
            return [n[2]] if act else []
        if n[0] == 'Conditional':
            return ([n[2]] + flat) if subs[0] else subs[1]
        if n[0] in MULTI:
            return ([n[2]] + flat) if any(subs[:-1]) else subs[-1]
        return ([n[2]] + flat) if subs[0] else []
    if root[0] == 'tuple':
        return [y for x in root[1] for y in visit(x)]
    return visit(root)

def content_preorder(c):
    if c is None:
        return []
    if c and c[0] == 'tuple':
        return [y for x in c[1] for y in content_preorder(x)]
    if isinstance(c, list) and len(c) == 3 and isinstance(c[0], str):
        return [c[1]] + [y for s in c[2] for x in s for y in content_preorder(x)]
    return [y for x in c for y in content_preorder(x)]     # nested tuple of contents

# ---- generator ------------------------------------------------------------------------------------------
class Gen:
    def __init__(self, rng, kinds=None, srcs=False, maxdepth=4, budget=26):
        self.rng, self.oid, self.label = rng, 0, 0
        self.kinds = kinds or (ONEBODY + ['Conditional'] * 2 + MULTI)
        self.srcs, self.maxdepth, self.budget = srcs, maxdepth, budget
        self.nodes = []

    def fresh(self, kind, slots, extra=None, label=None):
        self.oid += 1
        if label is None:
            self.label += 1
            label = self.label
        src = self.rng.choice([0, 1, 1, 2]) if self.srcs else 0
        d = [kind, self.oid, label, src, slots, extra or {}]
        self.nodes.append(d)
        return d

    def leaf(self):
        return self.fresh(self.rng.choice(LEAVES + ['Comment', 'Assignment']), [])

    def body(self, depth, minlen=0):
        n = self.rng.choice([0, 1, 1, 2, 2, 3, 4]) if depth < self.maxdepth else self.rng.choice([0, 1, 2])
        n = max(n, minlen)
        return [self.node(depth) for _ in range(n)]

    def node(self, depth):
        r = self.rng
        self.budget -= 1
        if depth >= self.maxdepth or self.budget <= 0 or r.random() < 0.45:
            return self.leaf()
        k = r.choice(self.kinds)
        if k == 'Conditional':
            els = self.body(depth + 1) if r.random() < 0.6 else []
            return self.fresh(k, [self.body(depth + 1, 1), els])
        if k in MULTI:
            nb = r.choice([1, 2, 2, 3])
            return self.fresh(k, [self.body(depth + 1, 1) for _ in range(nb)] + [self.body(depth + 1) if r.random() < 0.5 else []])
        return self.fresh(k, [self.body(depth + 1)])

    def copy(self, d, table):
        """a distinct object with equal content"""
        d = resolve(d, table)
        self.oid += 1
        c = [d[0], self.oid, d[2], d[3], [[self.copy(x, table) for x in s] for s in d[4]], dict(d[5])]
        return c

def tree_nodes(root, table):
    out = []
    if root[0] == 'tuple':
        for x in root[1]:
            walk(x, table, out.append)
    else:
        walk(root, table, out.append)
    return out

def has_kind(nodes, kinds):
    return any(n[0] in kinds for n in nodes)

def subtree_oids(d, table):
    out = []
    walk(d, table, lambda n: out.append(n[1]))
    return out

def gen_plain(rng, tier, flavour):
    """Transformer with a random mapper; flavour: 'class' (inside the class of the theorems) or 'edge'"""
    g = Gen(rng, srcs=rng.random() < 0.3, maxdepth=rng.choice([2, 3, 4, 5]), budget=rng.choice([8, 16, 26]))
    kinds = list(ONEBODY) + ['Conditional', 'Conditional']
    if flavour == 'edge' or rng.random() < 0.35:
        kinds += MULTI
    g.kinds = kinds
    if rng.random() < 0.25:
        root = ['tuple', g.body(0, 1)]
    else:
        root = g.fresh(rng.choice(['Section', 'Section', 'Loop', 'Associate', 'Conditional']), [g.body(0, 1)])
        if root[0] == 'Conditional':
            root[4].append(g.body(1))
    table = {}
    index_descs(root, table)
    nodes = tree_nodes(root, table)
    inplace = rng.random() < 0.3
    scoped_tree = has_kind(nodes, SCOPED)
    rebuild_scopes = rng.random() < 0.5
    invsrc = rng.random() < 0.8
    # a node object twice in the tree (only where no in-place update can touch it)
    alias_ok = (not inplace) and (rebuild_scopes or not scoped_tree)
    if alias_ok and rng.random() < 0.2 and len(nodes) > 2:
        host = rng.choice([n for n in nodes if n[4]] or [nodes[0]])
        dup = rng.choice(nodes)
        if host[4] and host[1] not in subtree_oids(dup, table) and host[0] not in MULTI:
            host[4][0].insert(rng.randint(0, len(host[4][0])), ['ref', dup[1]])
            if rng.random() < 0.3:
                host[4][0].append(g.copy(dup, table))
            table = {}
            index_descs(root, table)
            nodes = tree_nodes(root, table)
    mapper = []
    cand = [n for n in nodes if n is not root]
    rng.shuffle(cand)
    nkeys = rng.choice([0, 1, 1, 2, 2, 3, 4]) if cand else 0
    used = set()
    for kd in cand[:nkeys]:
        if kd[1] in used:
            continue
        used.add(kd[1])
        key = ['ref', kd[1]]
        if rng.random() < 0.15:
            key = g.copy(kd, table)                 # an equal but distinct object as key
        def newnode(depth=0):
            if rng.random() < 0.6 or depth > 1:
                return g.leaf()
            k = rng.choice(['Section', 'Loop', 'Associate', 'Conditional'])
            b = [newnode(depth + 1) for _ in range(rng.choice([0, 1, 2]))]
            if k == 'Conditional':
                return g.fresh(k, [b or [g.leaf()], []])
            return g.fresh(k, [b])
        t = rng.random()
        if t < 0.2:
            h = None
        elif t < 0.4:
            h = newnode()
        elif t < 0.47:
            h = ['ref', kd[1]]                        # a node mapped to itself
        elif t < 0.62:
            h = [rng.choice(['tuple', 'list']), [newnode() for _ in range(rng.choice([0, 1, 2, 3]))]]
        elif t < 0.9:
            items = [newnode() for _ in range(rng.choice([0, 1, 2]))]
            pos = rng.randint(0, len(items))
            items.insert(pos, ['ref', kd[1]])          # the replacement contains the key
            if alias_ok and rng.random() < 0.15:
                items.append(['ref', kd[1]])
            h = [rng.choice(['tuple', 'tuple', 'list']), items]
        else:
            if alias_ok and len(nodes) > 1:
                other = rng.choice(nodes)
                h = ['ref', other[1]] if other is not root else newnode()
            else:
                h = newnode()
        mapper.append([key, h])
        # mapped children of mapped parents
        if kd[4] and rng.random() < 0.5:
            inner = [x for s in kd[4] for x in s if not is_ref(x)]
            if inner:
                c = rng.choice(inner)
                if c[1] not in used:
                    used.add(c[1])
                    mapper.append([['ref', c[1]], rng.choice([None, g.leaf(), ['tuple', [g.leaf(), ['ref', c[1]]]]])])
    if flavour == 'edge':
        t = rng.random()
        sibs = [s for n in nodes for s in n[4] if len(s) >= 2 and n[0] not in MULTI]
        if root[0] == 'tuple' and len(root[1]) >= 2:
            sibs.append(root[1])
        if t < 0.45 and sibs:
            s = rng.choice(sibs)
            i = rng.randint(0, len(s) - 2)
            w = rng.choice([1, 2, 2, 3])
            win = [['ref', resolve(x, table)[1]] for x in s[i:i + w]]
            h = rng.choice([None, g.leaf(), ['tuple', [g.leaf(), g.leaf()]], ['tuple', []]])
            mapper.insert(rng.randint(0, len(mapper)), [['win', win], h])
        elif t < 0.65 and mapper:
            # chained one-to-many replacements (order dependent)
            k0 = mapper[0][0]
            other = g.leaf()
            mapper[0][1] = ['tuple', [other]]
            e = [['ref', other[1]], ['tuple', [g.leaf(), g.leaf()]]]
            if rng.random() < 0.5:
                mapper.append(e)
            else:
                mapper.insert(0, e)
        elif t < 0.8 and root[0] != 'tuple':
            mapper.append([['ref', root[1]], rng.choice([['tuple', [g.leaf()]], None, g.leaf(), ['tuple', [['ref', root[1]], g.leaf()]]])])
        elif t < 0.9 and cand:
            kd = rng.choice(cand)
            mapper.append([['ref', kd[1]], ['tuple', [None, g.leaf(), ['tuple', [g.leaf()]], ['tuple', []]]]])
        else:
            # conditional chain with has_elseif
            inner = g.fresh('Conditional', [[g.leaf()], [g.leaf()] if rng.random() < 0.5 else []])
            outer = g.fresh('Conditional', [[g.leaf()], [inner]], {'elseif': True})
            root = g.fresh('Section', [[g.leaf(), outer, g.leaf()]])
            mapper = [[['ref', inner[1]], rng.choice([None, g.leaf(), g.fresh('Conditional', [[g.leaf()], []]), ['tuple', [['ref', inner[1]], g.leaf()]]])]]
    case = {'kind': 'plain-' + flavour, 'cls': 'plain', 'root': root, 'mapper': mapper, 'inplace': inplace,
            'rebuild_scopes': rebuild_scopes, 'invsrc': invsrc}
    return case

def gen_masked(rng, tier, nested, flavour):
    kinds = ['Section', 'Loop', 'WhileLoop', 'PragmaRegion', 'Forall', 'Conditional', 'Conditional']
    if not nested or flavour == 'edge':
        kinds += ['Associate', 'TypeDef']
    if flavour == 'edge':
        kinds += MULTI
    elif nested and rng.random() < 0.4:
        kinds += ['MultiConditional']
    g = Gen(rng, kinds=kinds, srcs=rng.random() < 0.2, maxdepth=rng.choice([2, 3, 4]), budget=rng.choice([10, 18, 26]))
    if rng.random() < 0.2:
        root = ['tuple', g.body(0, 1)]
    else:
        root = g.fresh('Section', [g.body(0, 2)])
    table = {}
    index_descs(root, table)
    nodes = tree_nodes(root, table)
    pick = lambda: ['ref', rng.choice(nodes)[1]]
    start = [pick() for _ in range(rng.choice([0, 1, 1, 1, 2, 3]))]
    stop = [pick() for _ in range(rng.choice([0, 1, 1, 2]))]
    if rng.random() < 0.1 and start:
        start.append(g.copy(resolve(start[0], table), table))
    mapper = []
    if flavour == 'edge' and rng.random() < 0.7:
        for kd in rng.sample(nodes, min(len(nodes), rng.choice([1, 2]))):
            if kd is root:
                continue
            mapper.append([['ref', kd[1]], rng.choice([None, g.leaf(), ['tuple', [g.leaf(), ['ref', kd[1]]]], ['tuple', [g.leaf()]]])])
    case = {'kind': ('nestedmasked-' if nested else 'masked-') + flavour, 'cls': 'nestedmasked' if nested else 'masked',
            'root': root, 'mapper': mapper, 'inplace': flavour == 'edge' and rng.random() < 0.2,
            'rebuild_scopes': None if rng.random() < 0.7 else rng.random() < 0.5, 'invsrc': rng.random() < 0.8,
            'start': start, 'stop': stop, 'active': rng.random() < 0.3,
            'all_start': rng.random() < 0.25, 'greedy': rng.random() < 0.25}
    return case

def gen_nested(rng, tier, flavour):
    g = Gen(rng, kinds=ONEBODY + ['Conditional'], srcs=rng.random() < 0.2, maxdepth=rng.choice([2, 3, 4]), budget=rng.choice([8, 16, 22]))
    root = g.fresh('Section', [g.body(0, 1)]) if rng.random() < 0.8 else ['tuple', g.body(0, 1)]
    table = {}
    index_descs(root, table)
    nodes = tree_nodes(root, table)
    cand = [n for n in nodes if n is not root]
    rng.shuffle(cand)
    mapper = []
    for kd in cand[:rng.choice([0, 1, 2, 3])]:
        t = rng.random()
        if t < 0.3:
            h = None
        elif t < 0.8 or flavour != 'edge' or kd[0] not in ('Section', 'Associate', 'PragmaRegion', 'Interface', 'TypeDef', 'Comment', 'Pragma', 'RawSource'):
            # a replacement of the same shape (it is rebuilt with the children of the replaced node)
            if kd[0] in LEAVES:
                h = g.fresh(kd[0], [])
            elif kd[0] == 'Conditional':
                h = g.fresh('Conditional', [[g.leaf()], []])
            else:
                h = g.fresh(rng.choice([kd[0], kd[0], 'Section', 'PragmaRegion']) if kd[0] not in ('Loop', 'WhileLoop', 'Forall') else kd[0], [[g.leaf()] if rng.random() < 0.5 else []])
        else:
            h = ['tuple', [g.leaf() for _ in range(rng.choice([0, 1, 2]))]]
        mapper.append([['ref', kd[1]], h])
    if flavour == 'edge' and rng.random() < 0.3:
        sibs = [s for n in nodes for s in n[4] if len(s) >= 2]
        if sibs:
            s = rng.choice(sibs)
            i = rng.randint(0, len(s) - 2)
            mapper.append([['win', [['ref', resolve(x, table)[1]] for x in s[i:i + 2]]], rng.choice([None, g.leaf(), ['tuple', [g.leaf(), g.leaf()]]])])
    return {'kind': 'nested-' + flavour, 'cls': 'nested', 'root': root, 'mapper': mapper,
            'inplace': rng.random() < 0.25, 'rebuild_scopes': rng.random() < 0.5,
            'invsrc': rng.random() < (0.3 if flavour == 'edge' else 0.8)}

# ---- class membership of a case (decided on the description) -----------------------------------------------
def case_tables(case):
    table = {}
    index_descs(case['root'], table)
    for k, h in case['mapper']:
        index_descs(k, table)
        index_descs(h, table)
    for x in case.get('start', []) + case.get('stop', []):
        index_descs(x, table)
    return table

def keys_of(case):
    return [k for k, _ in case['mapper']]

def is_key(n, case, table):
    return any(k[0] != 'win' and same(k, n, table) for k in keys_of(case))

def keyfree(d, case, table):
    ok = [True]
    def f(n):
        if is_key(n, case, table):
            ok[0] = False
    walk(d, table, f)
    return ok[0]

def plain_in_class(case, table):
    """the class of C14_transform_spec, decided on the description, plus: the requested result is a legal tree"""
    root, mapper = case['root'], case['mapper']
    keys = keys_of(case)
    if any(k[0] == 'win' for k in keys):
        return False
    for i, k in enumerate(keys):
        if any(same(k, k2, table) for k2 in keys[:i]):
            return False
    nodes = tree_nodes(root, table)
    for k, h in mapper:
        if h is not None and h[0] in ('tuple', 'list'):
            for x in h[1]:
                if x is None or x[0] in ('tuple', 'list'):
                    return False
                if is_ref(x) and is_ref(k) and x[1] == k[1]:
                    continue
                if not keyfree(x, case, table):
                    return False
            # every equal node of the tree must be the key object itself
            for n in nodes:
                if same(k, n, table) and not (is_ref(k) and n[1] == k[1]):
                    return False
            if root[0] != 'tuple' and same(k, root, table):
                return False
    return True

def legal_content(c):
    """no has_elseif conditional without its else-if, no empty body in a multi-body node (known findings)"""
    if c is None:
        return True
    if c[0] == 'tuple':
        return all(legal_content(x) for x in c[1])
    kind, _, slots = c
    if kind in MULTI and any(not s for s in slots[:-1]):
        return False
    return all(legal_content(x) for s in slots for x in s)

def has_elseif(case, table):
    found = [False]
    def f(n):
        if n[5].get('elseif'):
            found[0] = True
    for n in tree_nodes(case['root'], table):
        f(n)
    for k, h in case['mapper']:
        for d in ([h] if h is not None and h[0] not in ('tuple', 'list') else (h[1] if h is not None else [])):
            if d is not None and d[0] not in ('tuple', 'list'):
                walk(d, table, f)
    return found[0]

def multi_bodies_nonempty(case, table):
    ok = [True]
    def f(n):
        if n[0] in MULTI and any(not s for s in n[4][:-1]):
            ok[0] = False
    for n in tree_nodes(case['root'], table):
        f(n)
    for k, h in case['mapper']:
        for d in ([h] if h is not None and h[0] not in ('tuple', 'list') else (h[1] if h is not None else [])):
            if d is not None and d[0] not in ('tuple', 'list'):
                walk(d, table, f)
    return ok[0]

# ---- building real Loki IR ------------------------------------------------------------------------------------
class Builder:
    def __init__(self):
        from loki import ir, Scope
        from loki.expression import symbols as sym
        from loki.frontend.source import Source, SourceStatus
        self.ir, self.sym, self.Source, self.SourceStatus = ir, sym, Source, SourceStatus
        self.scope = Scope()
        v = lambda n: sym.Variable(name=n, scope=self.scope)
        self.x, self.y, self.i, self.n, self.cond = v('x'), v('y'), v('i'), v('n'), v('flag')
        self.objs = {}

    def source(self, label, src):
        if not src:
            return None
        s = self.Source(lines=(label + 1, label + 1), string='line %d' % label)
        if src == 2:
            s.invalidate()
        return s

    def build(self, d):
        if d is None:
            return None
        if d[0] == 'ref':
            if d[1] not in self.objs:
                self.build(self.table[d[1]])
            return self.objs[d[1]]
        if d[0] == 'tuple':
            return tuple(self.build(x) for x in d[1])
        if d[0] == 'list':
            return [self.build(x) for x in d[1]]
        kind, oid, label, src, slots, extra = d
        if oid in self.objs:
            return self.objs[oid]
        ir, sym = self.ir, self.sym
        bodies = [tuple(self.build(x) for x in s) for s in slots]
        kw = {'label': 'L%d' % label, 'source': self.source(label, src)}
        rng = sym.LoopRange((sym.IntLiteral(1), self.n))
        if kind == 'Section':
            o = ir.Section(body=bodies[0], **kw)
        elif kind == 'Associate':
            o = ir.Associate(associations=((self.x, self.y),), body=bodies[0], parent=None, **kw)
        elif kind == 'Loop':
            o = ir.Loop(variable=self.i, bounds=rng, body=bodies[0], **kw)
        elif kind == 'WhileLoop':
            o = ir.WhileLoop(condition=self.cond, body=bodies[0], **kw)
        elif kind == 'Conditional':
            o = ir.Conditional(condition=self.cond, body=bodies[0], else_body=bodies[1],
                               has_elseif=bool(extra.get('elseif')), **kw)
        elif kind == 'PragmaRegion':
            o = ir.PragmaRegion(body=bodies[0], pragma=ir.Pragma(keyword='acc', content='data'),
                                pragma_post=ir.Pragma(keyword='acc', content='end data'), **kw)
        elif kind == 'Interface':
            o = ir.Interface(body=bodies[0], **kw)
        elif kind == 'Assignment':
            o = ir.Assignment(lhs=self.x, rhs=self.y, **kw)
        elif kind == 'CallStatement':
            o = ir.CallStatement(name=sym.ProcedureSymbol('foo', scope=self.scope), arguments=(self.x, self.y),
                                 kwarguments=(('k', self.n),), **kw)
        elif kind == 'Comment':
            o = ir.Comment(text='! c', **kw)
        elif kind == 'Pragma':
            o = ir.Pragma(keyword='loki', content='p', **kw)
        elif kind == 'MultiConditional':
            o = ir.MultiConditional(expr=self.x, values=tuple((sym.IntLiteral(j + 1),) for j in range(len(bodies) - 1)),
                                    bodies=tuple(bodies[:-1]), else_body=bodies[-1], **kw)
        elif kind == 'TypeDef':
            o = ir.TypeDef(name='t%d' % label, body=bodies[0], parent=None, **kw)
        elif kind == 'Forall':
            o = ir.Forall(named_bounds=((self.i, rng),), body=bodies[0], **kw)
        elif kind == 'MaskedStatement':
            o = ir.MaskedStatement(conditions=tuple(self.cond for _ in bodies[:-1]), bodies=tuple(bodies[:-1]),
                                   default=bodies[-1], **kw)
        elif kind == 'Allocation':
            o = ir.Allocation(variables=(self.x,), **kw)
        elif kind == 'RawSource':
            o = ir.RawSource(text='raw', **kw)
        else:
            raise ValueError(kind)
        self.objs[oid] = o
        return o

class Exporter:
    """real objects -> model items (JSON): int = opaque object, None, list = tuple, {'n': [id, kind, src, pay], 'c': [...]}"""
    def __init__(self, B):
        self.B = B
        self.ids = {}
        self.keep = []
        self.payreps = {}
        self.objreps = []

    def register(self, o):
        Node = self.B.ir.Node
        if isinstance(o, (tuple, list)):
            for x in o:
                self.register(x)
        elif isinstance(o, Node):
            if id(o) in self.ids:
                return
            self.ids[id(o)] = len(self.ids) + 1
            self.keep.append(o)
            for c in o.children:
                self.register(c)

    def src(self, o):
        s = o.source
        if s is None:
            return 0
        st = self.B.SourceStatus
        return {st.VALID: 1, st.INVALID_NODE: 2, st.INVALID_CHILDREN: 3}[s.status]

    def pay(self, o):
        name = type(o).__name__
        key = dict(o.args_frozen)
        s = key.pop('source', None)
        key['__source'] = None if s is None else (s.lines, s.string, s.file)
        he = 0
        if name == 'Conditional':
            he = 1 if key.pop('has_elseif') else 0
        if name in SCOPED:
            key.pop('parent', None)      # scope pointers and symbol tables are not modelled
        reps = self.payreps.setdefault(name, [])
        for i, r in enumerate(reps):
            if r == key:
                idx = i
                break
        else:
            reps.append(key)
            idx = len(reps) - 1
        return 2 * idx + he if name == 'Conditional' else idx

    def obj(self, v):
        for i, r in enumerate(self.objreps):
            try:
                if r is v or r == v:
                    return i
            except Exception:
                pass
        self.objreps.append(v)
        return len(self.objreps) - 1

    def head(self, o, shallow=False):
        i = self.ids.get(id(o), 0)
        if shallow and i:
            return [i, KIDX[type(o).__name__], 0, 0]
        return [i, KIDX[type(o).__name__], self.src(o), self.pay(o)]

    def export(self, o, shallow=False):
        Node = self.B.ir.Node
        if o is None:
            return None
        if isinstance(o, (tuple, list)):
            return [self.export(x, shallow) for x in o]
        if isinstance(o, Node):
            if shallow and id(o) in self.ids:
                return {'n': self.head(o, True), 'c': []}
            return {'n': self.head(o), 'c': [self.export(c, shallow) for c in o.children]}
        return self.obj(o)

    def stub(self, o):
        Node = self.B.ir.Node
        if o is None:
            return None
        if isinstance(o, (tuple, list)):
            return [self.stub(x) for x in o]
        if isinstance(o, Node):
            return {'n': self.head(o), 'c': []}
        return self.obj(o)

    def state(self, o):
        return [self.src(o), [self.export(c, True) for c in o.children]]

    def content(self, o):
        """[kind, label, bodies] with the node-valued slots only (what the oracle predicts)"""
        Node = self.B.ir.Node
        if o is None:
            return None
        if isinstance(o, (tuple, list)):
            return [self.content(x) for x in o]
        if isinstance(o, Node):
            name = type(o).__name__
            if name == 'Conditional':
                slots = [o.body, o.else_body]
            elif name == 'MultiConditional':
                slots = list(o.bodies) + [o.else_body]
            elif name == 'MaskedStatement':
                slots = list(o.bodies) + [o.default]
            elif name in ONEBODY:
                slots = [o.body]
            else:
                slots = []
            lab = o.label
            return [name, int(lab[1:]) if lab and lab[1:].isdigit() else -1,
                    [[self.content(x) for x in (s or ())] for s in slots]]
        return '?'

def eq_json(a, b):
    """equality of exported items ignoring object identities"""
    if isinstance(a, dict) and isinstance(b, dict):
        return a['n'][1:] == b['n'][1:] and len(a['c']) == len(b['c']) and all(eq_json(x, y) for x, y in zip(a['c'], b['c']))
    if isinstance(a, list) and isinstance(b, list):
        return len(a) == len(b) and all(eq_json(x, y) for x, y in zip(a, b))
    if isinstance(a, (dict, list)) or isinstance(b, (dict, list)):
        return False
    return a == b

def clist(xs):
    """explicit cons chain (the [a; b] list notation is several times slower to parse for long literals)"""
    s = 'nil'
    for x in reversed(list(xs)):
        s = '(cons %s %s)' % (x, s)
    return s

def item_coq(j):
    if j is None:
        return 'NoneI'
    if isinstance(j, int):
        return '(Obj %d)' % j
    if isinstance(j, list):
        return '(Tup %s)' % clist(item_coq(x) for x in j)
    i, k, s, p = j['n']
    return '(Nd %d %d %d %d %s)' % (i, k, s, p, clist(item_coq(x) for x in j['c']))

def items_coq(l):
    return clist(item_coq(x) for x in l)

def bool_coq(b):
    return 'true' if b else 'false'

class C14(Property):
    id = 'C14'
    imports = ['models.M_C14']
    theorem_file = 'theories/props/T_C14.v'
    parallel = True
    shard = 150
    rule = ('random IR trees built from 17 loki.ir node classes (2 scoped), depth <= 6, <= ~40 nodes, unique Node.label per '
            'object (plus deliberate equal-but-distinct copies and the same object twice) x random mappers (None / node / '
            'tuple / list / tuple containing the key / self / mapped children of mapped parents / windowed tuple keys / '
            'chained one-to-many) x inplace x rebuild_scopes x invalidate_source x the four transformer classes '
            '(start/stop sets, active, require_all_start, greedy_stop for the masked ones); a case is non-trivial when '
            'the mapper or the mask changes the tree; distinct = distinct (class, flags, result) tuples')
    modelled_not_verified = [
        'export of the real objects: Node.children, equality classes of the non-traversable fields (cross-checked against Python == on every case)',
        'ScopedNode.parent / the scope keyword, symbol tables and dataflow placeholders are not modelled',
        'pydantic validation is modelled for the body slots (sanitize_tuple, node-only bodies) and two __post_init__ assertions only',
        'aliasing under in-place updates (the same object reached twice while it is updated in place) is outside the generated class',
    ]

    # ---- cases ---------------------------------------------------------------------------------------------------
    def generate(self, rng, tier):
        n = 1 if tier == 'quick' else 8
        for _ in range(260 * n):
            c = gen_plain(rng, tier, 'class')
            yield c
        for _ in range(110 * n):
            yield gen_plain(rng, tier, 'edge')
        for _ in range(110 * n):
            yield gen_masked(rng, tier, False, 'class')
        for _ in range(50 * n):
            yield gen_masked(rng, tier, False, 'edge')
        for _ in range(70 * n):
            yield gen_masked(rng, tier, True, 'class')
        for _ in range(40 * n):
            yield gen_masked(rng, tier, True, 'edge')
        for _ in range(70 * n):
            yield gen_nested(rng, tier, 'class')
        for _ in range(40 * n):
            yield gen_nested(rng, tier, 'edge')

    # ---- implementation -------------------------------------------------------------------------------------------
    def run_impl(self, case):
        from loki.ir import Transformer, NestedTransformer, MaskedTransformer, NestedMaskedTransformer
        sys.setrecursionlimit(1200)
        B = Builder()
        B.table = case_tables(case)
        root = B.build(case['root'])
        mapper = {}
        for k, h in case['mapper']:
            key = tuple(B.build(x) for x in k[1]) if k[0] == 'win' else B.build(k)
            mapper[key] = B.build(h)
        start = [B.build(x) for x in case.get('start', [])]
        stop = [B.build(x) for x in case.get('stop', [])]
        E = Exporter(B)
        E.register(root)
        for k, h in mapper.items():
            E.register(k)
            E.register(h)
        E.register(start)
        E.register(stop)
        out = {}
        out['root'] = E.export(root)
        out['mapper'] = [[E.export(k), None if h is None else (['T', E.export(list(h))] if isinstance(h, (tuple, list)) else ['N', E.export(h)])]
                         for k, h in mapper.items()]
        out['start'] = [E.export(x) for x in start]
        out['stop'] = [E.export(x) for x in stop]
        # the export is faithful to Python's == / hash on the real objects
        objs = E.keep[:70]
        exps = [E.export(o) for o in objs]
        bad = 0
        for a in range(len(objs)):
            for b in range(a, len(objs)):
                pe = objs[a] == objs[b]
                if pe != eq_json(exps[a], exps[b]) or (pe and hash(objs[a]) != hash(objs[b])):
                    bad += 1
        out['eq_mismatch'] = bad
        before = {i: E.state(o) for o, i in ((o, E.ids[id(o)]) for o in E.keep)}
        cls = {'plain': Transformer, 'nested': NestedTransformer, 'masked': MaskedTransformer,
               'nestedmasked': NestedMaskedTransformer}[case['cls']]
        kw = {'mapper': mapper, 'invalidate_source': case['invsrc'], 'inplace': case['inplace']}
        if case['rebuild_scopes'] is not None:
            kw['rebuild_scopes'] = case['rebuild_scopes']
        if case['cls'] in ('masked', 'nestedmasked'):
            kw.update(start=start, stop=stop, active=case['active'], require_all_start=case['all_start'],
                      greedy_stop=case['greedy'])
        t = cls(**kw)
        try:
            res = t.visit(root)
        except RecursionError:
            out['error'] = 'RecursionError'
            return out
        except Exception as e:  # pylint: disable=broad-except
            out['error'] = type(e).__name__
            out['msg'] = str(e)[:200]
            return out
        out['result'] = E.export(res)
        out['content'] = E.content(res)
        after = {E.ids[id(o)]: E.state(o) for o in E.keep}
        out['heap'] = [[i, after[i][0], after[i][1]] for i in sorted(after) if after[i] != before[i]]
        out['rebuilt'] = [[E.ids.get(id(k), 0), E.stub(v)] for k, v in t.rebuilt.items()]
        out['tree_ids'] = sorted(set(self._ids(out['root'])))
        return out

    def _ids(self, j):
        if isinstance(j, dict):
            yield j['n'][0]
            for c in j['c']:
                yield from self._ids(c)
        elif isinstance(j, list):
            for c in j:
                yield from self._ids(c)

    # ---- model ----------------------------------------------------------------------------------------------------
    def cfg_coq(self, case, out):
        ms = []
        for k, h in out['mapper']:
            hc = 'HNone' if h is None else ('(HTup %s)' % items_coq(h[1]) if h[0] == 'T' else '(HNode %s)' % item_coq(h[1]))
            ms.append('(%s, %s)' % (item_coq(k), hc))
        rs = case['rebuild_scopes']
        if rs is None:
            rs = case['cls'] in ('masked', 'nestedmasked')
        return '(Build_cfg %s %s %s %s %s %s %s %s)' % (
            CLS[case['cls']], clist(ms), bool_coq(case['inplace']), bool_coq(rs), bool_coq(case['invsrc']),
            items_coq(out['stop']), bool_coq(case.get('all_start', False)), bool_coq(case.get('greedy', False)))

    def model_term(self, case, out):
        if '__exception__' in out:
            raise ValueError('harness failure: %s' % out.get('msg'))
        if out.get('eq_mismatch'):
            return 'false'
        cfg = self.cfg_coq(case, out)
        act, start, root = bool_coq(case.get('active', False)), items_coq(out['start']), item_coq(out['root'])
        if 'error' in out:
            code = ERR.get(out['error'])
            if code is None:
                return 'false'
            return '(chk_err %s %s %s %s %d)' % (cfg, act, start, root, code)
        hd = clist('(%d, (%d, %s))' % (i, s, items_coq(ch)) for i, s, ch in out['heap'])
        rb = clist('(%d, %s)' % (i, item_coq(v)) for i, v in out['rebuilt'])
        t = '(chk_ok %s %s %s %s %s %s %s)' % (cfg, act, start, root, item_coq(out['result']), hd, rb)
        if case['cls'] == 'plain' and self.in_class(case):
            t = '(%s && chk_spec %s %s (Some %s))' % (t, cfg, root, item_coq(out['result']))
        return t

    def show_model(self, case, out):
        cfg = self.cfg_coq(case, out)
        return ['run %s %s %s %s' % (cfg, bool_coq(case.get('active', False)), items_coq(out['start']), item_coq(out['root']))]

    # ---- oracle ---------------------------------------------------------------------------------------------------
    def in_class(self, case):
        if case['cls'] != 'plain':
            return False
        table = case_tables(case)
        return plain_in_class(case, table) and not has_elseif(case, table) and multi_bodies_nonempty(case, table)

    def oracle(self, case, out):
        if '__exception__' in out:
            return 'harness failure: %s %s' % (out['__exception__'], out.get('msg'))
        table = case_tables(case)
        flav = case['kind'].split('-')[-1]
        cls = case['cls']
        if 'error' not in out:
            # Transformer.rebuilt maps original nodes to the objects that replace them
            for kid, v in out['rebuilt']:
                if isinstance(v, dict) and kid and v['n'][0] == kid:
                    return 'rebuilt records node %d although it was not rebuilt (maps to itself)' % kid
            nodes = tree_nodes(case['root'], table)
            labels = [n[2] for n in nodes]
            if cls == 'plain' and not case['mapper'] and not case['inplace'] and len(set(labels)) == len(labels) \
                    and (case['rebuild_scopes'] or not has_kind(nodes, SCOPED)):
                missing = set(out['tree_ids']) - {kid for kid, _ in out['rebuilt']}
                if missing:
                    return 'rebuilt does not cover the nodes %s of the original tree' % sorted(missing)
        if cls == 'plain':
            if not plain_in_class(case, table):
                return None
            exp = ref_subst(case['root'], case['mapper'], table)
            if not multi_bodies_nonempty(case, table) and case['kind'] != 'finding':
                return None
            if case['kind'] != 'finding' and (not legal_content(exp) or has_elseif(case, table)):
                return None
            if 'error' in out:
                return 'Transformer raised %s on a legal request' % out['error']
            got = out['content']
            if case['root'][0] == 'tuple':
                got = ['tuple', got]
            if got != exp:
                return 'result differs from the requested substitution: got %s expected %s' % (str(got)[:300], str(exp)[:300])
            nodes = tree_nodes(case['root'], table)
            if not case['inplace'] and (case['rebuild_scopes'] or not has_kind(nodes, SCOPED) or case['kind'] == 'finding'):
                hnodes = []
                for k, h in case['mapper']:
                    if h is not None and h[0] in ('tuple', 'list'):
                        for x in h[1]:
                            if x is not None and x[0] not in ('tuple', 'list'):
                                walk(x, table, hnodes.append)     # members of a one-to-many replacement are visited
                hs = has_kind(hnodes, SCOPED)
                if out['heap'] and (case['rebuild_scopes'] or not hs):
                    return 'inplace=False but original objects were modified: ids %s' % [h[0] for h in out['heap']]
            return None
        if cls in ('masked', 'nestedmasked'):
            if case['kind'] == 'finding' and 'error' in out:
                return '%s raised %s' % (cls, out['error'])
            if case['mapper'] or flav == 'edge':
                return None
            if 'error' in out:
                return '%s raised %s' % (cls, out['error'])
            exp = ref_masked(case['root'], table, case['start'], case['stop'], case['active'], case['all_start'],
                             case['greedy'], cls == 'nestedmasked')
            got = content_preorder(out['content'])
            if got != exp:
                return 'masked result is not the active sub-sequence: got %s expected %s' % (got, exp)
            if not case['inplace'] and case['rebuild_scopes'] in (None, True) and out['heap']:
                return 'original objects were modified: ids %s' % [h[0] for h in out['heap']]
            return None
        if cls == 'nested':
            if flav == 'edge':
                return None
            if 'error' in out:
                return 'NestedTransformer raised %s' % out['error']
            if not case['inplace'] and case['rebuild_scopes'] and out['heap']:
                return 'original objects were modified: ids %s' % [h[0] for h in out['heap']]
        return None

    def nontrivial_key(self, case, out):
        if 'error' in out:
            return ('err', case['cls'], out['error'], str(case['mapper'])[:200])
        if not case['mapper'] and not case.get('start') and not case.get('stop') and case['cls'] == 'plain':
            return None
        return (case['cls'], case['inplace'], case['rebuild_scopes'], str(out.get('content'))[:400])

    def search(self, rng, bad_cases):
        for i in range(400):
            yield gen_plain(rng, 'quick', 'class')
        for i in range(150):
            yield gen_masked(rng, 'quick', bool(i % 2), 'class')
        for i in range(100):
            yield gen_nested(rng, 'quick', 'class')

PROP = C14
