"""C05 — frontend input sanitisation leaves untargeted text untouched.

Two kinds of cases:
* 'src'  : a small source text with trigger text in every position; the real ``sanitize_input(src, FP)`` output text and
           ``pp_info`` are compared byte for byte with the Coq model (``chk_sanitize``); the oracle checks what must hold for
           any text: trigger-free lines come back unchanged, the groups recorded for an OPEN line concatenate to that line.
* 'prog' : a whole program unit from the class where the sanitiser is right (trigger look-alikes inside literals, comments,
           identifiers; macro tokens only as stand-alone tokens in code; OPEN statements with at most one of CONVERT=/NEWUNIT=);
           parsed by the real FP frontend; oracle: every string literal and comment of the source is found unchanged in the IR
           and in the regenerated code, OPEN statements keep their specifiers, directives survive; thorough tier: gfortran
           run of original vs regenerated routine.  The model is tied on the same source (text, pp_info, restored OPEN text).
"""
import collections
from ..framework import Property
from ..coqlit import coq, C, Nat, Some, Raw

# ------------------------------------------------------------------------------------------------ Coq literals
def S(s):
    """string -> Coq literal (printable ASCII and newlines verbatim, everything else through character codes)"""
    if all((32 <= ord(ch) < 127) or ch == '\n' for ch in s):
        return Raw('"%s"%%string' % s.replace('"', '""'))
    return Raw('(str_of_codes [%s]%%nat)' % '; '.join(str(min(ord(ch), 255)) for ch in s))

def canon_info(info):
    """pp_info -> [[ [lineno, [entry...]], ...] per rule in registry order]; entry = {'g': [[name, text|None]...]} | {'p': [a, b]}"""
    out = []
    for _name, d in info.items():
        li = []
        for ln, es in d.items():
            ee = []
            for e in es:
                if isinstance(e, dict): ee.append({'g': [[k, v] for k, v in e.items()]})
                else: ee.append({'p': list(e)})
            li.append([int(ln), ee])
        out.append(li)
    return out

def info_model(ci):
    def ent(e):
        if 'g' in e: return C('EG', [(S(k), None if v is None else Some(S(v))) for k, v in e['g']])
        return C('EP', S(e['p'][0]), S(e['p'][1]))
    return [[(ln, [ent(e) for e in es]) for ln, es in li] for li in ci]

# ------------------------------------------------------------------------------------------------ text-level generator
MACROS = ['__FILE__', '__FILENAME__', '__DATE__', '__VERSION__', '__LINE__']
NEAR = ['__FILE_', '_FILE__', '__file__', '__File__', '__LINE_', '_LINE__', '__line__', '__DATE', '__VERSION', '@PROCES', '@process',
        '@ PROCESS', "CONVERT='NATIVE'", 'CONVERT =', 'NEWUNIT =', 'NEW_UNIT=', 'CONVERT', 'NEWUNIT', '__', '____', '__FILENAME_', 'ypp', '.fypp', 'hypp"']
CONVS = ["CONVERT='BIG_ENDIAN'", 'CONVERT="LITTLE_ENDIAN"', "convert='big_endian'", 'Convert="Little_Endian"', "CONVERT='BIG_ENDIAN\"",
         "convert=  'big_endian'", "CONVERT='big_ENDIAN' ", "convert='little_endian'  "]
NEWUS = ['NEWUNIT=u', 'newunit=lun', 'NewUnit=units(i)', 'newunit=u%v', 'NEWUNIT=fu ', 'newunit= u', 'newunit=', 'NEWUNIT=a&']
OTHER = ['UNIT=1', '10', "FILE='x.dat'", 'file=trim(p)//".dat"', 'iostat=ios', 'status="old"', "form='unformatted'", "action='read'", 'err=99',
         "file='a,b'", 'file="c(d)"', "access='stream'"]
SEPS = [',', ', ', ' ,', ' , ', ',,', ',  ', '']
TERMS = ['\n'] * 14 + ['\r\n', '', '\r', '\x0c', '\x0b', '\x1c', '\x1e', ' \n', '\t\n']
SOUP = list('__FILEDATNMVRSO@PC') + list("  ,,()=='\"&#!;") + list('openuitcvwbgl_') + ['__', '__', 'LINE', 'FILE', 'OPEN(', 'NEWUNIT=', 'CONVERT=',
        "'BIG_ENDIAN'", '\t', '.fypp"', '# 1', ' 2']
PLAIN = ['subroutine s(u, f)', '  implicit none', '  integer :: u, k', "  character(len=64) :: f, c", '  k = k + 1', "  print *, 'hello'", '  ! a comment', '',
         '  call foo(k, f)', 'end subroutine s', '  close(u)', '  read(u, *) k', "  c = 'open the file'", '  do k = 1, 3', '  end do', '#endif', '#include "x.h"',
         '  inquire(unit=u, opened=l)', "  x = a_b__c", '   ', '  if (k > 1) then', '  end if', '  write(u, "(a)") c', '  c = "it\'s"']

def mixcase(rng, s):
    r = rng.random()
    if r < 0.5: return s
    if r < 0.65: return s.lower()
    if r < 0.8: return s.upper()
    return ''.join(ch.upper() if rng.random() < 0.5 else ch.lower() for ch in s)

def trig(rng):
    r = rng.random()
    if r < 0.45: return rng.choice(MACROS)
    if r < 0.55: return '@PROCESS' + rng.choice(['', ' HOT', ' NOOPT(x)'])
    if r < 0.67: return rng.choice(CONVS)
    if r < 0.79: return rng.choice(NEWUS)
    if r < 0.86: return rng.choice(MACROS) + rng.choice(MACROS)[2:]      # overlapping underscores
    if r < 0.9: return mixcase(rng, rng.choice(MACROS))
    return rng.choice(NEAR)

def open_line(rng):
    args = [rng.choice(OTHER) for _ in range(rng.randint(0, 4))]
    specials = []
    r = rng.random()
    if r < 0.45: specials.append(rng.choice(CONVS))
    if 0.3 < r < 0.8: specials.append(rng.choice(NEWUS))
    if rng.random() < 0.1: specials.append(rng.choice(CONVS + NEWUS))
    if rng.random() < 0.1: specials.append(rng.choice(MACROS))
    for s in specials:
        args.insert(rng.randint(0, len(args)), s)
    body = ''
    for i, a in enumerate(args):
        if i: body += rng.choice(SEPS[:5]) if rng.random() < 0.9 else rng.choice(SEPS)
        body += a
    head = rng.choice(['', '  ', '    ', '\t', ' \t ']) + mixcase(rng, 'OPEN') + rng.choice(['', '', ' ', '  ', '\t']) + '('
    r = rng.random()
    if r < 0.7: tail = ')'
    elif r < 0.8: tail = ', &'
    elif r < 0.85: tail = ' &'
    elif r < 0.9: tail = ') ! ' + trig(rng)
    elif r < 0.95: tail = "); write(u,*) 'x'"
    else: tail = ''
    if rng.random() < 0.08:
        head = rng.choice(['if (l) ', '10 ', 'x', '& ', '! ']) + head.lstrip()
    return head + body + tail

def ctx_line(rng):
    t = trig(rng)
    if rng.random() < 0.25: t = t + rng.choice([' ', ', ', '//', '+', '']) + trig(rng)
    k = rng.randrange(14)
    ind = rng.choice(['', '  ', '    ', '\t'])
    if k == 0: return ind + 'x = ' + t + ' + 1'
    if k == 1: return ind + "c = '" + rng.choice(['', 'in ', "it''s "]) + t.replace("'", "''") + rng.choice(['', ' end', "''"]) + "'"
    if k == 2: return ind + 'c = "' + rng.choice(['', 'in ', 'say ""']) + t.replace('"', '""') + rng.choice(['', ' end', '""']) + '"'
    if k == 3: return ind + '! ' + t + rng.choice(['', ' is kept'])
    if k == 4: return ind + 'k = 1 ! see ' + t
    if k == 5: return ind + 'my' + t + 'var = 3'
    if k == 6: return rng.choice(['#define X ', '# define X ', '  #if ', '#ifdef ', ' \t# ', '#']) + t + rng.choice(['', ' x', ' ' + trig(rng)])
    if k == 7: return ind + "print *, 'a', " + t + ", &"
    if k == 8: return ind + '& ' + t + ", 'b'"
    if k == 9: return ind + 'write(*,*) "line ", ' + t + rng.choice(['', ', __LINE__', ", '__FILE__'"])
    if k == 10: return ind + 'call abor1(' + t + ', "msg")'
    if k == 11: return t
    if k == 12: return ind + t + ' ' + t
    return ind + "c = 'open(" + t + ")'"

def fypp_line(rng):
    r = rng.random()
    nm = rng.choice(['a', 'dir/file', 'x.y', ''])
    ext = rng.choice(['.fypp', '.hypp', '.fypp', '.Fypp', '.f90', 'fypp'])
    num = rng.choice(['1', '12', '907', '0', '10'])
    s = '# ' + num + ' "' + nm + ext + '"'
    if r < 0.3: s += ' ' + rng.choice(['1', '2', '34', ' 5', 'x', '2 '])
    elif r < 0.4: s += rng.choice([' ', '1', ' "b.fypp"', ' # 3 "q.hypp"'])
    if rng.random() < 0.2: s = rng.choice(['x = 1 ', '! ', '  ', '#']) + s
    if rng.random() < 0.1: s = s.replace('"', '', 1)
    return s

def soup_line(rng):
    return ''.join(rng.choice(SOUP) for _ in range(rng.randint(1, 14)))

def clean_line(rng):
    """a line without any trigger keyword (in any letter case)"""
    r = rng.random()
    if r < 0.6: return rng.choice(PLAIN)
    words = ['open(unit=1, file=f)', "c = 'process'", '! convert to big endian', 'x__y = line__ + file_', "print *, 'new unit', date_",
             '_version_ = 2', '@ process', 'conv = 1', 'open (10)', "open(3, status='old') ! keep", '# 1 "x.f90"', '& ) ', '\t', 'k=k+1; j=2']
    return rng.choice(['', '  ', '\t']) + rng.choice(words)

def gen_source(rng, clean=False):
    n = rng.choice([1, 1, 2, 3, 4, 6, 8])
    out = ''
    for i in range(n):
        r = rng.random()
        if clean: l = clean_line(rng)
        elif r < 0.3: l = ctx_line(rng)
        elif r < 0.55: l = open_line(rng)
        elif r < 0.63: l = fypp_line(rng)
        elif r < 0.75: l = soup_line(rng)
        else: l = rng.choice(PLAIN)
        out += l + (rng.choice(TERMS) if i < n - 1 or rng.random() < 0.8 else '')
    return out

TRIGGER_KWS = ['@process', '__file__', '__filename__', '__date__', '__version__', '__line__', 'convert=', 'newunit=', 'ypp"']
def has_trigger(text):
    t = text.lower()
    return any(k in t for k in TRIGGER_KWS)

# ------------------------------------------------------------------------------------------------ Fortran tokeniser (independent of Loki)
def ftok(src):
    """free-form source -> dict(lits=[(quote, raw inner text)], comments=[text], directives=[line], code=[code text per line])
    string literals may continue over lines with a trailing & (and an optional leading & on the next line)"""
    lits, comments, directives, code = [], [], [], []
    instr = None     # quote char when inside a literal
    cur = ''
    for line in src.split('\n'):
        st = line.lstrip()
        if instr is None and (st.startswith('#') or st.startswith('@PROCESS')):
            directives.append(line); continue
        i = 0
        seg = ''
        if instr is not None:
            j = len(line) - len(st)
            if st.startswith('&'): j += 1
            i = j
        n = len(line)
        while i < n:
            ch = line[i]
            if instr is not None:
                if ch == instr:
                    if i + 1 < n and line[i + 1] == instr:
                        cur += ch + ch; i += 2; continue
                    lits.append((instr, cur)); instr = None; cur = ''; i += 1; continue
                if ch == '&' and line[i + 1:].strip() == '':
                    break          # continued literal
                cur += ch; i += 1; continue
            if ch in '\'"':
                instr = ch; cur = ''; i += 1; continue
            if ch == '!':
                comments.append(line[i:].strip()); break
            seg += ch; i += 1
        code.append(seg)
    return {'lits': lits, 'comments': comments, 'directives': directives, 'code': code}

def unesc(q, raw):
    return raw.replace(q + q, q)

def code_macros(code):
    out = []
    for seg in code:
        for m in ['__FILENAME__', '__FILE__', '__DATE__', '__VERSION__']:
            out += [m] * seg.count(m)
    return out

def idents(code):
    """lower-cased identifiers in code text (outside literals and comments); the macro tokens themselves are targets, not identifiers"""
    import re
    out = set()
    for seg in code:
        for m in re.findall(r'[A-Za-z_][A-Za-z0-9_]*', seg):
            if m not in ('__FILE__', '__FILENAME__', '__DATE__', '__VERSION__', '__LINE__'):
                out.add(m.lower())
    return out

def norm_stmt(text):
    """statement text -> blanks and continuation marks removed, lower case outside string literals"""
    out = ''
    instr = None
    for ch in text.replace('&\n', '\n'):
        if instr:
            out += ch
            if ch == instr: instr = None
            continue
        if ch in '\'"': instr = ch; out += ch; continue
        if ch in ' \t\n&': continue
        out += ch.lower()
    return out

def statements(src):
    """logical statements of a free-form source (continuations joined, comments dropped), each as the joined raw text"""
    out, cur = [], None
    for line in src.split('\n'):
        st = line.strip()
        if not st or st.startswith('!') or st.startswith('#') or st.startswith('@PROCESS'): continue
        t = ftok(line)
        codeonly = line
        if t['comments']:
            # cut the trailing comment (the tokeniser knows where it starts)
            c = t['comments'][-1]
            k = line.rfind(c)
            codeonly = line[:k]
        body = codeonly.rstrip()
        if cur is not None:
            b = body.lstrip()
            if b.startswith('&'): b = b[1:]
            cur += b
        else:
            cur = body.strip()
        if cur.endswith('&'):
            cur = cur[:-1]
        else:
            out.append(cur); cur = None
    if cur: out.append(cur)
    return out

def open_stmts(src):
    return sorted(norm_stmt(s) for s in statements(src) if norm_stmt(s).startswith('open('))

# ------------------------------------------------------------------------------------------------ program-level generator (the class)
LOOKALIKE = ['__line__', '__file__', '__Line__', '_LINE_', '__LINE_', '_FILE__', '__DATE_', 'LINE__', '__version__', '@process', '@PROCES',
             'convert=', 'CONVERT=BIG_ENDIAN', 'newunit=u', 'NEWUNIT=', 'open(newunit=u)', 'NewUnit = 3', '__FILENAME_', '_ _FILE_ _', 'fypp', '# 1 x.fypp']
WORDS = ['hello', 'value is', 'it', 'end', 'the file', 'x', '']

def lit_text(rng):
    t = rng.choice(LOOKALIKE)
    r = rng.random()
    if r < 0.3: t = rng.choice(WORDS) + ' ' + t
    elif r < 0.5: t = t + ' ' + rng.choice(WORDS)
    elif r < 0.6: t = t + ', ' + rng.choice(LOOKALIKE)
    return t

def literal(rng, runnable=False):
    t = lit_text(rng)
    r = rng.random()
    if r < 0.35: return "'" + t + "'"
    if r < 0.6: return '"' + t + '"'
    if r < 0.75: return "'it''s " + t + "'"                       # doubled quote inside '...'
    if r < 0.87: return '"' + t + " 'q'" + '"'                     # other quote kind inside "..."
    return "'" + 'say "' + t + '"' + "'"                           # other quote kind inside '...'

def literal_pair(rng):
    """two literals for one statement that are identical or differ by more than letter case/blanks: the frontend takes a literal's value
    from the first case- and blank-insensitive occurrence of its text in the statement ("Abc" // "abc" regenerates as 'Abc' // 'Abc') —
    a defect of Source.clone_with_string/visit_literal that has nothing to do with the sanitiser, so it is kept out of this class"""
    a = literal(rng)
    for _ in range(20):
        b = literal(rng)
        if a == b or ''.join(a.lower().split()) != ''.join(b.lower().split()): return a, b
    return a, a

def comment_text(rng):
    t = lit_text(rng)
    r = rng.random()
    if r < 0.25: t = "CONVERT='BIG_ENDIAN' " + t
    elif r < 0.4: t = 'open(unit=1, NEWUNIT=u) ' + t
    elif r < 0.5: t = 'OPEN(1, convert="little_endian") ' + t
    return '! ' + t.strip()

def open_stmt(rng, runnable, unit_no):
    """an OPEN statement of the class: at most one of CONVERT=/NEWUNIT=, no trailing comment, simple unit variable;
    returns (lines, uses) where uses in {'convert','newunit','none','contline'}"""
    ind = rng.choice(['  ', '    ', '  '])
    kw = mixcase(rng, 'open') + rng.choice(['', '', ' '])
    conv = rng.choice(["convert='big_endian'", 'CONVERT="LITTLE_ENDIAN"', "Convert='Big_Endian'", "CONVERT = 'BIG_ENDIAN'"])
    k = rng.randrange(5)
    if runnable:
        other = ["status='scratch'", "form='unformatted'"]
    else:
        other = [rng.choice(["file=f", "file='x__line__.dat'", 'file="newunit.dat"', "file=trim(f)//'.convert'"]),
                 rng.choice(["status='old'", 'iostat=ios', "action='read'", "form='unformatted'"])]
    rng.shuffle(other)
    sep = lambda: rng.choice([', ', ',', ' , '])
    if k == 0:      # convert, single line
        unit = 'unit=%d' % unit_no
        conv1 = conv.replace(' = ', '=')      # the rule wants CONVERT= without blanks
        parts = [unit] + other
        parts.insert(rng.randint(1, len(parts)), conv1)
        return [ind + kw + '(' + sep().join(parts) + ')'], 'convert'
    if k == 1:      # newunit, single line
        parts = list(other)
        parts.insert(rng.randint(0, len(parts)), rng.choice(['newunit=lun', 'NEWUNIT=lun', 'NewUnit=lun', 'newunit= lun']))
        return [ind + kw + '(' + sep().join(parts) + ')'], 'newunit'
    if k == 2:      # matched first line, continued
        if rng.random() < 0.5:
            first = ['unit=%d' % unit_no, conv.replace(' = ', '=')]; u = 'convert'
        else:
            first = ['newunit=lun']; u = 'newunit'
        if rng.random() < 0.5: first = first + [other[0]]; rest = other[1:]
        else: rest = other
        return [ind + kw + '(' + ', '.join(first) + ', &', ind + '   & ' + ', '.join(rest) + ')'], u
    if k == 3:      # the specifier sits on the continuation line: no rule fires, the parser copes
        return [ind + kw + '(unit=%d, %s, &' % (unit_no, other[0]), ind + '   & ' + ', '.join([conv] + other[1:]) + ')'], 'contline'
    return [ind + kw + '(' + sep().join(['unit=%d' % unit_no] + other) + ')'], 'none'

def gen_prog(rng, runnable=False):
    api = 'sub' if runnable else rng.choice(['sub', 'file'])
    head = []
    if api == 'file':
        if rng.random() < 0.5: head.append(rng.choice(['@PROCESS HOT', '@PROCESS NOOPT(x) ! ibm', '  @PROCESS']))
        if rng.random() < 0.4: head.append(rng.choice(['#define MYFILE __FILE__', '#define WHERE __FILE__ , __DATE__', '# define STAMP __DATE__']))
    lines = ['subroutine s(u, f)']
    if rng.random() < 0.5: lines.append('  ' + comment_text(rng))
    lines += ['  implicit none', '  integer :: u, k, j, lun, ios', '  integer :: my__line_v, newunit, convert_x', '  character(len=64) :: f, c']
    if rng.random() < 0.4:
        lines.append('  character(len=*), parameter :: p = ' + literal(rng))
    if rng.random() < 0.3: lines.append('  ' + comment_text(rng))
    body = ['  k = 1', '  j = 0', "  c = ' '"]
    unit_no = 20
    for _ in range(rng.randint(4, 10)):
        r = rng.random()
        if r < 0.14: body.append('  c = ' + literal(rng))
        elif r < 0.2: body.append('  c = %s // %s' % literal_pair(rng))
        elif r < 0.3: body.append('  print *, ' + literal(rng) + rng.choice(['', ', k', ', trim(c)']))
        elif r < 0.36: body.append('  ' + comment_text(rng))
        elif r < 0.44: body.append('  k = k + 1  ' + comment_text(rng))
        elif r < 0.5: body.append(rng.choice(['  my__line_v = k', '  newunit = 3', '  convert_x = newunit + 1', '  newunit = my__line_v']))
        elif r < 0.56: body.append('  if (k > 0) print *, ' + literal(rng))
        elif r < 0.62 and not runnable: body.append('  call foo(' + literal(rng) + ', k)')
        elif r < 0.72 and not runnable:
            body.append(rng.choice(['  k = __LINE__', "  print *, 'at', __LINE__", '  c = __FILE__', '  call abor1(__FILE__, __LINE__, ' + rng.choice(["'msg'", '"failed here"', "'it''s over'"]) + ')',
                                    '  c = __DATE__ // __VERSION__', "  write(u, *) __FILENAME__, ' ', __LINE__"]))
        elif r < 0.78 and not runnable:
            body += ['#ifdef WITH_X', '  k = k + 2', '#endif']
        elif r < 0.84 and not runnable:
            body.append('  write(u, ' + rng.choice(["'(a)'", '*', '"(a)"']) + ') ' + literal(rng))
        else:
            unit_no += 1
            ls, use = open_stmt(rng, runnable, unit_no)
            body += ls
            un = 'lun' if use == 'newunit' else str(unit_no)
            if runnable:
                body += ['  write(%s) k + %d' % (un, unit_no), '  rewind(%s)' % un, '  read(%s) j' % un, '  print *, j', '  close(%s)' % un]
            elif rng.random() < 0.5:
                body.append('  close(%s)' % un)
    lines += body + ['end subroutine s']
    return {'kind': 'prog-run' if runnable else 'prog', 'api': api, 'src': '\n'.join(head + lines) + '\n'}

DRIVER = "program lv_main\n  implicit none\n  character(len=64) :: f\n  f = 'lv.dat'\n  call s(6, f)\nend program lv_main\n"

# ------------------------------------------------------------------------------------------------ the property
class C05(Property):
    id = 'C05'
    imports = ['models.M_C05']
    theorem_file = 'theories/props/T_C05.v'
    parallel = True
    shard = 120
    rule = ('src: 1-8 generated lines (code, single/double-quoted literals with doubled quotes, comments, identifier infix, cpp directives, continuation '
            'lines, OPEN lines with 0-3 CONVERT=/NEWUNIT= specifiers in all spellings, fypp line markers, character soup over the trigger alphabet, '
            'line ends \\n \\r\\n \\r \\f \\v \\x1c none) carrying every trigger (__FILE__ __FILENAME__ __DATE__ __VERSION__ __LINE__ @PROCESS CONVERT= '
            'NEWUNIT=, mixed case, overlapping, several per line) plus trigger-free sources: sanitize_input text and pp_info vs the model, byte for byte; '
            'prog: whole subroutines/files of the class (look-alike trigger text in literals of both quote kinds, comments, identifiers; macro tokens '
            'as stand-alone code tokens; OPEN with at most one of the two specifiers, continued or not) through Sourcefile/Subroutine.from_source(FP): '
            'literals, comments, OPEN statements, directives in IR and fgen output vs an independent tokeniser of the source; non-trivial = some rule '
            'fired; distinct = distinct source texts')
    modelled_not_verified = [
        'Python re semantics are reproduced by hand for the six fixed patterns on ASCII text and line-shaped input (a newline only as last character); non-ASCII case folding and other Unicode line boundaries are outside the model',
        'fparser (the parse after rewriting), Source extraction and fgen are exercised by the program-level oracle only',
        'the callbacks are applied once in the model (sanitize_ir applies them up to three times; equal when str.find hits the intended place)',
    ]

    # ---------------------------------------------------------------- generation
    def generate(self, rng, tier):
        n_src, n_clean, n_prog, n_run = (700, 80, 220, 0) if tier == 'quick' else (3000, 200, 900, 100)
        for _ in range(n_src):
            yield {'kind': 'src', 'src': gen_source(rng)}
        for _ in range(n_clean):
            yield {'kind': 'src-clean', 'src': gen_source(rng, clean=True)}
        for _ in range(n_prog):
            yield gen_prog(rng)
        for _ in range(n_run):
            yield gen_prog(rng, runnable=True)

    # ---------------------------------------------------------------- implementation
    def run_impl(self, case):
        from loki.frontend.preprocessing import sanitize_input
        from loki.frontend import FP
        src = case['src']
        out, info = sanitize_input(src, FP)
        res = {'out': out, 'info': canon_info(info)}
        if not case['kind'].startswith('prog'):
            return res
        from loki import Sourcefile, Subroutine, fgen
        from loki.ir import nodes as ir, FindNodes, FindLiterals
        from loki.expression import symbols as sym
        try:
            if case['api'] == 'file':
                obj = Sourcefile.from_source(src, frontend=FP)
                routines = list(obj.all_subroutines)
                fg = obj.to_fortran()
                raw_lines = src.splitlines(keepends=True)
                top = obj.ir
            else:
                r = Subroutine.from_source(src, frontend=FP)
                routines = [r]; fg = fgen(r)
                raw_lines = out.splitlines(keepends=True)
                top = None
        except Exception as e:   # the rewritten program no longer parses
            res['error'] = type(e).__name__; res['msg'] = str(e)[:200]
            return res
        lits, comments, gens, directives = [], [], [], []
        seen = set()
        fired = set()
        for nm in ('CONVERT_ENDIAN', 'OPEN_NEWUNIT'):
            fired |= set(int(k) for k in info[nm].keys())
        roots = [r.ir for r in routines] + ([top] if top is not None else [])
        for root in roots:
            for l in FindLiterals(unique=False).visit(root):
                if isinstance(l, sym.StringLiteral) and id(l) not in seen: seen.add(id(l)); lits.append(str(l.value))
            for p in FindNodes(ir.PrintStmt).visit(root):
                for v in p.values:
                    if isinstance(v, sym.StringLiteral) and id(v) not in seen: seen.add(id(v)); lits.append(str(v.value))
            for cnode in FindNodes(ir.Comment).visit(root):
                if id(cnode) not in seen: seen.add(id(cnode)); comments.append(str(cnode.text))
            for cb in FindNodes(ir.CommentBlock).visit(root):
                for cnode in cb.comments:
                    if id(cnode) not in seen: seen.add(id(cnode)); comments.append(str(cnode.text))
            for n in FindNodes(ir.Node).visit(root):
                cm = getattr(n, 'comment', None)
                if cm is not None and not isinstance(n, (ir.Comment, ir.CommentBlock)) and id(cm) not in seen:
                    seen.add(id(cm)); comments.append(str(cm.text))
            for g in FindNodes(ir.GenericStmt).visit(root):
                if isinstance(g, ir.PrintStmt): continue      # its literals are expression nodes, collected above
                ln = list(g.source.lines) if g.source is not None else None
                srcstr = ''.join(raw_lines[ln[0] - 1:ln[1]]).strip('\n') if ln else None
                gens.append({'text': str(g.text), 'lines': ln, 'srcstr': srcstr, 'fired': bool(ln and ln[0] in fired)})
            for d in FindNodes(ir.PreprocessorDirective).visit(root):
                directives.append(str(d.text))
        res.update({'lits': lits, 'comments': comments, 'gens': gens, 'directives': directives, 'fgen': fg})
        if case['kind'] == 'prog-run':
            from ..minif import gfortran_run
            ok1, o1 = gfortran_run([src], DRIVER)
            ok2, o2 = gfortran_run([fg], DRIVER)
            res['run'] = [bool(ok1), o1[-600:], bool(ok2), o2[-600:]]
        return res

    # ---------------------------------------------------------------- model
    def model_term(self, case, out):
        if 'out' not in out:
            raise ValueError('implementation raised: %r' % (out,))
        src = case['src']
        t = coq(C('chk_sanitize', Raw('lv_s'), S(out['out']), info_model(out['info'])))
        if case['kind'].startswith('prog') and 'gens' in out:
            for g in out['gens']:
                if g['lines'] is None or not g['text'].lstrip().lower().startswith('open'): continue
                txt = Some(S(g['text'])) if g['fired'] else None
                t = '(andb %s %s)' % (t, coq(C('chk_final_text', Raw('lv_s'), Nat(g['lines'][0]), S(g['srcstr']), txt)))
        return '(let lv_s := %s in %s)' % (coq(S(src)), t)

    # ---------------------------------------------------------------- oracle
    def oracle(self, case, out):
        if '__exception__' in out:
            return 'implementation raised %s: %s' % (out['__exception__'], out.get('msg'))
        src = case['src']
        o = out['out']
        if not has_trigger(src):
            if o != src: return 'a source without any trigger keyword was changed: %r -> %r' % (src[:120], o[:120])
            if any(li for li in out['info']): return 'pp_info is not empty for a source without any trigger keyword: %r' % (out['info'],)
        a, b = src.splitlines(keepends=True), o.splitlines(keepends=True)
        if len(a) == len(b):
            for i, (x, y) in enumerate(zip(a, b)):
                if not has_trigger(x) and x != y:
                    return 'line %d contains no trigger keyword but was changed: %r -> %r' % (i + 1, x, y)
            # recorded groups of the OPEN rules concatenate to the line (for lines no earlier rule could have touched)
            for ri, names in ((3, ('ws', 'pre', 'convert', 'post')), (4, ('ws', 'open', 'args1', 'delim', 'newunit_key', 'newunit_val', 'args2'))):
                for ln, es in out['info'][ri]:
                    x = a[ln - 1]
                    xl = x.lower()
                    if any(k in xl for k in TRIGGER_KWS[:6]) or (ri == 4 and 'convert=' in xl): continue
                    for e in es:
                        d = dict(e['g'])
                        cat = ''.join(d[k] or '' for k in names)
                        if x not in (cat, cat + '\n'):
                            return 'groups recorded for line %d do not concatenate to the line: %r vs %r' % (ln, cat, x)
        if not case['kind'].startswith('prog'):
            return None
        # ---- whole programs of the class
        if 'error' in out:
            return 'the program no longer parses after sanitisation (%s: %s)' % (out['error'], out.get('msg', '')[:120])
        tk = ftok(src)
        exp_raw = collections.Counter([raw for _q, raw in tk['lits']] + code_macros(tk['code']))
        got_raw = collections.Counter(out['lits'])
        for g in out['gens']:
            got_raw.update(raw for _q, raw in ftok(g['text'])['lits'])
        if exp_raw != got_raw:
            return 'string literals in the IR differ from the source: missing %r, unexpected %r' % (sorted((exp_raw - got_raw).elements()), sorted((got_raw - exp_raw).elements()))
        exp_c = collections.Counter(tk['comments'])
        got_c = collections.Counter(c.strip() for c in out['comments'] if c.strip())
        if exp_c != got_c:
            return 'comments in the IR differ from the source: missing %r, unexpected %r' % (sorted((exp_c - got_c).elements()), sorted((got_c - exp_c).elements()))
        fk = ftok(out['fgen'])
        exp_v = collections.Counter([unesc(q, raw) for q, raw in tk['lits']] + code_macros(tk['code']))
        got_v = collections.Counter(unesc(q, raw) for q, raw in fk['lits'])
        if exp_v != got_v:
            return 'string literals in the generated code differ from the source: missing %r, unexpected %r' % (sorted((exp_v - got_v).elements()), sorted((got_v - exp_v).elements()))
        got_fc = collections.Counter(fk['comments'])
        if exp_c != got_fc:
            return 'comments in the generated code differ from the source: missing %r, unexpected %r' % (sorted((exp_c - got_fc).elements()), sorted((got_fc - exp_c).elements()))
        ei, gi = idents(tk['code']), idents(fk['code'])
        if not ei <= gi:
            return 'identifiers of the source are missing from the generated code: %r (generated code has %r)' % (sorted(ei - gi), sorted(gi - ei))
        eo, go = open_stmts(src), open_stmts(out['fgen'])
        if eo != go:
            return 'OPEN statements differ: source %r, generated code %r' % (eo, go)
        if case['api'] == 'file':
            # fparser drops blanks between '#' and the directive name
            ed = ['#' + d.strip()[1:].lstrip() for d in tk['directives'] if d.strip().startswith('#')]
            gd = ['#' + d.strip()[1:].lstrip() for d in fk['directives'] if d.strip().startswith('#')]
            if ed != gd:
                return 'preprocessor directives differ: source %r, generated code %r' % (ed, gd)
        if 'run' in out:
            ok1, o1, ok2, o2 = out['run']
            if not ok1: return None          # the generated original is not a valid program for gfortran: no verdict
            if not ok2: return 'the regenerated routine does not compile/run under gfortran: %s' % o2[-300:]
            if o1 != o2: return 'program output differs: original %r, regenerated %r' % (o1[-200:], o2[-200:])
        return None

    def nontrivial_key(self, case, out):
        if 'out' in out and out['out'] != case['src']: return case['src']
        if case['kind'].startswith('prog') and any(g.get('fired') for g in out.get('gens', [])): return case['src']
        return None

    # ---------------------------------------------------------------- search: wrap disagreeing lines into programs
    def search(self, rng, bad_cases):
        seen = set()
        pre = 'subroutine s(u, f)\n  implicit none\n  integer :: u, k, lun, ios\n  character(len=64) :: f, c\n'
        post = 'end subroutine s\n'
        def wrap(body):
            return {'kind': 'prog', 'api': 'sub', 'src': pre + body + post}
        def well_quoted(line):
            q = None
            for ch in line:
                if q is None and ch in '\'"': q = ch
                elif q is not None and ch == q: q = None
            return q is None
        for c in bad_cases:
            for line in c['src'].splitlines():
                line = line.strip()
                if not line or line in seen or len(line) > 100 or not well_quoted(line): continue
                if any(ord(ch) < 32 for ch in line): continue      # the frontend expands tabs in comments; not our subject
                seen.add(line)
                yield wrap('  c = \'' + line.replace("'", "''").lower() + '\'\n')
                yield wrap('  ! ' + line.lower() + '\n')
                if line.lower().startswith('open') and line.endswith(')') and ';' not in line and '!' not in line:
                    yield wrap('  ' + line + '\n')
        for _ in range(150):
            yield gen_prog(rng)

    def show_model(self, case, out):
        return ['sanitize %s' % coq(S(case['src']))]

PROP = C05
