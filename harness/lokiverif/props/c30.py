"""C30 — array-notation resolution and index normalisation preserve behaviour.

JSON forms used here (on top of minif's statements S and bridge_expr's expression structures E):
  vidx   = ['s', E] | ['r', Elo|None, Ehi|None, Est|None]
  vexpr  = ['vs', E] | ['vref', a, [vidx..]] | ['vsum', p, v..] | ['vprod', p, v..] | ['vquot', p, v, v] | ['vcall', f, v..]
  vstmt  = ['plain', S] | ['vassign', a, [vidx..], vexpr] | ['vdo', v, Elo, Ehi, Est|None, [vstmt..]]
         | ['vif', E, [vstmt..], [vstmt..]] | ['where', [op, vexpr, vexpr], [vstmt..], [vstmt..]]
  decls  = {array: [['size', E] | ['range', Elo, Ehi], ..]}
A unit is minif's unit with a V body ('vbody')."""
import itertools, json, copy
from ..framework import Property
from ..coqlit import coq, C, Nat, Some, Raw
from .. import minif as M
from .. import bridge_expr as B
from ..evalz import tdiv

# =============================================================================================== printing
def fvidx(d):
    if d[0] == 's': return M.fexpr(d[1])
    lo, hi, st = d[1], d[2], d[3]
    t = (M.fexpr(lo) if lo is not None else '') + ':' + (M.fexpr(hi) if hi is not None else '')
    if st is not None: t += ':' + M.fexpr(st)
    return t

def fvexpr(e):
    k = e[0]
    if k == 'vs': return M.fexpr(e[1])
    if k == 'vref': return e[1] if not e[2] else '%s(%s)' % (e[1], ', '.join(fvidx(d) for d in e[2]))
    if k == 'vsum': return '(' + ' + '.join(fvexpr(c) for c in e[2:]) + ')'
    if k == 'vprod': return '(' + ' * '.join(fvexpr(c) for c in e[2:]) + ')'
    if k == 'vquot': return '(%s / %s)' % (fvexpr(e[2]), fvexpr(e[3]))
    if k == 'vcall': return '%s(%s)' % (e[1], ', '.join(fvexpr(c) for c in e[2:]))
    raise ValueError(e)

def fvstmts(ss, ind=2):
    out, pad = [], ' ' * ind
    for s in ss:
        k = s[0]
        if k == 'plain': out += M.fstmts([s[1]], ind)
        elif k == 'vassign':
            lhs = s[1] if not s[2] else '%s(%s)' % (s[1], ', '.join(fvidx(d) for d in s[2]))
            out.append('%s%s = %s' % (pad, lhs, fvexpr(s[3])))
        elif k == 'vdo':
            hdr = '%sdo %s = %s, %s' % (pad, s[1], M.fexpr(s[2]), M.fexpr(s[3]))
            if s[4] is not None: hdr += ', %s' % M.fexpr(s[4])
            out.append(hdr); out += fvstmts(s[5], ind + 2); out.append(pad + 'end do')
        elif k == 'vif':
            out.append('%sif (%s) then' % (pad, M.fexpr(s[1]))); out += fvstmts(s[2], ind + 2)
            if s[3]: out.append(pad + 'else'); out += fvstmts(s[3], ind + 2)
            out.append(pad + 'end if')
        elif k == 'where':
            op, l, r = s[1]
            out.append('%swhere (%s %s %s)' % (pad, fvexpr(l), {'!=': '/='}.get(op, op), fvexpr(r)))
            out += fvstmts(s[2], ind + 2)
            if s[3]: out.append(pad + 'elsewhere'); out += fvstmts(s[3], ind + 2)
            out.append(pad + 'end where')
        else: raise ValueError(s)
    return out

def vunit_to_fortran(u):
    v = dict(u); v['body'] = []
    lines = M.unit_to_fortran(v).split('\n')
    return '\n'.join(lines[:-1] + fvstmts(u['vbody']) + lines[-1:])

# =============================================================================================== Loki IR -> V JSON
def _has_section(e):
    """does the Loki expression contain an array section (RangeIndex subscript) or a bare array with a shape?"""
    from loki.expression import symbols as sym
    from loki.ir import FindVariables
    for v in FindVariables(unique=False).visit(e):
        if isinstance(v, sym.Array):
            if not v.dimensions and v.shape: return True
            if any(isinstance(d, sym.RangeIndex) for d in v.dimensions): return True
    return False

def vidx_structure(d):
    from loki.expression import symbols as sym
    if isinstance(d, sym.RangeIndex):
        return ['r'] + [None if c is None else B.structure(c) for c in (d.start, d.stop, d.step)]
    return ['s', B.structure(d)]

def vexpr_structure(e):
    import pymbolic.primitives as pmbl
    from loki.expression import symbols as sym, operations as op
    if not _has_section(e): return ['vs', B.structure(e)]
    if isinstance(e, sym.Array): return ['vref', e.name.lower(), [vidx_structure(d) for d in e.dimensions]]
    if isinstance(e, pmbl.Sum): return ['vsum', isinstance(e, op.ParenthesisedAdd)] + [vexpr_structure(c) for c in e.children]
    if isinstance(e, pmbl.Product): return ['vprod', isinstance(e, op.ParenthesisedMul)] + [vexpr_structure(c) for c in e.children]
    if isinstance(e, pmbl.Quotient): return ['vquot', isinstance(e, op.ParenthesisedDiv), vexpr_structure(e.numerator), vexpr_structure(e.denominator)]
    if isinstance(e, sym.InlineCall) and not e.kw_parameters:
        return ['vcall', str(e.function.name).lower()] + [vexpr_structure(a) for a in e.parameters]
    raise M.Unsupported('section expression ' + type(e).__name__)

def v_from_loki(nodes):
    from loki import ir
    from loki.expression import symbols as sym
    out = []
    for n in nodes:
        if isinstance(n, (ir.Comment, ir.CommentBlock, ir.Pragma, ir.VariableDeclaration, ir.ProcedureDeclaration, ir.Import)):
            continue
        if isinstance(n, ir.Section): out += v_from_loki(n.body); continue
        if isinstance(n, ir.Assignment):
            lhs = n.lhs
            if isinstance(lhs, sym.Array) and (_has_section(lhs) or _has_section(n.rhs)):
                out.append(['vassign', lhs.name.lower(), [vidx_structure(d) for d in lhs.dimensions], vexpr_structure(n.rhs)])
            else:
                out.append(['plain', M.from_loki((n,))[0]])
        elif isinstance(n, ir.Loop):
            b = n.bounds
            out.append(['vdo', n.variable.name.lower(), B.structure(b.start), B.structure(b.stop),
                        None if b.step is None else B.structure(b.step), v_from_loki(n.body)])
        elif isinstance(n, ir.Conditional):
            out.append(['vif', B.structure(n.condition), v_from_loki(n.body), v_from_loki(n.else_body or ())])
        elif isinstance(n, ir.MaskedStatement):
            if len(n.conditions) != 1: raise M.Unsupported('multi-clause where')
            c = n.conditions[0]
            out.append(['where', [c.operator, vexpr_structure(c.left), vexpr_structure(c.right)],
                        v_from_loki(n.bodies[0]), v_from_loki(n.default or ())])
        else:
            out.append(['plain', M.from_loki((n,))[0]])
    return out

def decls_of(routine):
    from loki.expression import symbols as sym
    ds = {}
    for v in routine.variables:
        if isinstance(v, sym.Array) and v.shape:
            sh = []
            for s in v.shape:
                if isinstance(s, sym.RangeIndex):
                    if s.lower is None or s.upper is None or s.step is not None: sh.append(['?', str(s)])
                    else: sh.append(['range', B.structure(s.lower), B.structure(s.upper)])
                else:
                    st = B.structure(s)
                    sh.append(['size', st] if '?' not in json.dumps(st) else ['?', str(s)])
            ds[v.name.lower()] = sh
    return ds

# =============================================================================================== V JSON -> Coq
MS = B.model_of_structure
def opt(e): return None if e is None else Some(MS(e))
def vidx_model(d):
    return C('IScalar', MS(d[1])) if d[0] == 's' else C('IRange', opt(d[1]), opt(d[2]), opt(d[3]))
def vexpr_model(e):
    k = e[0]
    if k == 'vs': return C('VScal', MS(e[1]))
    if k == 'vref': return C('VRef', e[1], [vidx_model(d) for d in e[2]])
    if k == 'vsum': return C('VSum', e[1], [vexpr_model(c) for c in e[2:]])
    if k == 'vprod': return C('VProd', e[1], [vexpr_model(c) for c in e[2:]])
    if k == 'vquot': return C('VQuot', e[1], vexpr_model(e[2]), vexpr_model(e[3]))
    if k == 'vcall': return C('VCall', e[1], [vexpr_model(c) for c in e[2:]])
    raise ValueError(e)
def vstmt_model(s):
    k = s[0]
    if k == 'plain': return C('VPlain', M.stmt_model(s[1]))
    if k == 'vassign': return C('VAssign', s[1], [vidx_model(d) for d in s[2]], vexpr_model(s[3]))
    if k == 'vdo': return C('VDo', s[1], MS(s[2]), MS(s[3]), opt(s[4]), [vstmt_model(x) for x in s[5]])
    if k == 'vif': return C('VIf', MS(s[1]), [vstmt_model(x) for x in s[2]], [vstmt_model(x) for x in s[3]])
    if k == 'where':
        op, l, r = s[1]
        return C('VWhere', C('Build_vcond', C(B.CMP[op]), vexpr_model(l), vexpr_model(r)),
                 [vstmt_model(x) for x in s[2]], [vstmt_model(x) for x in s[3]])
    raise ValueError(s)
def decls_model(ds):
    out = []
    for a, sh in ds.items():
        l = []
        for d in sh:
            if d[0] == 'size': l.append(C('DSize', MS(d[1])))
            elif d[0] == 'range': l.append(C('DRange', MS(d[1]), MS(d[2])))
            else: raise ValueError('declared shape not representable: %r' % (d,))
        out.append((a, l))
    return out

# =============================================================================================== reference semantics
class Stuck(M.Stuck):
    pass

def decl_bounds(ds, a, st):
    """[(lo, hi)] of a declared array, evaluated in the store"""
    out = []
    for d in ds[a]:
        if d[0] == 'size': out.append((1, M._ev(d[1], st)))
        elif d[0] == 'range': out.append((M._ev(d[1], st), M._ev(d[2], st)))
        else: raise Stuck('shape')
    return out

def q_idx(ds, a, idx, st):
    """qualified subscript list: ('s', value-expr) / ('r', lo, hi, step) as VALUES evaluated in st (bounds/strides once)"""
    sh = decl_bounds(ds, a, st) if a in ds else None
    if not idx:
        if sh is None: raise Stuck('bare reference to undeclared array')
        idx = [['r', None, None, None]] * len(sh)
    out = []
    for p, d in enumerate(idx):
        if d[0] == 's': out.append(('s', d[1])); continue
        lo, hi, stp = d[1], d[2], d[3]
        l = M._ev(lo, st) if lo is not None else (sh[p][0] if sh else None)
        h = M._ev(hi, st) if hi is not None else (sh[p][1] if sh else None)
        s_ = M._ev(stp, st) if stp is not None else 1
        if l is None or h is None: raise Stuck('unbounded range')
        if s_ == 0: raise Stuck('zero stride')
        out.append(('r', l, h, s_))
    return out

def ext_of(q):
    return [max(0, tdiv(d[2] - d[1] + d[3], d[3])) for d in q if d[0] == 'r']

def space(ns):
    """element offsets, FIRST dimension fastest"""
    return [tuple(reversed(t)) for t in itertools.product(*[range(n) for n in reversed(ns)])]

def idx_at(q, J, st, ds=None, a=None, check=True):
    out, r = [], 0
    for d in q:
        if d[0] == 's': out.append(M._ev(d[1], st))
        else: out.append(d[1] + J[r] * d[3]); r += 1
    t = tuple(out)
    if check and ds is not None and a in ds:
        for v, (l, h) in zip(t, decl_bounds(ds, a, st)):
            if not l <= v <= h: raise Stuck('subscript out of declared bounds')
    return t

def v_eval(e, J, st, ds, ns):
    k = e[0]
    if k == 'vs': return M._ev(e[1], st)
    if k == 'vref':
        q = q_idx(ds, e[1], e[2], st)
        m = ext_of(q)
        if any(d[0] == 'r' for d in q):
            if m != list(ns): raise Stuck('nonconformable')
            i = idx_at(q, J, st, ds, e[1])
        else:
            i = idx_at(q, (), st, ds, e[1])
        arr = st.get(e[1], {})
        if not isinstance(arr, dict): raise Stuck('scalar as array')
        return arr.get(i, 0)
    if k == 'vsum': return sum(v_eval(c, J, st, ds, ns) for c in e[2:])
    if k == 'vprod':
        r = 1
        for c in e[2:]: r *= v_eval(c, J, st, ds, ns)
        return r
    if k == 'vquot':
        a, b = v_eval(e[2], J, st, ds, ns), v_eval(e[3], J, st, ds, ns)
        if b == 0: raise Stuck('div0')
        return tdiv(a, b)
    if k == 'vcall':
        args = [v_eval(c, J, st, ds, ns) for c in e[2:]]
        return M._ev(['call', e[1]] + [['int', x] for x in args], {})
    raise ValueError(e)

def v_assign(a, idx, rhs, st, ds, mask=None):
    """Fortran array assignment: everything on the right (and the subscripts on the left) is evaluated before any store"""
    q = q_idx(ds, a, idx, st)
    ns = ext_of(q)
    todo = []
    for n_, J in enumerate(space(ns)):
        if mask is not None and not mask[n_]: continue
        todo.append((idx_at(q, J, st, ds, a), v_eval(rhs, J, st, ds, ns)))
    st.setdefault(a, {})
    for i, x in todo: st[a][i] = x

def v_interp(ss, st, ds, budget=None):
    budget = budget if budget is not None else [100000]
    for s in ss:
        budget[0] -= 1
        if budget[0] < 0: raise Stuck('budget')
        k = s[0]
        if k == 'plain': M.interp([s[1]], st)
        elif k == 'vassign': v_assign(s[1], s[2], s[3], st, ds)
        elif k == 'vdo':
            a, b = M._ev(s[2], st), M._ev(s[3], st)
            d = 1 if s[4] is None else M._ev(s[4], st)
            if d == 0: raise Stuck('zero step')
            i = a
            for _ in range(max(0, tdiv(b - a + d, d))):
                st[s[1]] = i; v_interp(s[5], st, ds, budget); i += d
            st[s[1]] = i
        elif k == 'vif':
            v_interp(s[2] if M._evb(s[1], st) else s[3], st, ds, budget)
        elif k == 'where':
            op, l, r = s[1]
            # shape of the mask: the extents of its first section reference
            ns = None
            def find(e):
                nonlocal ns
                if e[0] == 'vref':
                    q = q_idx(ds, e[1], e[2], st)
                    if any(d[0] == 'r' for d in q) and ns is None: ns = ext_of(q)
                elif e[0] != 'vs':
                    for c in e[2:]:
                        if isinstance(c, list): find(c)
            find(l); find(r)
            if ns is None: raise Stuck('scalar mask')
            cmpf = {'==': lambda x, y: x == y, '!=': lambda x, y: x != y, '<': lambda x, y: x < y,
                    '<=': lambda x, y: x <= y, '>': lambda x, y: x > y, '>=': lambda x, y: x >= y}[op]
            mask = [cmpf(v_eval(l, J, st, ds, ns), v_eval(r, J, st, ds, ns)) for J in space(ns)]
            for b in s[2]:
                if b[0] != 'vassign': raise Stuck('where body')
                if ext_of(q_idx(ds, b[1], b[2], st)) != ns: raise Stuck('nonconformable')
                v_assign(b[1], b[2], b[3], st, ds, mask)
            for b in s[3]:
                if b[0] != 'vassign': raise Stuck('where body')
                if ext_of(q_idx(ds, b[1], b[2], st)) != ns: raise Stuck('nonconformable')
                v_assign(b[1], b[2], b[3], st, ds, [not x for x in mask])
        else: raise ValueError(s)
    return st

# =============================================================================================== running the real code
def _parse(src):
    from loki import Subroutine
    from loki.frontend import FP
    return Subroutine.from_source(src, frontend=FP)

def _flat(nodes):
    out = []
    for n in nodes:
        if isinstance(n, (tuple, list)): out += _flat(n)
        else: out.append(n)
    return out

def from_loki_nested(nodes):
    """minif.from_loki, but tolerant of the nested tuples that the in-place transformer leaves in bodies"""
    from loki import ir
    out = []
    for n in _flat(nodes):
        if isinstance(n, ir.Section): out += from_loki_nested(n.body)
        elif isinstance(n, ir.Loop):
            b = n.bounds
            out.append(['do', n.variable.name.lower(), B.structure(b.start), B.structure(b.stop),
                        None if b.step is None else B.structure(b.step), from_loki_nested(n.body)])
        elif isinstance(n, ir.Conditional):
            out.append(['if', B.structure(n.condition), from_loki_nested(n.body), from_loki_nested(n.else_body or ())])
        elif isinstance(n, ir.MaskedStatement): raise M.Unsupported('MaskedStatement')
        else: out += M.from_loki((n,))
    return out

def _stmts_or_malformed(routine):
    try:
        out = from_loki_nested(routine.body.body)
    except (M.Unsupported, AttributeError) as e:     # AttributeError: minif's fallthrough branch names ir.Intrinsic
        return {'malformed': 'unsupported node ' + str(e)[:80]}
    if '"?"' in json.dumps(out):
        return {'malformed': 'section or missing loop bound left in the output'}
    return {'stmts': out}

def run_resolve(unit, want_fgen=False):
    from loki import fgen
    from loki.transformations.array_indexing import resolve_vector_notation
    src = vunit_to_fortran(unit)
    r = _parse(src)
    out = {'parsed': v_from_loki(r.body.body), 'decls': decls_of(r)}
    before = [v.name.lower() for v in r.variables]
    try:
        resolve_vector_notation(r)
    except Exception as e:       # pylint: disable=broad-except
        out['result'] = {'error': type(e).__name__}
        return out
    out['result'] = _stmts_or_malformed(r)
    out['newvars'] = [v.name.lower() for v in r.variables if v.name.lower() not in before]
    if want_fgen:
        try: out['fgen'] = fgen(r)
        except Exception as e: out['fgen'] = None   # pylint: disable=broad-except
    return out

def run_explicit(unit):
    from loki.transformations.array_indexing import add_explicit_array_dimensions, remove_explicit_array_dimensions
    src = vunit_to_fortran(unit)
    r = _parse(src)
    out = {'parsed': v_from_loki(r.body.body), 'decls': decls_of(r)}
    r1 = r.clone(); add_explicit_array_dimensions(r1); out['added'] = v_from_loki(_flat(r1.body.body))
    r2 = r.clone(); remove_explicit_array_dimensions(r2); out['removed'] = v_from_loki(_flat(r2.body.body))
    r3 = r1.clone(); remove_explicit_array_dimensions(r3); out['add_then_remove'] = v_from_loki(_flat(r3.body.body))
    return out

# =============================================================================================== units, stores, generators
SCALARS = ['n', 'm', 'k', 'l']

def header(u):
    """declarations with 'a(10)' (size style, lo None), 'a(lo:hi)' and symbolic bounds"""
    args = u['args']
    lines = ['subroutine %s(%s)' % (u['name'], ', '.join(args)), '  implicit none']
    for x in u['scalars']:
        lines.append('  integer%s :: %s' % (', intent(inout)' if x in args else '', x))
    def b(x): return M.fexpr(x) if isinstance(x, list) else str(x)
    for a, dims in u['arrays'].items():
        spec = ', '.join(b(h) if l is None else '%s:%s' % (b(l), b(h)) for l, h in dims)
        lines.append('  integer%s :: %s(%s)' % (', intent(inout)' if a in args else '', a, spec))
    return lines

def vunit_to_fortran(u):      # noqa: F811  (replaces the first version: own header)
    return '\n'.join(header(u) + fvstmts(u['vbody']) + ['end subroutine %s' % u['name']])

def unit_to_fortran_plain(u):
    return '\n'.join(header(u) + M.fstmts(u['body']) + ['end subroutine %s' % u['name']])

def bounds_in(u, st):
    out = {}
    for a, dims in u['arrays'].items():
        out[a] = [((1 if l is None else (M._ev(l, st) if isinstance(l, list) else l)),
                   (M._ev(h, st) if isinstance(h, list) else h)) for l, h in dims]
    return out

def gen_store(u, seed, nrange=(1, 4)):
    import random
    rng = random.Random(seed)
    st = {'n': rng.randint(*nrange), 'm': rng.randint(*nrange), 'k': rng.randint(1, 4), 'l': rng.randint(1, 4)}
    if rng.random() < 0.15: st['n'] = 0
    for x in u['scalars']: st.setdefault(x, rng.randint(-3, 5))
    for a, bs in bounds_in(u, st).items():
        st[a] = {idx: rng.randint(-4, 9) for idx in itertools.product(*[range(l, h + 1) for l, h in bs])}
    return st

def lit(v): return ['int', v]
def var(x): return ['var', x]
def add(e, c):
    if c == 0: return e
    return ['sum', False, e, lit(c)] if c > 0 else ['sum', False, e, ['prod', False, ['py', -1], lit(-c)]]

class Gen:
    """class-respecting generator of section assignments; every subscript stays inside the declared bounds for all stores"""
    def __init__(self, rng):
        self.rng = rng
        r = rng
        def b1(): return r.choice([1, 1, 1, 0, -1, 2, -2])
        self.arr = {}
        for a in ('a', 'b', 'e'):
            lo = b1(); self.arr[a] = [[lo, lo + 9]]
        e1, e2 = r.choice([4, 5]), r.choice([5, 6])
        for a in ('c', 'd'):
            l1, l2 = b1(), b1(); self.arr[a] = [[l1, l1 + e1 - 1], [l2, l2 + e2 - 1]]
        # size-style declarations (lo None) for arrays whose lower bound is 1
        self.decl = {a: [[None if (l == 1 and r.random() < 0.6) else l, h] for l, h in d] for a, d in self.arr.items()}
        self.nmax = 4

    def unit(self, vbody):
        args = SCALARS + sorted(self.arr)
        return {'name': 'lv_s', 'args': args, 'scalars': list(SCALARS), 'arrays': copy.deepcopy(self.decl), 'vbody': vbody}

    # a range with `cnt` elements (cnt may be the symbol 'n') and stride st inside dimension (lo, hi); returns vidx
    def rng_idx(self, lo, hi, cnt, st, explicit_step=None):
        r = self.rng
        c = self.nmax if cnt == 'n' else cnt
        span = (max(c, 1) - 1) * abs(st)
        if st > 0: start = r.randint(lo, hi - span)
        else: start = r.randint(lo + span, hi)
        if cnt == 'n':
            assert st == 1
            lo_e, hi_e = lit(start), add(var('n'), start - 1)
        elif cnt == 0:
            lo_e, hi_e = lit(start), lit(start - st)
        else:
            end = start + (cnt - 1) * st
            if abs(st) > 1 and r.random() < 0.3: end += (1 if st > 0 else -1) * r.randint(0, abs(st) - 1)
            if not lo <= end <= hi: end = start + (cnt - 1) * st
            lo_e, hi_e = lit(start), lit(end)
        stp = None if (st == 1 and not explicit_step) else lit(st)
        return ['r', lo_e, hi_e, stp]

    def scal(self, depth=1):
        r = self.rng
        c = r.random()
        if depth <= 0 or c < 0.5:
            return r.choice([lit(r.randint(0, 5)), var('k'), var('m'), var('n'), lit(r.randint(-3, -1))])
        if c < 0.8: return ['sum', False, self.scal(depth - 1), self.scal(depth - 1)]
        return ['prod', False, self.scal(depth - 1), self.scal(depth - 1)]

    def elem(self, a):
        """a scalar element reference a(i[,j]) with literal in-bounds subscripts"""
        return ['call', a] + [lit(self.rng.randint(l, h)) for l, h in self.arr[a]]

    def fits(self, l, h, c, s):
        c = self.nmax if c == 'n' else c
        return (max(c, 1) - 1) * abs(s) <= h - l

    def sec_ref(self, exclude, cnts, sts, allow2d=True):
        """a section reference conformable with extents `cnts` (list) and strides `sts`, on an array not in `exclude`
        (a scalar element if no array is large enough)"""
        r = self.rng
        rank = len(cnts)
        opts = []
        for a, dims in self.arr.items():
            if a in exclude: continue
            if len(dims) == rank:
                if all(self.fits(l, h, c, s) for (l, h), c, s in zip(dims, cnts, sts)): opts.append((a, None))
            elif allow2d and len(dims) == rank + 1:
                for sp in range(len(dims)):
                    rest = [d for p, d in enumerate(dims) if p != sp]
                    if all(self.fits(l, h, c, s) for (l, h), c, s in zip(rest, cnts, sts)): opts.append((a, sp))
        if not opts: return ['vs', self.elem(r.choice([x for x in self.arr if x not in exclude]))]
        a, sp = r.choice(opts)
        dims = self.arr[a]
        idx, j = [], 0
        for p, (l, h) in enumerate(dims):
            if p == sp: idx.append(['s', lit(r.randint(l, h))])
            else: idx.append(self.rng_idx(l, h, cnts[j], sts[j], r.random() < 0.15)); j += 1
        return ['vref', a, idx]

    def rhs(self, lhs, cnts, sts, depth=2, same_ok=True):
        r = self.rng
        a = lhs[1]
        def leaf():
            c = r.random()
            if c < 0.45: return self.sec_ref({a}, cnts, sts)
            if c < 0.55 and same_ok: return ['vref', a, copy.deepcopy(lhs[2])]
            if c < 0.7: return ['vs', self.elem(r.choice([x for x in self.arr if x != a]))]
            return ['vs', self.scal(1)]
        def go(d):
            c = r.random()
            if d <= 0 or c < 0.3: return leaf()
            if c < 0.65: return ['vsum', True, go(d - 1), go(d - 1)]
            if c < 0.85: return ['vprod', True, go(d - 1), go(d - 1)]
            if c < 0.93: return ['vcall', r.choice(['max', 'min']), go(d - 1), go(d - 1)]
            return ['vcall', 'mod', go(d - 1), ['vs', lit(r.randint(2, 5))]]
        e = go(depth)
        return e

    def cnt_st(self, sym_ok=True):
        r = self.rng
        st = r.choice([1, 1, 1, 1, 2, 3, -1, -2])
        if st == 1 and sym_ok and r.random() < 0.3: return 'n', 1
        maxc = {1: 5, 2: 4, 3: 3}[abs(st)]
        return (0 if r.random() < 0.06 else r.randint(1, maxc)), st

    def assign1d(self):
        r = self.rng
        a = r.choice(['a', 'b', 'e'])
        cnt, st = self.cnt_st()
        (l, h), = self.arr[a]
        lhs = ['vassign', a, [self.rng_idx(l, h, cnt, st, r.random() < 0.15)]]
        return lhs + [self.rhs(lhs, [cnt], [st])]

    def assign2d(self):
        r = self.rng
        a = r.choice(['c', 'd'])
        dims = self.arr[a]
        mode = r.random()
        if mode < 0.55:       # both dimensions are ranges
            cs = [self.cnt_st(False) for _ in dims]
            cs = [(min(c, h - l + 1) if abs(s) == 1 else min(c, (h - l) // abs(s) + 1), s) for (c, s), (l, h) in zip(cs, dims)]
            idx = [self.rng_idx(l, h, c, s) for (l, h), (c, s) in zip(dims, cs)]
            lhs = ['vassign', a, idx]
            return lhs + [self.rhs(lhs, [c for c, _ in cs], [s for _, s in cs], depth=1)]
        sp = r.randrange(2)   # one scalar subscript, one range
        c, s = self.cnt_st(False)
        l, h = dims[1 - sp]
        c = min(c, (h - l) // abs(s) + 1)
        idx = [None, None]
        idx[sp] = ['s', lit(r.randint(*dims[sp]))]
        idx[1 - sp] = self.rng_idx(l, h, c, s)
        lhs = ['vassign', a, idx]
        return lhs + [self.rhs(lhs, [c], [s])]

    def whole(self):
        r = self.rng
        a = r.choice(sorted(self.arr))
        colon = lambda x: [['r', None, None, None]] * len(self.arr[x]) if r.random() < 0.5 else []
        others = [x for x in self.arr if x != a and len(self.arr[x]) == len(self.arr[a])]
        c = r.random()
        if c < 0.3: rhs = ['vs', self.scal(1)]
        elif c < 0.6: rhs = ['vref', r.choice(others), colon(others[0])]
        else: rhs = ['vsum', True, ['vref', r.choice(others), colon(others[0])], ['vs', self.scal(0)]]
        return ['vassign', a, colon(a), rhs]

    def partial(self):
        """c(s, :) = d(s', :) + e   /   c(:, s) = k : ':' in some positions only (must survive remove_explicit_array_dimensions)"""
        r = self.rng
        a, b = r.choice([('c', 'd'), ('d', 'c')])
        sp = r.randrange(2)
        def idx(x):
            out = [['r', None, None, None], ['r', None, None, None]]
            out[sp] = ['s', lit(r.randint(*self.arr[x][sp]))]
            return out
        c = r.random()
        if c < 0.3: rhs = ['vs', self.scal(1)]
        elif c < 0.7: rhs = ['vref', b, idx(b)]
        else: rhs = ['vsum', True, ['vref', b, idx(b)], ['vs', self.scal(0)]]
        return ['vassign', a, idx(a), rhs]

    def in_loop(self):
        """do k = lo, lo+2: c(k, R) = d(k+off, R') + k   (R different from the loop's own range)"""
        r = self.rng
        a, b = r.choice([('c', 'd'), ('d', 'c')])
        (l1, h1), (l2, h2) = self.arr[a]
        (m1, _), (m2, n2) = self.arr[b]
        lo = r.randint(l1, h1 - 2)
        c, s = r.randint(1, 4), r.choice([1, 1, 2])
        c = min(c, (h2 - l2) // s + 1)
        while True:
            ri = self.rng_idx(l2, h2, c, s)
            if not (ri[1] == lit(lo) and ri[2] == lit(lo + 2)): break
        lhs = ['vassign', a, [['s', var('k')], ri]]
        cb = min(c, (n2 - m2) // s + 1)
        if cb == c:
            rhs = ['vsum', True, ['vref', b, [['s', add(var('k'), m1 - l1)], self.rng_idx(m2, n2, c, s)]], ['vs', var('k')]]
        else:
            rhs = ['vs', add(var('k'), 1)]
        return ['vdo', 'k', lit(lo), lit(lo + 2), None, [lhs + [rhs]]]

    def reuse(self):
        """an explicit loop over l with the same range as a later (or earlier) section: Loki reuses l as loop variable"""
        r = self.rng
        a = r.choice(['a', 'b', 'e'])
        (lo, hi), = self.arr[a]
        cnt, st = self.cnt_st()
        ri = self.rng_idx(lo, hi, cnt, st)
        ri = [x for x in ri]
        other = r.choice([x for x in ('a', 'b', 'e') if x != a])
        (ol, oh), = self.arr[other]
        loop = ['vdo', 'l', ri[1], ri[2], ri[3], [['plain', ['assign', 'm', ['sum', False, var('m'), lit(1)]]]]]
        lhs = ['vassign', a, [copy.deepcopy(ri)]]
        rhs = ['vsum', True, self.sec_ref({a}, [cnt], [st], allow2d=False), ['vs', r.choice([var('k'), var('n'), lit(2)])]]
        return [loop, lhs + [rhs]] if r.random() < 0.7 else [lhs + [rhs], loop]

    def reuse2d(self):
        """two sibling DO loops that re-use ONE loop variable (l) with DIFFERENT bounds, and a 2-D section assignment whose two
        ranges are exactly those loop ranges (explicit, or ':'/bare name with loops over the declared bounds).  Loki maps the
        first range to l and must synthesize a fresh variable for the second (the guard in _map_ranges_to_indices is on the
        VARIABLE, not on the range).  Variant: two different loop variables (l and k)."""
        r = self.rng
        a, b = r.choice([('c', 'd'), ('d', 'c')])
        dims = self.arr[a]
        whole = r.random() < 0.35 and all(l >= 0 for l, _ in dims)
        if whole:
            rs = [['r', lit(l), lit(h), None] for l, h in dims]
            form = r.choice(['colon', 'bare'])
            lhs_idx = [['r', None, None, None]] * 2 if form == 'colon' else []
            c = r.random()
            bidx = ([['r', None, None, None]] * 2 if r.random() < 0.5 else [])
            rhs = ['vs', r.choice([var('n'), lit(r.randint(0, 4))])] if c < 0.4 else ['vsum', True, ['vref', b, bidx], ['vs', r.choice([var('n'), lit(2)])]]
            cs, ss = None, None
        else:
            while True:
                cs = [r.randint(2, 4), r.randint(2, 4)]; ss = [r.choice([1, 1, 2]), r.choice([1, 1, 2])]
                cs = [min(c_, (h - l) // s_ + 1) for c_, s_, (l, h) in zip(cs, ss, dims)]
                rs = [self.rng_idx(l, h, c_, s_) for (l, h), c_, s_ in zip(dims, cs, ss)]
                if json.dumps(rs[0]) != json.dumps(rs[1]) and all(x[1][1] >= 0 for x in rs): break
            lhs_idx = copy.deepcopy(rs)
            ref = self.sec_ref({a}, cs, ss, allow2d=False)
            rhs = ['vsum', True, ref, ['vs', r.choice([var('n'), lit(2)])]] if r.random() < 0.7 else ['vprod', True, ref, ['vs', lit(2)]]
        two_vars = r.random() < 0.25
        v1, v2 = ('l', 'k') if two_vars else ('l', 'l')
        inc = ['plain', ['assign', 'm', ['sum', False, var('m'), lit(1)]]]
        loops = [['vdo', v1, rs[0][1], rs[0][2], rs[0][3], [copy.deepcopy(inc)]], ['vdo', v2, rs[1][1], rs[1][2], rs[1][3], [copy.deepcopy(inc)]]]
        if r.random() < 0.3: loops.reverse()
        st = ['vassign', a, lhs_idx, rhs]
        c = r.random()
        if c < 0.6: return loops + [st]
        if c < 0.8: return [st] + loops
        return [loops[0], st, loops[1]]

    def where(self):
        """WHERE whose mask and assignments all use the range of an explicit loop over l (the class in which Loki is right)"""
        r = self.rng
        a, b, c3 = r.sample(['a', 'b', 'e'], 3)
        cnt, st = self.cnt_st()
        # one common range that is in bounds for all three arrays
        lo = max(self.arr[x][0][0] for x in (a, b, c3)); hi = min(self.arr[x][0][1] for x in (a, b, c3))
        if cnt != 'n': cnt = min(cnt, 3, (hi - lo) // abs(st) + 1)
        ri = self.rng_idx(lo, hi, cnt, st)
        loop = ['vdo', 'l', ri[1], ri[2], ri[3], [['plain', ['assign', 'm', ['sum', False, var('m'), lit(1)]]]]]
        R = lambda: [copy.deepcopy(ri)]
        mask = [r.choice(['>', '<', '>=', '/='.replace('/=', '!='), '==']), ['vref', b, R()], ['vs', lit(r.randint(0, 3))]]
        cnts, sts = [cnt], [st]
        lhs = ['vassign', a, R()]
        body = [lhs + [['vsum', True, self.sec_ref({a, b}, cnts, sts, allow2d=False), ['vs', self.scal(0)]]]]
        ebody = []
        if r.random() < 0.5:
            ebody = [['vassign', a, R(), ['vs', self.scal(0)]]]
        return [loop, ['where', mask, body, ebody]]

    def lhs_ranges(self, s):
        """qualified ranges of the left-hand side of a vassign, as JSON keys"""
        idx = s[2] or [['r', None, None, None]] * len(self.arr[s[1]])
        out = []
        for d, (l, h) in zip(idx, self.arr[s[1]]):
            if d[0] == 'r':
                out.append(json.dumps([d[1] if d[1] is not None else lit(l), d[2] if d[2] is not None else lit(h), d[3]]))
        return out

    def body(self):
        """1-3 statement groups; a section whose range happens to equal the range of an explicit loop elsewhere in the body
        (Loki would then silently reuse that loop's variable) is only generated on purpose (reuse / where groups)"""
        r = self.rng
        def loop_keys(ss):
            ks = set()
            for s in ss:
                if s[0] == 'vdo': ks.add(json.dumps([s[2], s[3], s[4]])); ks |= loop_keys(s[5])
            return ks
        while True:
            free, out, groups = [], [], []
            if r.random() < 0.3: out.append(['plain', ['assign', 'k', lit(r.randint(1, 3))]])
            for _ in range(r.choice([1, 1, 2, 3])):
                c = r.random()
                if c < 0.35: g = [self.assign1d()]; free += g
                elif c < 0.55: g = [self.assign2d()]; free += g
                elif c < 0.64: g = [self.whole()]; free += g
                elif c < 0.7: g = [self.partial()]; free += g
                elif c < 0.78: g = [self.in_loop()]; free.append(g[0][5][0])
                elif c < 0.86: g = self.reuse()
                elif c < 0.93: g = self.reuse2d()
                else: g = self.where()
                out += g; groups.append(loop_keys(g))
            loops = set().union(*groups) if groups else set()
            # a range that is meant to match the loop(s) of its own group must not also be the range of a loop of another
            # group (the LAST loop with an equal range wins in Loki's loop_map, and its variable may be live in the statement)
            clash = any(groups[i] & groups[j] for i in range(len(groups)) for j in range(i + 1, len(groups)))
            if not clash and not any(k in loops for s in free for k in self.lhs_ranges(s)):
                return out

# =============================================================================================== index-normalising functions
INDEX_FNS = ('shift', 'invert', 'flatten', 'flatten0', 'normrange', 'normshape')

def run_index(unit, fn, want_fgen=False):
    from loki import fgen
    from loki.transformations import array_indexing as ai
    r = _parse(unit_to_fortran_plain(unit))
    out = {'parsed': from_loki_nested(r.body.body), 'decls': decls_of(r)}
    try:
        if fn == 'shift': ai.shift_to_zero_indexing(r)
        elif fn == 'invert': ai.invert_array_indices(r)
        elif fn == 'flatten': ai.flatten_arrays(r, order='F', start_index=1)
        elif fn == 'flatten0': ai.flatten_arrays(r, order='F', start_index=0)
        elif fn == 'normrange': ai.normalize_range_indexing(r)
        elif fn == 'normshape': ai.normalize_array_shape_and_access(r)
        else: raise ValueError(fn)
    except TypeError as e:
        out['result'] = {'error': 'TypeError'}
        return out
    out['result'] = _stmts_or_malformed(r)
    out['newdecls'] = decls_of(r)
    if want_fgen:
        try: out['fgen'] = fgen(r)
        except Exception: out['fgen'] = None   # pylint: disable=broad-except
    return out

def sorted_decls_model(ds): return decls_model({a: ds[a] for a in sorted(ds)})

def odecls_model(ds):
    out = []
    for a in sorted(ds):
        sh = ds[a]
        if any(d[0] == '?' for d in sh): out.append((a, None))
        else: out.append((a, Some(decls_model({a: sh})[0][1])))
    return out

def reindex(fn, bounds, a, idx):
    """where element idx of array a lives after the transformation (bounds: evaluated declared (lo,hi) per dimension)"""
    if fn == 'shift': return tuple(i - 1 for i in idx)
    if fn == 'invert': return tuple(reversed(idx))
    if fn == 'flatten':
        # the true column-major position (1-based) of the element in the flattened array
        pos, stride = 1, 1
        for i, (l, h) in zip(idx, bounds[a]):
            pos += (i - l) * stride; stride *= h - l + 1
        return (pos,)
    if fn == 'flatten0':
        # start_index=0 convention: the code's own formula i1 + n1*(i2 + n2*(...)) (injective on the box)
        ns = [h - l + 1 for l, h in bounds[a]]
        acc = idx[-1]
        for i, n in zip(reversed(idx[:-1]), reversed(ns[:-1])): acc = i + n * acc
        return (acc,)
    if fn == 'normrange': return tuple(idx)
    if fn == 'normshape': return tuple(i - l + 1 for i, (l, h) in zip(idx, bounds[a]))
    raise ValueError(fn)

def reindex_store(fn, u, st):
    b = bounds_in(u, st)
    out = {}
    for k, v in st.items():
        out[k] = {reindex(fn, b, k, i): x for i, x in v.items()} if isinstance(v, dict) else v
    return out

class IdxGen:
    """section-free routines over arrays with assorted declared bounds; every subscript is affine in the loop variables
    i (1..3), j (1..2) and literals, in bounds by construction, and contains no array reference (class flat_subs)"""
    def __init__(self, rng, fn):
        self.rng, self.fn = rng, fn
        r = rng
        self.fix = {'n': 6, 'm': 5}
        def dim(ext, sym=None):
            # returns (decl pair for printing, (lo, hi) numeric)
            if fn in ('flatten', 'flatten0'):
                if sym and r.random() < 0.4: return [None, var(sym)], (1, self.fix[sym])
                return [None, ext], (1, ext)
            c = r.random()
            if fn == 'normrange':
                if c < 0.4: return [1, ext], (1, ext)
                if c < 0.6: return [None, ext], (1, ext)
                lo = r.choice([0, -1, 2, 3]); return [lo, lo + ext - 1], (lo, lo + ext - 1)
            if c < 0.25: return [None, ext], (1, ext)
            if c < 0.35 and sym: return [None, var(sym)], (1, self.fix[sym])
            if c < 0.45: return [1, ext], (1, ext)
            if c < 0.55 and sym and fn == 'normshape': return [2, var(sym)], (2, self.fix[sym])
            lo = r.choice([0, 0, -1, -2, 2, 3]); return [lo, lo + ext - 1], (lo, lo + ext - 1)
        self.decl, self.bnd = {}, {}
        for a, exts, syms in (('x', [8], [None]), ('w', [7], ['n']), ('y', [6, 5], ['n', 'm']), ('z', [5, 5, 5], ['m', None, 'm'])):
            ds = [dim(e, s) for e, s in zip(exts, syms)]
            self.decl[a] = [d for d, _ in ds]; self.bnd[a] = [b for _, b in ds]

    def unit(self, body):
        args = ['n', 'm', 'k', 'l'] + sorted(self.decl)
        return {'name': 'lv_i', 'args': args, 'scalars': ['n', 'm', 'k', 'l', 'i', 'j'], 'arrays': copy.deepcopy(self.decl),
                'body': body, 'fix': dict(self.fix)}

    def sub(self, lo, hi, free):
        """an in-bounds subscript for a dimension lo..hi"""
        r = self.rng
        opts = [('lit', 0)]
        if 'i' in free and hi - lo >= 2: opts += [('i', 0)] * 3
        if 'j' in free and hi - lo >= 1: opts += [('j', 0)] * 2
        if 'i' in free and 'j' in free and hi - lo >= 3: opts.append(('ij', 0))
        if 'j' in free and hi - lo >= 2: opts.append(('2j', 0))
        if hi - lo >= 2: opts.append(('k', 0))
        kind = r.choice(opts)[0]
        if kind == 'lit': return lit(r.randint(lo, hi))
        rng_ = {'i': (1, 3), 'j': (1, 2), 'ij': (2, 5), '2j': (2, 4), 'k': (1, 3)}[kind]
        c = r.randint(lo - rng_[0], hi - rng_[1])
        base = {'i': var('i'), 'j': var('j'), 'ij': ['sum', False, var('i'), var('j')], '2j': ['prod', False, lit(2), var('j')], 'k': var('k')}[kind]
        return add(base, c)

    def ref(self, free):
        a = self.rng.choice(sorted(self.decl))
        return a, [self.sub(l, h, free) for l, h in self.bnd[a]]

    def expr(self, d, free):
        r = self.rng
        c = r.random()
        if d <= 0 or c < 0.3:
            c2 = r.random()
            if c2 < 0.5:
                a, idx = self.ref(free); return ['call', a] + idx
            if c2 < 0.75: return lit(r.randint(-3, 6))
            return var(r.choice(['k', 'l'] + list(free)))
        if c < 0.65: return ['sum', False, self.expr(d - 1, free), self.expr(d - 1, free)]
        if c < 0.85: return ['prod', False, self.expr(d - 1, free), self.expr(d - 1, free)]
        return ['call', r.choice(['max', 'min']), self.expr(d - 1, free), self.expr(d - 1, free)]

    def stmts(self, n, depth, free):
        r = self.rng
        out = []
        for _ in range(n):
            c = r.random()
            if depth > 0 and c < 0.35 and len(free) < 2:
                v = 'i' if 'i' not in free else 'j'
                out.append(['do', v, lit(1), lit(3 if v == 'i' else 2), None, self.stmts(r.randint(1, 2), depth - 1, free + [v])])
            elif depth > 0 and c < 0.5:
                cond = ['cmp', r.choice(['<', '>', '<=', '==']), self.expr(1, free), self.expr(0, free)]
                out.append(['if', cond, self.stmts(1, depth - 1, free), self.stmts(r.randint(0, 1), depth - 1, free)])
            elif c < 0.9:
                a, idx = self.ref(free); out.append(['store', a, idx, self.expr(2, free)])
            else:
                out.append(['assign', 'l', self.expr(1, free)])
        return out

    def body(self): return self.stmts(self.rng.randint(2, 4), 2, [])

def gen_store_idx(u, seed):
    import random
    rng = random.Random(seed)
    st = {'k': rng.randint(1, 3), 'l': rng.randint(-2, 4), 'i': 0, 'j': 0}
    st.update(u['fix'])
    for a, bs in bounds_in(u, st).items():
        st[a] = {idx: rng.randint(-4, 9) for idx in itertools.product(*[range(l, h + 1) for l, h in bs])}
    return st

# =============================================================================================== the property
def do_vars(ss):
    """variables of the explicit DO loops of a (section) program"""
    out = set()
    for s in ss:
        if s[0] in ('vdo', 'do'): out.add(s[1]); out |= do_vars(s[5])
        elif s[0] in ('vif', 'if'): out |= do_vars(s[2]) | do_vars(s[3])
        elif s[0] == 'plain': out |= do_vars([s[1]])
    return out

def cmp_stores(u, s1, s2, skip=()):
    """first difference between two final stores on the unit's scalars and declared array cells"""
    for x in u['scalars']:
        if x in skip: continue
        if s1.get(x, 0) != s2.get(x, 0): return 'scalar %s: %r vs %r' % (x, s1.get(x, 0), s2.get(x, 0))
    for a in u['arrays']:
        c1, c2 = s1.get(a, {}), s2.get(a, {})
        for i in sorted(set(c1) | set(c2)):
            if c1.get(i, 0) != c2.get(i, 0): return 'array %s%r: %r vs %r' % (a, tuple(i), c1.get(i, 0), c2.get(i, 0))
    return None

def gf_compare(u, src1, src2, store, skip=()):
    """compile & run original and transformed text on the same store; None if equal, else a description"""
    b = bounds_in(u, store)
    uu = dict(u); uu['arrays'] = {a: [[l, h] for l, h in b[a]] for a in u['arrays']}
    spec = ([x for x in u['scalars'] if x not in skip], [(a, list(i)) for a in sorted(u['arrays']) for i in sorted(store[a])])
    main = M.main_program(uu, store, spec)
    ok1, o1 = M.gfortran_run([src1], main)
    if not ok1: return None if 'run:' in o1 else 'gfortran rejects the ORIGINAL (harness): ' + o1[-300:]
    ok2, o2 = M.gfortran_run([src2], main)
    if not ok2: return 'gfortran fails on the transformed routine: ' + o2[-300:]
    if o1 != o2:
        l1, l2 = o1.split(), o2.split()
        names = spec[0] + ['%s%r' % (a, tuple(i)) for a, i in spec[1]]
        for nm, x, y in zip(names, l1, l2):
            if x != y: return 'gfortran: %s = %s (original) vs %s (transformed)' % (nm, x, y)
        return 'gfortran outputs differ'
    return None

def gf_compare_idx(u, fn, src1, src2, store):
    """original on `store` vs transformed text on the re-indexed store (arrays declared with the re-indexed bounds)"""
    b = bounds_in(u, store)
    scal = [x for x in u['scalars'] if x in u['args']]
    cells = [(a, i) for a in sorted(u['arrays']) for i in sorted(store[a])]
    u1 = dict(u); u1['arrays'] = {a: [[l, h] for l, h in b[a]] for a in u['arrays']}
    ok1, o1 = M.gfortran_run([src1], M.main_program(u1, store, (scal, [(a, list(i)) for a, i in cells])))
    if not ok1: return None if 'run:' in o1 else 'gfortran rejects the ORIGINAL (harness): ' + o1[-300:]
    st2 = reindex_store(fn, u, store)
    u2 = dict(u); u2['arrays'] = {}
    for a in u['arrays']:
        idxs = sorted(st2[a])
        u2['arrays'][a] = [[min(i[d] for i in idxs), max(i[d] for i in idxs)] for d in range(len(idxs[0]))]
    ok2, o2 = M.gfortran_run([src2], M.main_program(u2, st2, (scal, [(a, list(reindex(fn, b, a, i))) for a, i in cells])))
    if not ok2: return 'gfortran fails on the transformed routine: ' + o2[-300:]
    if o1 != o2:
        names = scal + ['%s%r' % (a, tuple(i)) for a, i in cells]
        for nm, x, y in zip(names, o1.split(), o2.split()):
            if x != y: return 'gfortran: %s = %s (original) vs %s (transformed, re-indexed)' % (nm, x, y)
        return 'gfortran outputs differ'
    return None

class C30(Property):
    id = 'C30'
    imports = ['Base.Expr', 'Base.MiniF', 'models.M_C30']
    theorem_file = 'theories/props/T_C30.v'
    parallel = True
    shard = 60
    rule = ('routines with 1-3 generated array-section assignments (1-D/2-D sections, strides incl. negative, declared lower bounds '
            'other than 1, whole-array and bare-name forms, scalar broadcast, mixed scalar subscript + range, different section '
            'offsets left/right, explicit loops around sections, loops whose range equals a section (loop-variable reuse), '
            'single-clause WHERE) pushed through the real resolve_vector_notation; the Coq model must reproduce the produced loop nest '
            '(stmts_eqm: structural, index expressions modulo the proved-sound linear normal form); oracle = rhs-first reference '
            'interpreter of the section program vs minif.interp of the output on 3 stores (gfortran original vs fgen(transformed) for a '
            'sample / all in thorough); add/remove_explicit_array_dimensions and the five index-normalising functions are applied to '
            'generated routines and compared structurally with their models and semantically through the re-indexed store. '
            'A case is non-trivial when at least one loop was generated / one subscript rewritten and a store changes; '
            'distinct = distinct parsed bodies')
    modelled_not_verified = [
        'resolution with two or more range dimensions: nest shape, iteration order and index set are proved, the store-level simulation is not (tie + oracles only)',
        'WHERE resolution (visit_MaskedStatement): structural tie and oracles only',
        'flatten_arrays: offset arithmetic and single in-bounds read/write are proved, the lifting to whole programs is not; order=C is not modelled',
        'normalize_array_shape_and_access: per-access index map and declarations are proved consistent, no whole-program theorem; simplify() inside it and inside _compute_shifted_index is covered by comparison modulo a proved-sound linear normal form',
        'loop_map lookup compares range trees structurally (Loki compares printed forms)',
        'vector subscripts, assumed-shape arrays, derived-type bounds / substitute_derived_type_bounds, resolve_vector_dimension, calls_only=True, insert_comments are not modelled',
    ]

    # ------------------------------------------------------------------------------ generation
    def generate(self, rng, tier):
        n = 200 if tier == 'quick' else 1200
        for i in range(n):
            g = Gen(rng)
            u = g.unit(g.body())
            yield {'kind': 'resolve', 'unit': u, 'seeds': [rng.randrange(10 ** 6) for _ in range(3)],
                   'gf': (tier != 'quick' and i % 10 == 0) or i < 4}
        n = 40 if tier == 'quick' else 200
        for i in range(n):
            g = Gen(rng)
            u = g.unit([(g.whole() if rng.random() < 0.5 else g.partial() if rng.random() < 0.5 else g.assign1d()) for _ in range(rng.choice([1, 2, 3]))])
            yield {'kind': 'explicit', 'unit': u, 'seeds': [rng.randrange(10 ** 6) for _ in range(2)]}
        n = 20 if tier == 'quick' else 100
        for fn in INDEX_FNS:
            for i in range(n):
                g = IdxGen(rng, fn)
                yield {'kind': 'index', 'fn': fn, 'unit': g.unit(g.body()), 'seeds': [rng.randrange(10 ** 6) for _ in range(2)],
                       'gf': fn in ('flatten', 'normshape', 'normrange') and ((tier != 'quick' and i % 10 == 0) or i < 1)}

    # ------------------------------------------------------------------------------ implementation
    def run_impl(self, case):
        if case['kind'] == 'resolve': return run_resolve(case['unit'], want_fgen=bool(case.get('gf')))
        if case['kind'] == 'explicit': return run_explicit(case['unit'])
        if case['kind'] == 'index': return run_index(case['unit'], case['fn'], want_fgen=bool(case.get('gf')))
        raise ValueError(case['kind'])

    # ------------------------------------------------------------------------------ model tie
    def model_term(self, case, out):
        if '__exception__' in out: raise ValueError('implementation raised %s' % out['__exception__'])
        if case['kind'] == 'index':
            fn, res = case['fn'], out['result']
            ds = sorted_decls_model(out['decls'])
            prog = M.stmts_model(out['parsed'])
            o = Some(M.stmts_model(res['stmts'])) if 'stmts' in res else None
            if fn == 'shift': return coq(C('chk_shift', ds, prog, o))
            if 'stmts' not in res:
                if fn in ('flatten', 'flatten0'): return coq(C('chk_flatten', 1 if fn == 'flatten' else 0, ds, prog, None, []))
                raise ValueError('unexpected failure of %s: %r' % (fn, res))
            if fn in ('flatten', 'flatten0'):
                return coq(C('chk_flatten', 1 if fn == 'flatten' else 0, ds, prog, o, odecls_model(out['newdecls'])))
            nds = sorted_decls_model(out['newdecls'])
            return coq(C({'invert': 'chk_invert', 'normrange': 'chk_normrange', 'normshape': 'chk_normshape'}[fn], ds, prog, o, nds))
        ds = decls_model(out['decls'])
        body = [vstmt_model(s) for s in out['parsed']]
        if case['kind'] == 'resolve':
            res = out['result']
            return coq(C('chk_resolve', ds, body, Some(M.stmts_model(res['stmts'])) if 'stmts' in res else None))
        if case['kind'] == 'explicit':
            return '(%s && %s && %s)' % (
                coq(C('chk_add_explicit', ds, body, [vstmt_model(s) for s in out['added']])),
                coq(C('chk_remove_explicit', body, [vstmt_model(s) for s in out['removed']])),
                coq(C('chk_remove_explicit', [vstmt_model(s) for s in out['added']], [vstmt_model(s) for s in out['add_then_remove']])))
        return None

    # ------------------------------------------------------------------------------ oracle
    def oracle(self, case, out):
        if '__exception__' in out: return 'implementation raised %s: %s' % (out['__exception__'], out.get('msg'))
        u, ds = case['unit'], out['decls']
        if case['kind'] == 'resolve':
            res = out['result']
            if 'error' in res: return 'resolve_vector_notation raised %s' % res['error']
            if 'malformed' in res: return 'resolve_vector_notation output is malformed: %s' % res['malformed']
            dv = do_vars(out['parsed'])     # values of DO variables after the routine are not observed (array contents and all other scalars are)
            for seed in case['seeds']:
                st = gen_store(u, seed)
                try: ref = v_interp(out['parsed'], copy.deepcopy(st), ds)
                except M.Stuck: continue
                try: got = M.interp(res['stmts'], copy.deepcopy(st))
                except M.Stuck as e: return 'transformed routine gets stuck (%s) where the original runs (store seed %d)' % (e, seed)
                d = cmp_stores(u, ref, got, skip=dv)
                if d: return 'original vs resolved differ on store seed %d: %s' % (seed, d)
            if case.get('gf') and out.get('fgen'):
                st = gen_store(u, case['seeds'][0])
                d = gf_compare(u, vunit_to_fortran(u), out['fgen'], st, skip=dv)
                if d: return d
            return None
        if case['kind'] == 'index':
            fn, res = case['fn'], out['result']
            if 'error' in res: return None          # the function refuses the input (documented TypeError): no claim
            if 'malformed' in res: return '%s output is malformed: %s' % (fn, res['malformed'])
            for seed in case['seeds']:
                st = gen_store_idx(u, seed)
                b = bounds_in(u, st)
                try: ref = M.interp(out['parsed'], copy.deepcopy(st))
                except M.Stuck: continue
                try: got = M.interp(res['stmts'], reindex_store(fn, u, st))
                except M.Stuck as e: return '%s: transformed routine gets stuck (%s)' % (fn, e)
                want = reindex_store(fn, u, ref)
                for x in u['scalars']:
                    if want.get(x, 0) != got.get(x, 0): return '%s: scalar %s: %r vs %r (seed %d)' % (fn, x, want.get(x, 0), got.get(x, 0), seed)
                for a in u['arrays']:
                    for i in sorted(set(want[a]) | set(got.get(a, {}))):
                        if i not in want[a]:
                            return '%s: the transformed routine writes %s%r, outside the re-indexed declared bounds (seed %d)' % (fn, a, tuple(i), seed)
                        if want[a][i] != got.get(a, {}).get(i, 0):
                            return '%s: %s%r (re-indexed): %r expected, %r computed (seed %d)' % (fn, a, tuple(i), want[a][i], got.get(a, {}).get(i, 0), seed)
            if case.get('gf') and out.get('fgen'):
                st = gen_store_idx(u, case['seeds'][0])
                d = gf_compare_idx(u, fn, unit_to_fortran_plain(u), out['fgen'], st)
                if d: return d
            return None
        if case['kind'] == 'explicit':
            for seed in case['seeds']:
                st = gen_store(u, seed)
                try: ref = v_interp(out['parsed'], copy.deepcopy(st), ds)
                except M.Stuck: continue
                for nm in ('added', 'removed', 'add_then_remove'):
                    try: got = v_interp(out[nm], copy.deepcopy(st), ds)
                    except M.Stuck as e: return '%s: stuck (%s)' % (nm, e)
                    d = cmp_stores(u, ref, got)
                    if d: return '%s: %s' % (nm, d)
            return None
        return None

    def nontrivial_key(self, case, out):
        if '__exception__' in out: return None
        if case['kind'] == 'resolve':
            if 'stmts' not in out['result'] or not out.get('newvars') and '"do"' not in json.dumps(out['result']): return None
            return 'r' + json.dumps(out['parsed'])
        if case['kind'] == 'explicit':
            return 'e' + json.dumps(out['parsed']) if out['added'] != out['parsed'] or out['removed'] != out['parsed'] else None
        if case['kind'] == 'index':
            res = out['result']
            if 'stmts' not in res: return None
            if res['stmts'] == out['parsed'] and out.get('newdecls') == out['decls']: return None
            return 'i' + case['fn'] + json.dumps(out['parsed'])
        return None

    def search(self, rng, bad_cases):
        """around a model/implementation disagreement: the same routine on more stores (and through gfortran)"""
        for c in bad_cases[:12]:
            d = copy.deepcopy({k: v for k, v in c.items() if not k.startswith('_')})
            d['seeds'] = [rng.randrange(10 ** 6) for _ in range(10)]
            if d['kind'] != 'explicit' and d.get('fn') not in ('shift', 'invert', 'flatten0'): d['gf'] = True
            yield d

    def show_model(self, case, out):
        if case['kind'] == 'index':
            ds = coq(sorted_decls_model(out['decls'])); prog = coq(M.stmts_model(out['parsed']))
            T = {'shift': 'T_shift', 'invert': 'T_invert', 'flatten': 'T_flatten 1', 'flatten0': 'T_flatten 0', 'normshape': 'T_normshape'}.get(case['fn'])
            return ['tr_stmts (%s %s) %s' % (T, ds, prog)] if T else ['normrange_decls %s' % ds]
        ds = coq(decls_model(out['decls'])); body = coq([vstmt_model(s) for s in out['parsed']])
        if case['kind'] == 'resolve': return ['resolve_prog %s %s' % (ds, body)]
        return ['add_explicit %s %s' % (ds, body), 'remove_explicit %s' % body]

PROP = C30
