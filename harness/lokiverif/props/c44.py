"""C44 — parallel JIT library builds compile objects after their module dependencies.

Correspondence = trace validation: generated Fortran projects (module DAGs) are built in scratch directories
through the real Builder / Lib.build path with a harness compiler (a `Compiler` subclass whose F90/FC command
is a wrapper script written into the scratch directory).  The main process logs `submit <obj>` when
`compile_args` is called, the wrapper logs `start <obj>` before any work and `end <obj>` after all outputs are
written, all with O_APPEND into one file per build.  Only the ORDER of the log lines is used.

Every build runs in a helper process (this module run as a script, `--batch`), several of them concurrently,
because Loki's Obj/Header caches are process-global and a failing parallel build leaks its Manager/listener.
"""
import os, sys, json, time, random, hashlib, shutil, tempfile, subprocess, traceback

from ..framework import Property
from ..coqlit import coq, C, Nat, Raw

HARNESS = os.path.dirname(os.path.dirname(os.path.dirname(os.path.abspath(__file__))))
LOGNAME = 'c44_events.log'

# --------------------------------------------------------------------------------------------
# ground truth of a case (independent of Loki)
# --------------------------------------------------------------------------------------------

def hdr_key(inc):
    """name under which Obj.dependencies looks an included header up: Path(incl).stem, once more for .intfb"""
    stem = os.path.splitext(inc)[0]
    if '.intfb' in stem:
        stem = os.path.splitext(stem)[0]
    return stem.lower()

def all_uses(case, f):
    hd = {hdr_key(h['name']): h for h in case.get('headers', [])}
    us = list(f.get('uses', [])) + list(f.get('ext_uses', []))
    for inc in f.get('incs', []):
        h = hd.get(hdr_key(inc))
        if h:
            us += h['uses']
    return us

def providers(case):
    """lower-cased module name -> lower-cased stem of the file that defines it"""
    prov = {}
    for f in case['files']:
        for m in f.get('mods', []):
            prov.setdefault(m.lower(), f['stem'].lower())
    return prov

def true_deps(case):
    """file (lower stem) -> set of files providing a module it uses (directly or through an included header)"""
    prov = providers(case)
    td = {}
    for f in case['files']:
        me = f['stem'].lower()
        td[me] = {prov[u.lower()] for u in all_uses(case, f) if u.lower() in prov and prov[u.lower()] != me}
    return td

def root_names(case):
    if case.get('roots') in (None, 'all'):
        return [f['stem'].lower() for f in case['files']]
    return [r.lower() for r in case['roots']]

def expected_compiled(case):
    """root files and, transitively, the files providing modules they use"""
    td = true_deps(case)
    seen, todo = set(), list(root_names(case))
    while todo:
        n = todo.pop()
        if n in seen or n not in td:
            continue
        seen.add(n)
        todo += list(td[n])
    return seen

def on_class(case):
    """module name == file stem (case-insensitively) for every module; distinct stems"""
    stems = [f['stem'].lower() for f in case['files']]
    return len(set(stems)) == len(stems) and all(m.lower() == f['stem'].lower() for f in case['files'] for m in f.get('mods', []))

# --------------------------------------------------------------------------------------------
# sources
# --------------------------------------------------------------------------------------------

def render(case, f):
    prov = providers(case)
    uses_here = [u for u in f.get('uses', [])]
    via_hdr = [u for u in all_uses(case, f) if u not in f.get('uses', []) and u not in f.get('ext_uses', [])]
    avail = [u.lower() for u in uses_here + via_hdr if u.lower() in prov]
    lines_use = []
    for i, u in enumerate(uses_here):
        style = (f.get('style', 0) + i) % 4
        only = 'v_%s' % u.lower()
        if u.lower() not in prov:
            lines_use.append('  use %s' % u)
        elif style == 0:
            lines_use.append('  use %s' % u)
        elif style == 1:
            lines_use.append('  USE %s, only: %s' % (u, only))
        elif style == 2:
            lines_use.append('  use :: %s' % u)
        else:
            lines_use.append('  use, non_intrinsic :: %s, only : %s' % (u, only))
    for u in f.get('ext_uses', []):
        lines_use.append('  use %s' % u)
    for u in f.get('intrinsic', []):
        lines_use.append('  use, intrinsic :: %s' % u)     # not matched by Obj._re_use
    incs = ['#include "%s"' % h for h in f.get('incs', [])]
    expr = ' + '.join(['x'] + ['v_%s' % a for a in dict.fromkeys(avail)])
    stem = f['stem'].lower()
    out = []
    mods = f.get('mods', [])
    for k, m in enumerate(mods):
        out += ['module %s' % m]
        if k == 0:
            out += lines_use + incs
        out += ['  implicit none', '  integer :: v_%s = %d' % (m.lower(), 1 + (len(m) + k) % 7), 'contains',
                '  subroutine p_%s(x)' % m.lower(), '    integer, intent(inout) :: x']
        out += ['    x = %s' % (expr if k == 0 else 'x + 1'), '  end subroutine p_%s' % m.lower(), 'end module %s' % m, '']
    if not mods:
        out += ['subroutine %s(x)' % stem] + lines_use + incs
        out += ['  implicit none', '  integer, intent(inout) :: x', '  x = %s' % expr, 'end subroutine %s' % stem, '']
    for e in f.get('extra_subs', []):
        out += ['subroutine %s()' % e, 'end subroutine %s' % e, '']
    return '\n'.join(out)

def render_header(h):
    return ''.join('  use %s\n' % u for u in h['uses'])

WRAPPER = r'''
import os, sys, time, json
here = os.path.dirname(os.path.abspath(__file__))
plan = json.load(open(os.path.join(here, 'plan.json')))
args = sys.argv[1:]
jdir = [a[2:] for a in args if a.startswith('-J')][0]
target = args[args.index('-o') + 1]
name = os.path.splitext(os.path.basename(target))[0]
def log(line):
    fd = os.open(os.path.join(jdir, %(logname)r), os.O_WRONLY | os.O_APPEND | os.O_CREAT, 0o644)
    try:
        os.write(fd, (line + '\n').encode())
    finally:
        os.close(fd)
log('start %%s %%.6f' %% (name, time.monotonic()))
ent = plan['objs'].get(name, {})
if not plan['real']:
    missing = [m for m in ent.get('needs', []) if not os.path.exists(os.path.join(jdir, m + '.mod'))]
    if missing:
        log('fail %%s missing-module %%s' %% (name, missing[0]))
        sys.stderr.write("Fatal Error: Cannot open module file '%%s.mod' for reading\n" %% missing[0])
        sys.exit(1)
time.sleep(ent.get('pre', 0) / 1000.0)
if plan['real']:
    import subprocess
    r = subprocess.run([plan['fc']] + args, stdout=subprocess.PIPE, stderr=subprocess.STDOUT)
    if r.returncode != 0:
        msg = r.stdout.decode('latin1')
        log('fail %%s compiler %%s' %% (name, ' '.join(msg.split())[:200]))
        sys.stderr.write(msg)
        sys.exit(r.returncode)
else:
    for m in ent.get('provides', []):
        tmp = os.path.join(jdir, '.%%s.%%d.tmp' %% (m, os.getpid()))
        with open(tmp, 'w') as fh:
            fh.write('fake module file of %%s from %%s\n' %% (m, name))
        os.replace(tmp, os.path.join(jdir, m + '.mod'))
    with open(target + '.tmp', 'w') as fh:
        fh.write('fake object %%s\n%%s\n' %% (name, ent.get('digest', '')))
    os.replace(target + '.tmp', target)
time.sleep(ent.get('post', 0) / 1000.0)
log('end %%s' %% name)
''' % {'logname': LOGNAME}

def delays(case):
    """seeded pseudo-random per-object delays (ms); 'adversarial' makes providers slow and users fast"""
    rng = random.Random('c44-jitter/%s' % case.get('jseed', 0))
    td = true_deps(case)
    used = set()
    for v in td.values():
        used |= v
    mode = case.get('jitter', 'uniform')
    out = {}
    for f in sorted(case['files'], key=lambda f: f['stem'].lower()):
        n = f['stem'].lower()
        if mode == 'adversarial':
            pre = rng.randint(15, 40) if n in used else rng.randint(0, 2)
        elif mode == 'none':
            pre = 0
        else:
            pre = rng.choice([0, 1, 2, 3, 5, 8, 13, 21, 30])
        out[n] = (pre, rng.choice([0, 0, 1, 3]))
    return out

def write_project(case, d):
    src, inc = os.path.join(d, 'src'), os.path.join(d, 'inc')
    os.makedirs(src); os.makedirs(inc)
    prov = providers(case)
    plan = {'real': bool(case.get('real')), 'fc': shutil.which('gfortran') or 'gfortran', 'objs': {}}
    dl = delays(case)
    for f in case['files']:
        text = render(case, f)
        with open(os.path.join(src, f['stem'] + f.get('ext', '.f90')), 'w') as fh:
            fh.write(text)
        n = f['stem'].lower()
        plan['objs'][n] = {
            'pre': dl[n][0], 'post': dl[n][1],
            'needs': sorted({u.lower() for u in all_uses(case, f) if u.lower() in prov and prov[u.lower()] != n}),
            'provides': [m.lower() for m in f.get('mods', [])],
            'digest': hashlib.sha1(text.encode()).hexdigest(),
        }
    for h in case.get('headers', []):
        with open(os.path.join(inc, h['name']), 'w') as fh:
            fh.write(render_header(h))
    with open(os.path.join(d, 'plan.json'), 'w') as fh:
        json.dump(plan, fh)
    with open(os.path.join(d, 'fc.py'), 'w') as fh:
        fh.write(WRAPPER)
    return src, inc

# --------------------------------------------------------------------------------------------
# running the real code (helper process)
# --------------------------------------------------------------------------------------------

def read_events(bdir):
    p = os.path.join(bdir, LOGNAME)
    if not os.path.exists(p):
        return [], []
    ev, fails = [], []
    for line in open(p).read().split('\n'):
        w = line.split()
        if not w:
            continue
        if w[0] == 'fail':
            fails.append(' '.join(w[1:])[:200])
        elif w[0] in ('submit', 'start', 'end') and len(w) >= 2:
            ev.append([w[0], w[1]])
    return ev, fails

def lib_content(bdir, libname, real):
    lib = os.path.join(bdir, 'lib%s.a' % libname)
    if not os.path.exists(lib):
        return None
    mem = subprocess.run(['ar', 't', lib], stdout=subprocess.PIPE, stderr=subprocess.DEVNULL, text=True).stdout.split()
    if real:
        nm = subprocess.run(['nm', '-g', '--defined-only', lib], stdout=subprocess.PIPE, stderr=subprocess.DEVNULL, text=True).stdout
        syms = sorted({(ln.split()[1], ln.split()[2]) for ln in nm.split('\n') if len(ln.split()) == 3})
        return {'members': sorted(mem), 'symbols': ['%s %s' % s for s in syms]}
    dig = {}
    for m in mem:
        data = subprocess.run(['ar', 'p', lib, m], stdout=subprocess.PIPE, stderr=subprocess.DEVNULL).stdout
        dig[m] = hashlib.sha1(data).hexdigest()[:12]
    return {'members': sorted(mem), 'symbols': ['%s %s' % kv for kv in sorted(dig.items())]}

def _run_case_here(case):
    """runs inside the helper process: the real Builder / Lib.build path"""
    import networkx as nx
    from pathlib import Path
    from loki.jit_build import Obj, Lib, Builder
    from loki.jit_build.compiler import GNUCompiler
    from loki.jit_build.header import Header

    class HarnessCompiler(GNUCompiler):
        def __init__(self, cmd):
            super().__init__()
            self.f90 = cmd
            self.fc = cmd
        def compile_args(self, source, target=None, include_dirs=None, mod_dir=None, mode='f90'):
            fd = os.open(os.path.join(str(mod_dir), LOGNAME), os.O_WRONLY | os.O_APPEND | os.O_CREAT, 0o644)
            try:
                os.write(fd, ('submit %s %.6f\n' % (Path(str(target)).stem, time.monotonic())).encode())
            finally:
                os.close(fd)
            return super().compile_args(source, target=target, include_dirs=include_dirs, mod_dir=mod_dir, mode=mode)

    def clear():
        Obj.clear_cache()
        try:
            Header._Header__xnew_cached_.cache_clear()
        except AttributeError:
            pass

    d = tempfile.mkdtemp(prefix='lv_c44_')
    out = {}
    try:
        src, inc = write_project(case, d)
        cmd = '%s -S -E %s' % (sys.executable, os.path.join(d, 'fc.py'))
        stems = {f['stem'].lower(): f['stem'] + f.get('ext', '.f90') for f in case['files']}
        roots = root_names(case)

        def setup(bname, workers):
            clear()
            bdir = os.path.join(d, bname)
            os.makedirs(bdir)
            builder = Builder(source_dirs=src, include_dirs=inc, build_dir=bdir, workers=workers, compiler=HarnessCompiler(cmd))
            objs = [Obj(source_path=Path(src) / stems[r]) for r in roots]
            return bdir, builder, objs

        def build(bdir, builder, objs, force=False):
            res = {'error': None}
            lib = Lib(name='c44', objs=objs, shared=False)
            open(os.path.join(bdir, LOGNAME), 'w').close()
            before = {n: os.stat(os.path.join(bdir, n)).st_mtime_ns for n in os.listdir(bdir) if n.endswith('.o')}
            try:
                lib.build(builder=builder, force=force)
            except BaseException as e:   # compile failure, cycle, timeout ...
                res['error'] = '%s: %s' % (type(e).__name__, ' '.join(str(e).split())[:160])
            res['events'], res['fails'] = read_events(bdir)
            res['objs'] = sorted(n[:-2] for n in os.listdir(bdir) if n.endswith('.o'))
            # object files written by THIS build (new, or replaced)
            res['written'] = sorted(n[:-2] for n in os.listdir(bdir) if n.endswith('.o')
                                    and before.get(n) != os.stat(os.path.join(bdir, n)).st_mtime_ns)
            res['lib'] = lib_content(bdir, 'c44', case.get('real'))
            return res

        # the graph the code builds, and the order the main thread will walk (same construction as Lib.build)
        bdir, builder, objs = setup('b_graph', 1)
        try:
            g = builder.get_dependency_graph(objs)
            out['graph'] = {'nodes': sorted([o.name, o.source_path is not None] for o in g.nodes),
                            'edges': sorted([a.name, b.name] for a, b in g.edges)}
            try:
                out['order'] = [o.name for o in reversed(list(nx.topological_sort(g)))]
            except nx.NetworkXUnfeasible:
                out['order'] = None
        except Exception as e:
            out['graph'] = {'error': '%s: %s' % (type(e).__name__, str(e)[:160])}
            out['order'] = None

        bdir, builder, objs = setup('b_serial', 1)
        out['serial'] = build(bdir, builder, objs)
        if case.get('rebuild'):
            out['serial2'] = build(bdir, builder, objs, force=True)

        bdir, builder, objs = setup('b_par', case['workers'])
        out['par'] = build(bdir, builder, objs)
        if case.get('rebuild'):
            # what Lib.build does first; afterwards q_task is whatever the second build will see
            g2 = builder.get_dependency_graph(objs)
            out['stale'] = sorted(o.name for o in g2.nodes if o.q_task is not None)
            out['par2'] = build(bdir, builder, objs, force=True)
        clear()
    finally:
        shutil.rmtree(d, ignore_errors=True)
    return out

def _batch_main(inp, outp):
    os.environ.setdefault('TQDM_DISABLE', '1')
    cases = json.load(open(inp))
    with open(outp, 'a') as fh:
        for c in cases:
            try:
                r = _run_case_here(c)
            except BaseException as e:
                r = {'__exception__': type(e).__name__, 'msg': str(e)[:300], 'tb': traceback.format_exc()[-1500:]}
            fh.write(json.dumps(r) + '\n')      # one line per finished case: survives a later hang of this helper
            fh.flush()
            os.fsync(fh.fileno())
    sys.stdout.flush()
    os._exit(0)     # do not wait for leaked Manager / listener threads of failed parallel builds

CHUNK = 6          # cases per helper invocation
STALL = 1200       # seconds without a finished case before a helper is considered hung (a case takes seconds; the machine may be very busy)

def run_batches(cases, jobs=3, stall=STALL):
    """run cases in up to `jobs` concurrent helper processes (several short-lived helpers one after the other);
    returns the list of outputs.  A helper that makes no progress for `stall` seconds is killed: the case it was
    working on is reported as hung, the cases after it are handed to a new helper."""
    import threading, collections
    if not cases:
        return []
    jobs = max(1, min(jobs, (len(cases) + 1) // 2 if len(cases) > 1 else 1))
    repo = os.environ.get('LOKI_VERIF_REPO', '/repo')
    env = dict(os.environ)
    env['PYTHONPATH'] = '%s:%s' % (repo, HARNESS)
    env['PYTHONHASHSEED'] = '0'
    env['PYTHONDONTWRITEBYTECODE'] = '1'
    env['TQDM_DISABLE'] = '1'
    work = tempfile.mkdtemp(prefix='lv_c44_batch_')
    env['TMPDIR'] = work          # scratch projects live below the batch directory: removed even when a helper is killed
    outs = [None] * len(cases)
    todo = collections.deque(range(len(cases)))
    lock = threading.Lock()
    serial = [0]

    def helper(idx):
        with lock:
            serial[0] += 1
            k = serial[0]
        inp, outp, errp = (os.path.join(work, '%s_%d' % (n, k)) for n in ('in', 'out', 'err'))
        json.dump([cases[i] for i in idx], open(inp, 'w'))
        open(outp, 'w').close()
        hung = False
        with open(errp, 'w') as ef:
            # own session: children leaked by a failing parallel build (Manager, listener) are killed with the group and
            # cannot keep a pipe of ours open
            pr = subprocess.Popen([sys.executable, '-m', 'lokiverif.props.c44', '--batch', inp, outp], env=env, cwd=work,
                                  stdin=subprocess.DEVNULL, stdout=subprocess.DEVNULL, stderr=ef, start_new_session=True)
            last, size = time.time(), 0
            while pr.poll() is None:
                time.sleep(0.5)
                s = os.path.getsize(outp)
                if s != size:
                    last, size = time.time(), s
                elif time.time() - last > stall:
                    hung = True
                    break
            try:
                os.killpg(pr.pid, 9)
            except (ProcessLookupError, PermissionError):
                pass
            pr.wait()
        res = []
        for line in open(outp).read().split('\n'):
            if line.strip():
                try:
                    res.append(json.loads(line))
                except ValueError:
                    break
        try:
            err = open(errp, errors='replace').read()[-600:]
        except OSError:
            err = ''
        for j, i in enumerate(idx):
            if j < len(res):
                outs[i] = res[j]
        if len(res) < len(idx):
            i = idx[len(res)]
            outs[i] = {'__exception__': 'HelperHung' if hung else 'HelperCrashed',
                       'msg': ('no progress for %d s; ' % stall if hung else '') + err}
            with lock:
                todo.extendleft(reversed(idx[len(res) + 1:]))

    def worker():
        while True:
            with lock:
                idx = [todo.popleft() for _ in range(min(CHUNK, len(todo)))]
            if not idx:
                return
            helper(idx)

    try:
        ths = [threading.Thread(target=worker) for _ in range(jobs)]
        for th in ths: th.start()
        for th in ths: th.join()
    finally:
        shutil.rmtree(work, ignore_errors=True)
    return outs

# --------------------------------------------------------------------------------------------
# generation
# --------------------------------------------------------------------------------------------

def _spell(rng, name):
    r = rng.random()
    if r < 0.7: return name
    if r < 0.85: return name.upper()
    return name.capitalize()

def make_project(rng, shape, n, with_headers=False, fake_only=False):
    """a module DAG of n files: positions 0..n-1, dependencies only to smaller positions; names are a random
    permutation so that file-name order and dependency order are unrelated"""
    nsub = rng.randint(1, max(1, min(4, n // 4)))
    nmod = max(1, n - nsub)
    ids = list(range(1, n + 1)); rng.shuffle(ids)
    names = ['m_%d' % ids[i] for i in range(nmod)] + ['s_%d' % ids[nmod + i] for i in range(n - nmod)]
    deps = {i: [] for i in range(n)}
    for i in range(1, nmod):
        if shape == 'chain':
            deps[i] = [i - 1]
        elif shape == 'wide':
            deps[i] = [0] if i > 0 else []
        elif shape == 'layers':
            w = max(2, nmod // 4); lay = i // w
            if lay > 0:
                prev = list(range((lay - 1) * w, lay * w))
                deps[i] = rng.sample(prev, rng.randint(1, min(3, len(prev))))
        elif shape == 'forest':
            comp = i % 3
            cand = [j for j in range(i) if j % 3 == comp]
            deps[i] = rng.sample(cand, min(len(cand), rng.randint(0, 2)))
        else:
            k = rng.choice([0, 1, 1, 2, 2, 3])
            deps[i] = rng.sample(range(i), min(i, k))
    for i in range(nmod, n):
        k = rng.choice([0, 1, 1, 2, 3])
        deps[i] = rng.sample(range(nmod), min(nmod, k))
    headers = []
    files = []
    tag = '%04x' % rng.randrange(1 << 16)
    for i in range(n):
        ismod = i < nmod
        stem = names[i]
        f = {'stem': stem if rng.random() < 0.8 else stem.upper(), 'ext': rng.choice(['.f90', '.f90', '.f90', '.F90']),
             'mods': [_spell(rng, stem)] if ismod else [], 'uses': [_spell(rng, names[j]) for j in deps[i]],
             'style': rng.randrange(4)}
        if rng.random() < 0.15:
            f['intrinsic'] = ['iso_c_binding']
        if rng.random() < 0.15:
            f['ext_uses'] = ['iso_fortran_env']           # matched by the regex: a node without source
        if fake_only and rng.random() < 0.1:
            f.setdefault('ext_uses', []).append('ext_lib_mod')   # a module outside the project (no source anywhere)
        if with_headers and not ismod and nmod >= 1 and rng.random() < 0.8:
            hname = 'h%s_%d%s' % (tag, len(headers), rng.choice(['.h', '.intfb.h']))
            hu = [names[j] for j in rng.sample(range(nmod), min(nmod, rng.randint(1, 2)))]
            hu = [u for u in hu if u.lower() not in [x.lower() for x in f['uses']]]
            if hu:
                headers.append({'name': hname, 'uses': hu})
                f['incs'] = [hname]
                f['ext'] = '.F90'
        if rng.random() < 0.05 and f['uses']:
            f['uses'].append(f['uses'][0].swapcase())       # the same module spelled twice
        files.append(f)
    rng.shuffle(files)
    return files, headers

SHAPES = ['random', 'random', 'random', 'chain', 'wide', 'layers', 'forest']

# witnesses of the two known defects
F16_CASE = {'kind': 'f16', 'files': [{'stem': 'foo', 'ext': '.f90', 'mods': ['bar_mod'], 'uses': [], 'style': 0},
                                     {'stem': 'zuser', 'ext': '.f90', 'mods': [], 'uses': ['bar_mod'], 'style': 0}],
            'headers': [], 'roots': 'all', 'workers': 3, 'jseed': 1, 'jitter': 'adversarial', 'real': True}
F16b_CASE = {'kind': 'rebuild', 'files': [{'stem': 'm_a', 'ext': '.f90', 'mods': ['m_a'], 'uses': [], 'style': 0},
                                         {'stem': 's_c', 'ext': '.f90', 'mods': [], 'uses': ['m_a'], 'style': 0}],
            'headers': [], 'roots': 'all', 'workers': 3, 'jseed': 1, 'jitter': 'uniform', 'real': True, 'rebuild': True}

def case_key(case):
    return json.dumps({k: v for k, v in case.items() if not k.startswith('_')}, sort_keys=True, default=str)

# --------------------------------------------------------------------------------------------
# the property
# --------------------------------------------------------------------------------------------

def coq_events(ev):
    m = {'submit': 'ESubmit', 'start': 'EStart', 'end': 'EFinish'}
    return '[%s]' % '; '.join('%s %s' % (m[k], coq(n)) for k, n in ev)

def coq_project(case):
    fs = []
    for f in case['files']:
        fs.append(C('mkFile', f['stem'], list(f.get('mods', [])), list(f.get('uses', [])) + list(f.get('ext_uses', [])),
                    [hdr_key(h) for h in f.get('incs', [])]))
    hs = [(hdr_key(h['name']), [u.lower() for u in h['uses']]) for h in case.get('headers', [])]
    return coq(C('mkProj', fs, hs))


class C44(Property):
    id = 'C44'
    imports = ['models.M_C44']
    theorem_file = 'theories/props/T_C44.v'
    prelude = 'Open Scope list_scope.\n'
    parallel = False
    shard = 6
    rule = ('generated Fortran projects: module DAGs of 5-25 files (shapes random/chain/wide/layers/forest, names a random '
            'permutation, mixed-case stems/module/USE spellings, .f90/.F90, a few subroutine-only files, optional #include '
            'headers carrying USEs, USEs of intrinsic / external modules that give source-less nodes, roots = all files or a '
            'subset), always inside the class module name = file stem; each is built through Builder + Lib.build serially '
            '(workers=1) and with workers in 1..8 under seeded per-object delays (uniform or providers-slow/users-fast) with a '
            'fake compiler that requires the .mod files of its needs at start (quick) or real gfortran (some quick, all '
            'thorough); the submit/start/end log of each build must be accepted by the model acceptor (chk_trace) and the graph '
            'of Builder.get_dependency_graph must equal the model graph; a case is non-trivial when it has >= 1 dependency '
            'edge and workers >= 2; distinct = distinct (project, workers, jitter)')
    modelled_not_verified = [
        'ProcessPoolExecutor / futures: modelled as a pool of N workers that start queued tasks and finish running ones in any order (FIFO start order not assumed); DEFAULT_TIMEOUT and exceptions of failing compile tasks are not modelled (a failing compile is an oracle failure)',
        'networkx.topological_sort is an oracle: the decidable predicate order_ok is checked on the order of every real run',
        'the regular expressions of Obj.uses / Header.uses / Obj.includes and the header-name stemming are on the harness side (ground truth of the generator); the model starts from (stem, modules, USE names, header names)',
        'file-system mtime logic of the up-to-date checks in Lib.build / Obj.build (fresh build directories, or force=True in the rebuild witness)',
        'linking (ar) is outside the model; the oracle compares archive members and symbols of the serial and the parallel library',
    ]

    def __init__(self):
        self._pending = []
        self._results = None

    # -- generation ---------------------------------------------------------------------------
    def generate(self, rng, tier):
        nfake, nreal = (40, 8) if tier == 'quick' else (60, 100)
        cases = []
        for k in range(nfake + nreal):
            real = k >= nfake
            shape = rng.choice(SHAPES)
            n = int(rng.triangular(5, 25.99, 9)) if not (real and tier == 'quick') else rng.randint(5, 12)
            if k % 17 == 3:
                n = rng.randint(1, 3)                      # degenerate projects
            with_h = rng.random() < 0.3
            files, headers = make_project(rng, shape, n, with_headers=with_h, fake_only=not real)
            roots = 'all'
            if rng.random() < 0.25 and len(files) > 2:
                roots = sorted(f['stem'] for f in rng.sample(files, rng.randint(1, max(1, len(files) // 2))))
            c = {'kind': shape + ('+hdr' if headers else '') + ('/gfortran' if real else '/fake'),
                 'files': files, 'headers': headers, 'roots': roots,
                 'workers': rng.choice([1, 2, 2, 3, 3, 4, 5, 6, 8]), 'jseed': rng.randrange(10 ** 6),
                 'jitter': rng.choice(['uniform', 'uniform', 'adversarial', 'none']), 'real': real}
            assert on_class(c), 'generator left the class module name = file stem'
            cases.append(c)
        self._pending = list(cases)
        for c in cases:
            yield c

    # -- implementation -----------------------------------------------------------------------
    def _jobs(self):
        # concurrent helper processes: throttled like every other pool of the framework (LOKI_VERIF_JOBS / .jobs)
        from .. import coqrun
        return coqrun.njobs(8)

    def run_impl(self, case):
        key = case_key(case)
        if self._results is None and self._pending:
            pend, self._pending = self._pending, []
            outs = run_batches(pend, jobs=self._jobs())
            self._results = {case_key(c): o for c, o in zip(pend, outs)}
        if self._results and key in self._results:
            return self._results[key]
        return run_batches([case], jobs=1)[0]

    # -- model ----------------------------------------------------------------------------------
    def model_term(self, case, out):
        if '__exception__' in out:
            raise ValueError('helper failed: %s %s' % (out['__exception__'], out.get('msg', '')[:200]))
        g = out['graph']
        if 'error' in g:
            raise ValueError('get_dependency_graph raised ' + g['error'])
        p = coq_project(case)
        roots = coq(root_names(case))
        nodes = coq([(n, bool(b)) for n, b in g['nodes']])
        edges = coq([(a, b) for a, b in g['edges']])
        parts = ['chk_graph p r %s %s' % (nodes, edges)]
        if out['order'] is None:
            return '(let p := %s in let r := %s in %s && false)' % (p, roots, parts[0])
        order = coq(list(out['order']))
        def tr(b, stale, n):
            fn = 'chk_trace p %s r o %d%%nat %s %s' % (coq(list(stale)), n, coq_events(b['events']), coq(list(b['written'])))
            if b['error'] is not None:
                # the build raised: the log is cut; it must still be a prefix of a run (and the oracle reports the failure)
                fn = 'chk_prefix p %s r o %d%%nat %s' % (coq(list(stale)), n, coq_events(b['events']))
            return fn
        parts.append(tr(out['serial'], [], 1))
        parts.append(tr(out['par'], [], max(1, case['workers'])))
        if case.get('rebuild'):
            parts.append('chk_stale p r %s' % coq(list(out['stale'])))
            parts.append(tr(out['par2'], out['stale'], max(1, case['workers'])))
            parts.append(tr(out['serial2'], [], 1))
        return '(let p := %s in let r := %s in let o := %s in %s)' % (p, roots, order, ' && '.join('(%s)' % x for x in parts))

    def show_model(self, case, out):
        p = coq_project(case); r = coq(root_names(case))
        t = ['graph_nodes %s %s' % (p, r), 'graph_edges %s %s' % (p, r)]
        if out.get('order') is not None:
            o = coq(list(out['order']))
            t.append('order_ok %s %s %s' % (p, r, o))
            t.append('accept (p_src %s) (p_deps %s) [] %d%%nat %s %s' % (p, p, max(1, case['workers']), o, coq_events(out['par']['events'])))
        return t

    # -- oracle ---------------------------------------------------------------------------------
    def _check_build(self, case, b, workers, label, td, expect):
        if b['error'] is not None:
            return '%s build failed: %s %s' % (label, b['error'], '; '.join(b.get('fails', []))[:200])
        ev = b['events']
        pos = {}
        for i, (k, n) in enumerate(ev):
            pos.setdefault((k, n), []).append(i)
        started = {n for (k, n) in pos if k == 'start'}
        for n in sorted(started):
            if len(pos[('start', n)]) != 1:
                return '%s build compiled %s %d times' % (label, n, len(pos[('start', n)]))
            if len(pos.get(('end', n), [])) != 1:
                return '%s build: compile of %s did not end exactly once' % (label, n)
            for d in sorted(td.get(n, ())):
                e = pos.get(('end', d))
                if not e or e[0] > pos[('start', n)][0]:
                    return '%s build started %s before its module provider %s had finished' % (label, n, d)
        if started != expect:
            return '%s build compiled %s, expected %s' % (label, sorted(started), sorted(expect))
        if set(b['objs']) != expect or set(b['written']) != expect:
            return '%s build wrote objects %s (present: %s), expected %s' % (label, b['written'], b['objs'], sorted(expect))
        run = 0
        for k, n in ev:
            run += (k == 'start') - (k == 'end')
            if run > max(1, workers):
                return '%s build ran %d compiles at once with %d workers' % (label, run, workers)
        return None

    def oracle(self, case, out):
        if '__exception__' in out:
            return 'helper process failed: %s %s' % (out['__exception__'], out.get('msg', '')[:200])
        td = true_deps(case)
        expect = expected_compiled(case)
        g = out['graph']
        if 'error' in g:
            return 'get_dependency_graph raised ' + g['error']
        # the graph of the code vs the ground truth of the generator
        with_src = {n for n, b in g['nodes'] if b}
        if with_src != expect:
            return 'dependency graph has source nodes %s, ground truth needs %s' % (sorted(with_src), sorted(expect))
        gedges = {(a, b) for a, b in g['edges'] if a in with_src and b in with_src and a != b}
        tedges = {(a, b) for a in expect for b in td[a]}
        if gedges != tedges:
            return 'dependency graph edges differ from ground truth: missing %s, extra %s' % (sorted(tedges - gedges)[:4], sorted(gedges - tedges)[:4])
        if out['order'] is None:
            return 'no topological order (cycle) for an acyclic project'
        r = self._check_build(case, out['serial'], 1, 'serial', td, expect)
        if r: return r
        r = self._check_build(case, out['par'], case['workers'], 'parallel(workers=%d)' % case['workers'], td, expect)
        if r: return r
        if out['serial']['lib'] != out['par']['lib'] or out['par']['lib'] is None:
            return 'library of the parallel build differs from the serial one: %s vs %s' % (out['par']['lib'], out['serial']['lib'])
        if case.get('rebuild'):
            r = self._check_build(case, out['serial2'], 1, 'serial rebuild', td, expect)
            if r: return r
            r = self._check_build(case, out['par2'], case['workers'], 'parallel rebuild(workers=%d)' % case['workers'], td, expect)
            if r: return r
        return None

    def nontrivial_key(self, case, out):
        if '__exception__' in out: return None
        td = true_deps(case)
        if case['workers'] >= 2 and any(td.values()):
            return hashlib.sha1(case_key(case).encode()).hexdigest()[:16]
        return None

    def search(self, rng, bad_cases):
        extra = list(self._search(rng, bad_cases))
        self._pending, self._results = list(extra), None      # run them concurrently on first use
        return extra

    def _search(self, rng, bad_cases):
        for c in bad_cases[:6]:
            for w in (2, 4, 8):
                for j in ('adversarial', 'uniform'):
                    d = {k: v for k, v in c.items() if not k.startswith('_')}
                    d['workers'] = w; d['jitter'] = j; d['jseed'] = rng.randrange(10 ** 6)
                    yield d
        rng2 = random.Random(rng.random())
        for _ in range(12):
            files, headers = make_project(rng2, 'chain', rng2.randint(4, 10))
            yield {'kind': 'search/chain', 'files': files, 'headers': headers, 'roots': 'all', 'workers': rng2.choice([2, 4, 8]),
                   'jseed': rng2.randrange(10 ** 6), 'jitter': 'adversarial', 'real': False}

    # -- the model's account of the two known defects is tied to the code here --------------------
    def extra_obligations(self, tier):
        from .. import coqrun
        rng = random.Random('C44/extra')
        cases = [dict(F16_CASE), dict(F16_CASE, workers=1, real=False), dict(F16b_CASE)]
        for _ in range(1 if tier == 'quick' else 8):
            files, headers = make_project(rng, rng.choice(SHAPES), rng.randint(4, 10))
            cases.append({'kind': 'rebuild', 'files': files, 'headers': headers, 'roots': 'all', 'workers': rng.choice([2, 3, 4]),
                          'jseed': rng.randrange(10 ** 6), 'jitter': 'uniform', 'real': False, 'rebuild': True})
        outs = run_batches(cases, jobs=self._jobs())
        terms, detail = [], []
        for c, o in zip(cases, outs):
            try:
                terms.append(self.model_term(c, o))
            except Exception as e:
                terms.append('false'); detail.append('%s: %s' % (c['kind'], e))
        bad, err = coqrun.eval_bool_terms(self.imports, terms, shard=4, prelude=self.prelude)
        if err:
            detail.append(err[-300:])
        ok_model = not bad and not detail
        # the rebuild defect must show exactly as the model says: second parallel build compiles only the non-stale objects
        shape = []
        for c, o in zip(cases, outs):
            if c.get('rebuild') and '__exception__' not in o:
                exp = expected_compiled(c) - set(o.get('stale', []))
                got = {n for k, n in o['par2']['events'] if k == 'start'}
                if got != exp:
                    shape.append('rebuild compiled %s, model predicts %s' % (sorted(got), sorted(exp)))
        return [('known-defect-cases-agree-with-model(F16 name resolution, F16b stale futures on rebuild)', ok_model,
                 'disagreeing: %s %s' % (sorted(bad), '; '.join(detail)[:400])),
                ('rebuild-skips-exactly-the-stale-objects', not shape, '; '.join(shape)[:400])]

PROP = C44

if __name__ == '__main__':
    if len(sys.argv) == 4 and sys.argv[1] == '--batch':
        _batch_main(sys.argv[2], sys.argv[3])
