"""C32 — constant propagation, dead-code removal and removal of unused variables / dummy arguments preserve behaviour.

Pipeline per case: MiniF program (JSON, already in the tree shape the Fortran frontend produces for the text printed
below) -> Fortran text (own printer: natural `a - b`, ELSE IF chains) -> Loki (FP frontend) -> P0 = IR before (must equal
the JSON: round trip checked) -> REAL transformation (do_constant_propagation / do_remove_dead_code /
find_unused_dummy_args_and_vars + do_remove_unused_call_args + do_remove_unused_dummy_args + do_remove_unused_vars)
-> P1 = IR after.  Tie: the Coq model applied to P0 reproduces P1 (stmts_eqb, vm_compute).  Oracle: reference
interpreter on P0 vs P1 over several stores (all scalars and array cells), gfortran on the printed routines in the
thorough tier (and for a sample in the quick tier).

The modelled class is decided by the Coq model itself: candidates are generated freely and only those for which
`in_class_*` evaluates to true are yielded (one extra coqc run inside generate()); the strict comparators
`chk_*` return false outside the class, so a drift between the filter and the tie shows up as a disagreement."""
import copy, itertools, json, os, random
from ..framework import Property
from ..coqlit import coq, C, Nat, Some, Raw
from .. import minif as M
from .. import bridge_expr as B
from .. import coqrun

SCALARS = ['n', 'm', 'x', 'y', 'z', 'k', 'i', 'j']     # all dummies (intent inout): the store is the argument list
INPUTS = ['n', 'm']
LOCALS = ['x', 'y', 'z', 'k']
LOOPVARS = ['i', 'j']
ARRAYS = {'arr': [[1, 4]]}
CALLEE = {   # procedures the generated routines may call: (params, body)
    'setv': {'params': [['p', False], ['q', False]], 'body': [['assign', 'p', ['sum', False, ['var', 'q'], ['int', 1]]]]},
    'rdonly': {'params': [['p', False], ['q', False]], 'body': [['assign', 't', ['sum', False, ['var', 'p'], ['var', 'q']]]]},
    'fill': {'params': [['v', True], ['q', False]], 'body': [['store', 'v', [['int', 2]], ['var', 'q']]]},
}

# ------------------------------------------------------------------------------------ JSON constructors (parsed shape)
def I(v): return ['int', v]
def V(x): return ['var', x]
def par(e):
    if e[0] in ('sum', 'prod', 'quot'): return [e[0], True] + e[2:]
    return e
def add(a, b): return ['sum', False, par(a), par(b)]
def neg(a): return ['prod', False, ['py', -1], par(a)]
def sub(a, b): return ['sum', False, par(a), ['prod', False, ['py', -1], par(b)]]
def mul(a, b): return ['prod', False, par(a), par(b)]
def div(a, b): return ['quot', False, par(a), par(b)]
def arr(i): return ['call', 'arr', i]
def cmp(op, a, b): return ['cmp', op, a, b]
OPS = {'+': add, '-': sub, '*': mul, '/': div}

# ------------------------------------------------------------------------------------ printer
def fx(e):
    k = e[0]
    if k in ('int', 'py'): return str(e[1])
    if k == 'var': return e[1]
    if k == 'log': return '.true.' if e[1] else '.false.'
    if k == 'call': return '%s(%s)' % (e[1], ', '.join(fx(c) for c in e[2:]))
    if k == 'sum':
        a, b = e[2], e[3]
        if b[0] == 'prod' and not b[1] and len(b) == 4 and b[2] == ['py', -1]:
            return '%s - %s' % (fo(a), fo(b[3]))
        return '%s + %s' % (fo(a), fo(b))
    if k == 'prod':
        if len(e) == 4 and e[2] == ['py', -1]: return '-%s' % fo(e[3])
        return '%s * %s' % (fo(e[2]), fo(e[3]))
    if k == 'quot': return '%s / %s' % (fo(e[2]), fo(e[3]))
    if k == 'cmp': return '%s %s %s' % (fx(e[2]), {'!=': '/='}.get(e[1], e[1]), fx(e[3]))
    if k == 'and': return ' .and. '.join(fl(c) for c in e[1:])
    if k == 'or': return ' .or. '.join(fl(c) for c in e[1:])
    if k == 'not': return '.not. %s' % fl(e[1])
    raise ValueError(e)
def fo(e):
    """operand position: compound arithmetic carries its own parentheses (paren flag)"""
    if e[0] in ('sum', 'prod', 'quot'):
        return '(%s)' % fx(e)
    return fx(e)
def fl(e):
    return '(%s)' % fx(e) if e[0] in ('and', 'or', 'cmp', 'not') else fx(e)

def fstmts(ss, ind=2):
    out, pad = [], ' ' * ind
    for s in ss:
        k = s[0]
        if k == 'assign': out.append('%s%s = %s' % (pad, s[1], fx(s[2])))
        elif k == 'store': out.append('%s%s(%s) = %s' % (pad, s[1], ', '.join(fx(i) for i in s[2]), fx(s[3])))
        elif k == 'do':
            hdr = '%sdo %s = %s, %s' % (pad, s[1], fx(s[2]), fx(s[3]))
            if s[4] is not None: hdr += ', %s' % fx(s[4])
            out.append(hdr); out += fstmts(s[5], ind + 2); out.append(pad + 'end do')
        elif k == 'while':
            out.append('%sdo while (%s)' % (pad, fx(s[1]))); out += fstmts(s[2], ind + 2); out.append(pad + 'end do')
        elif k == 'if':
            out.append('%sif (%s) then' % (pad, fx(s[1]))); out += fstmts(s[2], ind + 2)
            e = s[3]
            while len(e) == 1 and e[0][0] == 'if':   # ELSE IF chain
                out.append('%selse if (%s) then' % (pad, fx(e[0][1]))); out += fstmts(e[0][2], ind + 2)
                e = e[0][3]
            if e:
                out.append(pad + 'else'); out += fstmts(e, ind + 2)
            out.append(pad + 'end if')
        elif k == 'call': out.append('%scall %s(%s)' % (pad, s[1], ', '.join(fx(a) for a in s[2])))
        elif k == 'select':
            out.append('%sselect case (%s)' % (pad, fx(s[1])))
            for vals, body in zip(s[2], s[3]):
                out.append('%scase (%s)' % (pad, ', '.join(fval(v) for v in vals))); out += fstmts(body, ind + 2)
            if s[4]: out.append(pad + 'case default'); out += fstmts(s[4], ind + 2)
            out.append(pad + 'end select')
        else: raise ValueError(s)
    return out

def fval(v):
    """a case value: expression or ['range', lo|None, hi|None]"""
    if v[0] == 'range': return '%s:%s' % ('' if v[1] is None else fx(v[1]), '' if v[2] is None else fx(v[2]))
    return fx(v)

def routine_src(name, args, scalars, arrays, body, intents=None, shapes=None):
    intents = intents or {}
    lines = ['subroutine %s(%s)' % (name, ', '.join(args)), '  implicit none']
    for x in scalars:
        it = ', intent(%s)' % intents.get(x, 'inout') if x in args else ''
        lines.append('  integer%s :: %s' % (it, x))
    for a, dims in arrays.items():
        it = ', intent(%s)' % intents.get(a, 'inout') if a in args else ''
        lines.append('  integer%s :: %s(%s)' % (it, a, ', '.join('%s:%s' % (fx(l) if isinstance(l, list) else l, fx(h) if isinstance(h, list) else h) for l, h in dims)))
    lines += fstmts(body)
    lines.append('end subroutine %s' % name)
    return '\n'.join(lines)

def callee_src(name):
    p = CALLEE[name]
    sc = [d for d, a in p['params'] if not a] + (['t'] if name == 'rdonly' else [])
    ar = {d: [[1, 4]] for d, a in p['params'] if a}
    return routine_src(name, [d for d, _ in p['params']], sc, ar, p['body'])

def cp_unit_src(body):
    return routine_src('lv32', SCALARS + list(ARRAYS), SCALARS, ARRAYS, body)

# ------------------------------------------------------------------------------------ helpers on programs
def count_stmts(ss):
    n = 0
    for s in ss:
        n += 1
        if s[0] == 'do': n += count_stmts(s[5])
        elif s[0] == 'while': n += count_stmts(s[2])
        elif s[0] == 'if': n += count_stmts(s[2]) + count_stmts(s[3])
    return n
def fuel(ss): return Nat(2 * count_stmts(ss) + 6)

def do_vars(ss):
    out = set()
    for s in ss:
        if s[0] == 'do': out.add(s[1]); out |= do_vars(s[5])
        elif s[0] == 'while': out |= do_vars(s[2])
        elif s[0] == 'if': out |= do_vars(s[2]) | do_vars(s[3])
    return out

def has_kind(ss, kinds):
    for s in ss:
        if s[0] in kinds: return True
        if s[0] == 'do' and has_kind(s[5], kinds): return True
        if s[0] == 'while' and has_kind(s[2], kinds): return True
        if s[0] == 'if' and (has_kind(s[2], kinds) or has_kind(s[3], kinds)): return True
    return False

def procs_for(ss):
    return {k: {'params': [tuple(p) for p in v['params']], 'body': v['body']} for k, v in CALLEE.items()}

def stores_for(case, nstores):
    rng = random.Random(json.dumps(case.get('body', case.get('caller', [])), sort_keys=True) + str(case.get('kind')))
    out = []
    for k in range(nstores):
        st = {x: rng.randint(-3, 6) for x in SCALARS}
        if k == 0: st.update({'n': 0, 'm': 0})
        if k == 1: st.update({'n': 3, 'm': 1})
        st['arr'] = {(q,): rng.randint(-3, 6) for q in range(1, 5)}
        out.append(st)
    return out

def run_prog(ss, st, procs):
    st = copy.deepcopy(st)
    try:
        M.interp(ss, st, procs, budget=[20000])
    except M.Stuck as e:
        return ('stuck', str(e))
    flat = {k: v for k, v in st.items() if not isinstance(v, dict)}
    for a, d in st.items():
        if isinstance(d, dict):
            for idx, v in d.items(): flat['%s%s' % (a, list(idx))] = v
    return ('ok', flat)

def compare_runs(p0, p1, stores, procs0, procs1=None, ignore=()):
    """None if p1 computes what p0 computes on every store where p0 runs without error"""
    procs1 = procs1 if procs1 is not None else procs0
    for st in stores:
        r0 = run_prog(p0, st, procs0)
        if r0[0] != 'ok': continue
        if any(abs(v) >= 2 ** 30 for v in r0[1].values()): continue
        r1 = run_prog(p1, st, procs1)
        if r1[0] != 'ok':
            return 'transformed routine fails (%s) where the original terminates normally; store %s' % (r1[1], _fmt(st))
        keys = sorted((set(r0[1]) | set(r1[1])) - set(ignore))
        diff = [(k, r0[1].get(k, 0), r1[1].get(k, 0)) for k in keys if r0[1].get(k, 0) != r1[1].get(k, 0)]
        if diff:
            return 'outputs differ on store %s: %s (name, original, transformed)' % (_fmt(st), diff[:4])
    return None

def _fmt(st):
    return {k: (v if not isinstance(v, dict) else [v[i] for i in sorted(v)]) for k, v in st.items()}

# ------------------------------------------------------------------------------------ SELECT CASE (outside MiniF: oracle only)
def sel_from_loki(nodes):
    """like minif.from_loki, plus ['select', selector, [[case values]..], [[body]..], default]; a case value is an expression
    or ['range', lo|None, hi|None]"""
    from loki import ir
    from loki.expression import symbols as sym
    def val(v):
        if isinstance(v, sym.RangeIndex):
            if v.step is not None: raise M.Unsupported('case range with stride')
            return ['range', None if v.lower is None else B.structure(v.lower), None if v.upper is None else B.structure(v.upper)]
        return B.structure(v)
    def flat(ns):
        out = []
        for n in ns or ():
            if isinstance(n, (tuple, list)): out += flat(n)
            else: out.append(n)
        return out
    out = []
    for n in flat(nodes):
        if isinstance(n, (ir.Comment, ir.CommentBlock, ir.Pragma)): continue
        if isinstance(n, ir.Section): out += sel_from_loki(n.body)
        elif isinstance(n, ir.MultiConditional):
            out.append(['select', B.structure(n.expr), [[val(v) for v in vs] for vs in n.values],
                        [sel_from_loki(b) for b in n.bodies], sel_from_loki(n.else_body or ())])
        elif isinstance(n, ir.Loop):
            b = n.bounds
            out.append(['do', n.variable.name.lower(), B.structure(b.start), B.structure(b.stop),
                        None if b.step is None else B.structure(b.step), sel_from_loki(n.body)])
        elif isinstance(n, ir.WhileLoop): out.append(['while', B.structure(n.condition), sel_from_loki(n.body)])
        elif isinstance(n, ir.Conditional):
            out.append(['if', B.structure(n.condition), sel_from_loki(n.body), sel_from_loki(n.else_body or ())])
        else: out += M.from_loki((n,))
    return out

def desugar(ss):
    """SELECT CASE as an IF chain (Fortran: the selector is evaluated once, at most one block runs, case values do not overlap)"""
    out = []
    for s in ss:
        k = s[0]
        if k == 'select':
            sel = s[1]
            def match(v):
                if v[0] == 'range':
                    cs = []
                    if v[1] is not None: cs.append(['cmp', '>=', sel, v[1]])
                    if v[2] is not None: cs.append(['cmp', '<=', sel, v[2]])
                    return ['and'] + cs if cs else ['log', True]
                return ['cmp', '==', sel, v]
            chain = desugar(s[4])
            for vals, body in reversed(list(zip(s[2], s[3]))):
                chain = [['if', ['or'] + [match(v) for v in vals], desugar(body), chain]]
            out += chain
        elif k == 'if': out.append(['if', s[1], desugar(s[2]), desugar(s[3])])
        elif k == 'do': out.append(s[:5] + [desugar(s[5])])
        elif k == 'while': out.append(['while', s[1], desugar(s[2])])
        else: out.append(s)
    return out

def gen_case_items(rng):
    """pairwise disjoint case values over the integers, from low to high: optional `:a`, singles and `a:b`, optional `a:`"""
    items = []
    cur = rng.randint(-2, 1)
    if rng.random() < 0.3:
        items.append(['range', None, I(cur) if cur >= 0 else neg(I(-cur))]); cur += 1
    for _ in range(rng.randint(2, 5)):
        cur += rng.randint(0, 2)
        if cur < 0: cur = 0
        if rng.random() < 0.5:
            items.append(I(cur)); cur += 1
        else:
            w = rng.randint(0, 3)
            items.append(['range', I(cur), I(cur + w)]); cur += w + 1
    if rng.random() < 0.3:
        cur += rng.randint(0, 2)
        items.append(['range', I(cur), None]); cur += 1
    return items, cur

def gen_select_cases(rng, depth=2):
    """SELECT CASE with literal / foldable / run-time selectors; case values: literals, lists, ranges a:b, :a, a:; with and
    without default; every block ends with an assignment (an emptied block is a separate, known Transformer defect)"""
    g = Gen(rng, dovar_outside=False)
    def assign(): return ['assign', rng.choice(LOCALS), g.expr() if rng.random() < 0.4 else g.lit()]
    def cond():
        r = rng.random()
        if r < 0.3: return ['log', rng.random() < 0.5]
        if r < 0.55: return cmp(rng.choice(['<', '<=', '>', '>=', '==', '!=']), g.lit(), g.lit())
        return cmp(rng.choice(['<', '<=', '>', '>=', '==', '!=']), V(rng.choice(['n', 'm', 'x'])), g.lit())
    def select(d):
        items, top = gen_case_items(rng)
        rng.shuffle(items)
        ncase = rng.randint(1, min(3, len(items)))
        vals = [[items.pop()] for _ in range(ncase)]
        while items and rng.random() < 0.6: vals[rng.randrange(ncase)].append(items.pop())
        v = rng.randint(-3, top + 2)
        r = rng.random()
        if r < 0.35: sel = I(v) if v >= 0 else neg(I(-v))
        elif r < 0.6:
            a = rng.randint(0, 6); sel = rng.choice([add(I(a), I(v - a)) if v >= a else sub(I(a), I(a - v)), sub(I(v + a), I(a)) if v + a >= 0 else sub(I(0), I(-v)), mul(I(1), I(abs(v)))])
        else: sel = rng.choice([V('n'), V('m'), add(V('n'), I(rng.randint(0, 3)))])
        bodies = [stmts(d, rng.randint(0, 2)) + [assign()] for _ in range(ncase)]
        dflt = (stmts(d, rng.randint(0, 1)) + [assign()]) if rng.random() < 0.6 else []
        return ['select', sel, vals, bodies, dflt]
    def stmts(d, n):
        out = []
        for _ in range(n):
            r = rng.random()
            if d > 0 and r < 0.35: out.append(select(d - 1))
            elif d > 0 and r < 0.65: out.append(['if', cond(), stmts(d - 1, rng.randint(0, 1)) + [assign()], stmts(d - 1, rng.randint(0, 2))])
            elif d > 0 and r < 0.72: out.append(['do', 'i', I(1), V('n'), None, stmts(d - 1, rng.randint(0, 1)) + [assign()]])
            else: out.append(assign())
        return out
    return stmts(depth, rng.randint(0, 2)) + [select(depth)] + stmts(depth, rng.randint(0, 1)) + ([select(depth - 1)] if rng.random() < 0.4 else [])

# ------------------------------------------------------------------------------------ generators
def is_closed(e):
    if e[0] in ('var', 'call'): return False
    return all(is_closed(c) for c in e[1:] if isinstance(c, list))

class Gen:
    def __init__(self, rng, dovar_outside=True):
        self.rng = rng
        self.dovar_outside = dovar_outside      # read / assign the DO variable outside its loop
    def lit(self, lo=0, hi=9):
        return I(self.rng.randint(lo, hi))
    def atom(self, free=(), pool=None):
        r = self.rng.random()
        if r < 0.3: return self.lit()
        if self.dovar_outside and not free and pool is None and self.rng.random() < 0.06: return V('i')     # DO variable read outside its loop
        if r < 0.85: return V(self.rng.choice((pool or (INPUTS + LOCALS)) + list(free)))
        if free and self.rng.random() < 0.5: return arr(V(self.rng.choice(list(free))))
        return arr(I(self.rng.randint(1, 4)))
    def closed(self, d):
        """literal-only tree; divisors evaluate to a non-zero value"""
        if d <= 0 or self.rng.random() < 0.3: return self.lit()
        for _ in range(20):
            op = self.rng.choice('+-*/-/')
            e = OPS[op](self.closed(d - 1), self.closed(d - 1))
            try:
                v = M._ev(e, {})
                if abs(v) < 200: return e
            except (M.Stuck, Exception):
                continue
        return self.lit()
    def expr(self, free=(), pool=None):
        r = self.rng.random()
        if r < 0.2: return self.atom(free, pool)
        if r < 0.35: return self.closed(2)
        op = self.rng.choice('++-*/-')
        a = self.atom(free, pool) if self.rng.random() < 0.8 else self.closed(1)
        b = self.atom(free, pool) if self.rng.random() < 0.8 else self.closed(1)
        if self.rng.random() < 0.07: a = neg(self.atom(free, pool))
        if op == '/' and is_closed(b):
            try:
                if M._ev(b, {}) == 0: b = self.lit(1, 9)     # a literal zero divisor is the `crash` kind
            except Exception:
                b = self.lit(1, 9)
        return OPS[op](a, b)
    def cond(self, free=(), d=1):
        r = self.rng.random()
        if d > 0 and r < 0.2:
            k = self.rng.choice(['and', 'or'])
            return [k, self.cond(free, d - 1), self.cond(free, d - 1)]
        if d > 0 and r < 0.27: return ['not', self.cond(free, d - 1)]
        if r < 0.34: return ['log', self.rng.random() < 0.5]
        if r < 0.6: return cmp(self.rng.choice(['<', '<=', '>', '>=', '==', '!=']), self.closed(1), self.closed(1))
        a = self.atom(free) if self.rng.random() < 0.7 else self.expr(free)
        b = self.atom(free) if self.rng.random() < 0.7 else self.expr(free)
        return cmp(self.rng.choice(['<', '<=', '>', '>=', '==', '!=']), a, b)

    def stmts(self, d, n, free, targets, opts):
        out = []
        rng = self.rng
        for _ in range(n):
            r = rng.random()
            if d > 0 and r < opts['do'] and len(free) < 2:
                v = LOOPVARS[len(free)]
                mode = rng.random()
                st = None
                if mode < 0.45:
                    lo, hi = I(1), I(rng.randint(1, 4))
                    if rng.random() < 0.15: lo, hi = I(rng.randint(2, 4)), I(1)      # zero trips
                    if rng.random() < 0.25: st = I(rng.choice([1, 2]))
                    if rng.random() < 0.12: lo, hi, st = I(rng.randint(1, 4)), I(1), neg(I(1))
                elif mode < 0.6:
                    lo, hi = I(1), V('k')                                             # bounds known through the map (or not)
                else:
                    lo, hi = I(1), V(rng.choice(INPUTS))
                    if rng.random() < 0.2: hi = add(V('n'), I(1))
                tg = opts.get('loop_targets') or targets
                body = self.stmts(d - 1, rng.randint(1, 3), list(free) + [v], tg, opts)
                if rng.random() < opts.get('fresh', 0.0):
                    for w in sorted(writes_of(body) - set(LOOPVARS)):
                        out.append(['assign', w, V(rng.choice(INPUTS))])
                out.append(['do', v, lo, hi, st, body])
            elif d > 0 and r < opts['do'] + opts['if']:
                t = self.stmts(d - 1, rng.randint(1, 2), free, targets, opts)
                e = self.stmts(d - 1, rng.randint(0, 2), free, targets, opts)
                if rng.random() < 0.25 and d > 1:
                    e = [['if', self.cond(free), self.stmts(d - 2, 1, free, targets, opts), self.stmts(d - 2, rng.randint(0, 1), free, targets, opts)]]
                out.append(['if', self.cond(free), t, e])
            elif d > 0 and r < opts['do'] + opts['if'] + opts['while'] and not free:
                # terminating by construction: the counter is reset from an input and incremented once per iteration
                c = 'k'
                bound = rng.randint(1, 4)
                body = self.stmts(0, rng.randint(0, 2), free, [t for t in targets if t != c] or ['x'], opts)
                body.insert(rng.randint(0, len(body)), ['assign', c, add(V(c), I(1))])
                init = V(rng.choice(INPUTS)) if rng.random() < 0.8 else I(rng.randint(0, 2))
                out.append(['assign', c, init])
                out.append(['while', cmp('<', V(c), I(bound)), body])
            elif r < opts['do'] + opts['if'] + opts['while'] + opts['call']:
                f = rng.choice(sorted(CALLEE))
                if f == 'fill': args = [V('arr'), self.atom(free)]
                else:
                    a0 = V(rng.choice(targets))
                    a1 = self.expr(free) if rng.random() < 0.5 else self.atom(free)
                    args = [a0, a1]
                if rng.random() < opts.get('fresh', 0.0) and args[0][0] == 'var' and args[0][1] != 'arr':
                    out.append(['assign', args[0][1], V(rng.choice(INPUTS))])
                out.append(['call', f, args])
            elif r < opts['do'] + opts['if'] + opts['while'] + opts['call'] + opts['store']:
                ix = V(rng.choice(list(free))) if free and rng.random() < 0.5 else I(rng.randint(1, 4))
                out.append(['store', 'arr', [ix], self.expr(free)])
            elif self.dovar_outside and not free and rng.random() < 0.05:
                out.append(['assign', 'i', self.lit()])                         # DO variable with an entry before its loop
            else:
                x = rng.choice(targets)
                if free and rng.random() < 0.15:
                    out.append(['assign', x, add(V(x), self.atom(free))])   # "increment" inside a loop
                else:
                    out.append(['assign', x, self.expr(free)])
        return out

def writes_of(ss):
    out = set()
    for s in ss:
        k = s[0]
        if k == 'assign': out.add(s[1])
        elif k == 'do': out.add(s[1]); out |= writes_of(s[5])
        elif k == 'while': out |= writes_of(s[2])
        elif k == 'if': out |= writes_of(s[2]) | writes_of(s[3])
        elif k == 'call': out |= {a[1] for a in s[2] if a[0] == 'var' and a[1] not in ARRAYS}
    return out

CP_PROFILES = [
    ('straight', dict(do=0.0, **{'if': 0.0}, **{'while': 0.0}, call=0.0, store=0.15), 0, 6),
    ('cond', dict(do=0.0, **{'if': 0.3}, **{'while': 0.0}, call=0.0, store=0.1), 2, 5),
    ('loops', dict(do=0.3, **{'if': 0.12}, **{'while': 0.0}, call=0.0, store=0.15, fresh=0.7), 2, 5),
    ('loops-raw', dict(do=0.3, **{'if': 0.1}, **{'while': 0.0}, call=0.0, store=0.15, fresh=0.0), 2, 4),
    ('while', dict(do=0.1, **{'if': 0.1}, **{'while': 0.25}, call=0.0, store=0.1, fresh=0.7), 2, 4),
    ('calls', dict(do=0.1, **{'if': 0.1}, **{'while': 0.0}, call=0.3, store=0.1, fresh=0.6), 1, 5),
    ('mixed', dict(do=0.2, **{'if': 0.2}, **{'while': 0.08}, call=0.1, store=0.1, fresh=0.6), 2, 5),
]

def gen_loopvar_body(rng):
    """the DO variable has an entry before its loop and is read after it"""
    g = Gen(rng)
    opts = dict(do=0.0, **{'if': 0.15}, **{'while': 0.0}, call=0.0, store=0.3)
    body = [['assign', 'i', g.lit()]]
    if rng.random() < 0.5: body.append(['assign', 'x', add(V('i'), g.lit())])
    hi = rng.choice([I(rng.randint(0, 4)), V('n'), V('i')])
    inner = g.stmts(1, rng.randint(1, 2), ['i'], ['y', 'z'], opts)
    for w in sorted(writes_of(inner) - set(LOOPVARS)): body.append(['assign', w, V(rng.choice(INPUTS))])
    body.append(['do', 'i', I(1), hi, None, inner])
    body.append(['assign', rng.choice(['x', 'k']), rng.choice([V('i'), add(V('i'), g.lit()), mul(g.lit(), V('i'))])])
    return body

def gen_cp_body(rng, profile=None):
    g = Gen(rng)
    if profile is None and rng.random() < 0.06:
        return 'loopvar', gen_loopvar_body(rng)
    name, opts, depth, n = profile or rng.choice(CP_PROFILES)
    body = g.stmts(depth, rng.randint(max(2, n - 2), n + 1), [], LOCALS, opts)
    return name, body

def gen_unroll_body(rng):
    """prologue defines every local before use (the second pass starts from the final map of the first one);
    loops have literal bounds; the DO variable is not read after the loop (unrolling leaves it undefined: F32-15)"""
    g = Gen(rng, dovar_outside=False)
    body = []
    for x in LOCALS:
        body.append(['assign', x, rng.choice([V('n'), V('m'), add(V('n'), I(rng.randint(1, 3))), I(rng.randint(0, 5))])])
    rng.shuffle(body)
    opts = dict(do=0.0, **{'if': 0.2}, **{'while': 0.0}, call=0.0, store=0.2)
    for _ in range(rng.randint(1, 3)):
        r = rng.random()
        if r < 0.6:
            v = 'i'
            hi = rng.randint(1, 3)
            inner = g.stmts(1, rng.randint(1, 3), [v], ['x', 'y', 'z'], opts)
            for w in sorted(writes_of(inner) - {'i', 'j'}):
                if rng.random() < 0.7: body.append(['assign', w, V(rng.choice(INPUTS))])
            body.append(['do', v, I(1), I(hi), None, inner])
        else:
            body += g.stmts(1, rng.randint(1, 2), [], LOCALS, opts)
    return body

def gen_dce_body(rng):
    g = Gen(rng)
    opts = dict(do=0.15, **{'if': 0.5}, **{'while': 0.05}, call=0.0, store=0.1)
    return g.stmts(3, rng.randint(2, 4), [], LOCALS, opts)

# ---- unused variables / arguments: caller + one callee with a configurable signature
def gen_unused_case(rng):
    g = Gen(rng)
    nparams = rng.randint(2, 5)
    params = []
    for k in range(nparams):
        isarr = rng.random() < 0.25 and sum(1 for q in params if q[1]) < 2
        params.append(['d%d' % k, isarr])
    used = [p for p in params if rng.random() < 0.6]
    clocals = ['t0', 't1', 'u0']
    body = []
    sc_used = [p[0] for p in used if not p[1]]
    ar_used = [p[0] for p in used if p[1]]
    pool = sc_used + ['t0']
    body.append(['assign', 't0', I(rng.randint(0, 5))])
    for _ in range(rng.randint(1, 4)):
        r = rng.random()
        tgt = rng.choice(pool + (['t1'] if rng.random() < 0.5 else []))
        rd = V(rng.choice(pool)) if rng.random() < 0.7 else I(rng.randint(0, 5))
        if ar_used and r < 0.4:
            a = rng.choice(ar_used)
            if rng.random() < 0.5: body.append(['store', a, [I(rng.randint(1, 4))], add(rd, I(1))])
            else: body.append(['assign', tgt, add(['call', a, I(rng.randint(1, 4))], rd)])
        elif r < 0.55:
            body.append(['if', cmp('>', rd, I(2)), [['assign', tgt, add(rd, I(1))]], []])
        else:
            body.append(['assign', tgt, OPS[rng.choice('+-*')](rd, V(rng.choice(pool)))])
    # caller
    cl_scalars = ['n', 'm', 'x', 'y', 'z', 'w', 'u1', 'u2']
    cl_arrays = {'arr': [[1, 4]], 'loc': [[1, 4]], 'uarr': [[1, 4]]}
    if rng.random() < 0.5: cl_arrays['sarr'] = [[1, V('u1')]]
    actuals = []
    svars = ['x', 'y', 'z', 'w']
    rng.shuffle(svars)
    avars = ['arr', 'loc']
    for k, (d, isarr) in enumerate(params):
        if isarr: actuals.append(V(avars[sum(1 for q in params[:k] if q[1])]))
        elif rng.random() < 0.75 and svars: actuals.append(V(svars.pop()))
        else: actuals.append(rng.choice([I(rng.randint(0, 5)), add(V('n'), I(1))]))
    caller = [['assign', 'x', add(V('n'), I(1))], ['assign', 'y', V('m')], ['assign', 'z', I(2)], ['assign', 'w', I(3)],
              ['store', 'loc', [I(1)], V('x')]]
    call = ['call', 'kern', actuals]
    if rng.random() < 0.3: caller.append(['if', cmp('>', V('n'), I(0)), [call], []])
    elif rng.random() < 0.3:
        caller.insert(0, ['assign', 'i', I(0)])      # keeps the DO variable "used" for the dataflow analysis (see finding F8)
        caller.append(['do', 'i', I(1), I(2), None, [call]])
    else: caller.append(call)
    if rng.random() < 0.5: caller.append(['call', 'kern', actuals])
    caller.append(['assign', 'm', add(V('m'), ['call', 'loc', I(1)])])
    return {'params': params, 'clocals': clocals, 'cbody': body, 'cl_scalars': cl_scalars + ['i'], 'cl_arrays': cl_arrays, 'caller': caller}

# ------------------------------------------------------------------------------------ the property
class C32(Property):
    id = 'C32'
    imports = ['Base.Expr', 'Base.MiniF', 'models.M_C32']
    theorem_file = 'theories/props/T_C32.v'
    parallel = True
    shard = 150
    rule = ('generated MiniF routines over 8 integer dummies and one array: constants and input-dependent values, literal trees '
            'with + - * / (negative operands, truncating division), decidable (`1 < 2`, `.true.`, known-variable) and undecidable '
            'conditions, nested IF / ELSE IF, DO loops with literal / propagated / input-dependent bounds (zero-trip, negative step), '
            'DO WHILE, calls, array elements with literal and DO-variable subscripts; candidates outside the modelled class '
            '(decided by the Coq model: in_class_*) are dropped before the run; kinds: cp (do_constant_propagation), cp-unroll '
            '(unroll_loops=True, two passes), dce (do_remove_dead_code with and without simplify), unused (unused dummies/locals + '
            'call arguments), dce-select (SELECT CASE with literal / foldable / run-time selectors, case values as literals, lists and ranges a:b, :a, a:, with and without default, nested; oracle only), crash (literal division by zero); a case is non-trivial when the transformation changed the routine; '
            'distinct = distinct (kind, program)')
    modelled_not_verified = [
        'SimplifyMapper is modelled only on the class of binary expressions over literals/atoms (everything else is outside the class); its general algebra is C08/C09',
        'LoopUnrollTransformer (used between the two passes when unroll_loops=True) is not modelled here (C31): the tie takes Loki\'s unrolled body as given',
        'declaration-time initialisers (generate_declarations_map) are not part of MiniF routines: the initial map is empty',
        'frontend round trip Fortran text -> IR is checked for equality with the generated JSON on every case, not modelled',
        'RemoveDeadCodeTransformer.visit_MultiConditional (SELECT CASE pruning) is NOT modelled in Coq: kind dce-select is oracle only (reference interpreter on the IF-chain reading of SELECT CASE, gfortran sample); single-value pruning has a Coq model in C40 (kdce)',
        'do_remove_unused_vars / do_remove_unused_dummy_args only edit declarations: checked by comparing the declared names, the MiniF semantics has no declarations',
    ]

    # ---------------------------------------------------------------- generation
    def _filter(self, cands, term_of):
        """keep the candidates for which the Coq class predicate is true"""
        terms = [term_of(c) for c in cands]
        bad, err = coqrun.eval_bool_terms(self.imports, terms, shard=200)
        if err:
            return cands     # the model does not build: let the ordinary flow report it
        return [c for i, c in enumerate(cands) if i not in bad]

    def generate(self, rng, tier):
        quick = tier == 'quick'
        # fixed small corpus of hand-written programs (always first)
        for c in HAND_CASES: yield copy.deepcopy(c)
        # --- constant propagation
        ncand = 500 if quick else 3000
        cands = []
        for _ in range(ncand):
            name, body = gen_cp_body(rng)
            cands.append({'kind': 'cp', 'profile': name, 'body': body})
        kept = self._filter(cands, lambda c: coq(C('in_class_cp', fuel(c['body']), M.stmts_model(c['body']))))
        self.class_rate_cp = (len(kept), len(cands))
        keys = {json.dumps(c['body']) for c in kept}
        for k, c in enumerate(kept[:(280 if quick else 2400)]):
            c['gf'] = ((not quick) and k % 25 == 0) or (quick and k % 110 == 0)
            yield c
        # --- outside the behaviour-preserving class, inside the expression class: only the correspondence of the
        #     model without the class conditions is checked (differences of behaviour there are the known findings)
        rest = [c for c in cands if json.dumps(c['body']) not in keys]
        rest = self._filter(rest[:(120 if quick else 600)], lambda c: coq(C('in_class_raw', fuel(c['body']), M.stmts_model(c['body']))))
        for c in rest[:(50 if quick else 400)]:
            c['kind'] = 'cp-raw'
            yield c
        # --- unroll_loops=True (first pass must be in the class)
        cands = [{'kind': 'cp-unroll', 'body': gen_unroll_body(rng)} for _ in range(70 if quick else 400)]
        kept = self._filter(cands, lambda c: coq(C('in_class_cp', fuel(c['body']), M.stmts_model(c['body']))))
        for c in kept[:(40 if quick else 300)]: yield c
        # --- dead code
        cands = [{'kind': 'dce', 'simplify': rng.random() < 0.7, 'body': gen_dce_body(rng)} for _ in range(220 if quick else 1500)]
        kept = self._filter(cands, lambda c: coq(C('in_class_dce', c['simplify'], M.stmts_model(c['body']))))
        for k, c in enumerate(kept[:(140 if quick else 1200)]):
            c['gf'] = (not quick) and (k % 25 == 0)
            yield c
        # --- dead code on SELECT CASE (visit_MultiConditional): oracle only, no Coq model
        for k in range(150 if quick else 1200):
            yield {'kind': 'dce-select', 'simplify': rng.random() < 0.75, 'body': gen_select_cases(rng), 'gf': k % (30 if quick else 40) == 0}
        for c in SELECT_HAND: yield copy.deepcopy(c)
        # --- dead code: pruning a whole ELSE IF branch raises (ValidationError for has_elseif=())
        for _ in range(6 if quick else 30):
            g = Gen(rng)
            tail = rng.choice([[], [['if', cmp('<', g.lit(), V('m')), [['assign', 'y', g.lit()]], []], ['assign', 'z', g.lit()]]])
            body = [['if', cmp('>', V('n'), g.lit()), [['assign', 'x', g.lit()]],
                     [['if', rng.choice([['log', False], cmp('<', I(3), I(2))]), [['assign', 'y', g.lit()]], tail]]]]
            yield {'kind': 'dce-crash', 'simplify': True, 'body': body}
        # --- unused variables / arguments
        for _ in range(70 if quick else 400):
            c = gen_unused_case(rng); c['kind'] = 'unused'
            yield c
        # --- transformation raises
        for _ in range(8 if quick else 40):
            g = Gen(rng)
            body = [['assign', 'k', I(0)], ['assign', 'x', div(g.lit(1, 9), rng.choice([I(0), V('k'), sub(I(2), I(2))]))]]
            yield {'kind': 'crash', 'body': body}

    # ---------------------------------------------------------------- implementation side
    def _parse(self, src):
        from loki import Subroutine
        from loki.frontend import FP
        return Subroutine.from_source(src, frontend=FP)

    def run_impl(self, case):
        kind = case['kind']
        if kind in ('cp', 'cp-raw', 'crash', 'finding-cp'):
            return self._run_cp(case, unroll=bool(case.get('unroll')))
        if kind == 'cp-unroll':
            return self._run_cp(case, unroll=True)
        if kind in ('dce', 'dce-crash'):
            return self._run_dce(case)
        if kind == 'dce-select':
            return self._run_dce(case, conv=sel_from_loki)
        if kind in ('unused', 'finding-unused'):
            return self._run_unused(case)
        if kind == 'finding-src':
            return self._run_src(case)
        raise ValueError(kind)

    def _run_cp(self, case, unroll):
        from loki.transformations.constant_propagation import do_constant_propagation
        from loki.transformations.transform_loop import LoopUnrollTransformer
        from loki import fgen
        src = cp_unit_src(case['body'])
        r = self._parse(src)
        p0 = M.from_loki(r.body.body)
        out = {'roundtrip': p0 == case['body']}
        if not out['roundtrip']: out['p0'] = p0
        try:
            do_constant_propagation(r, unroll_loops=False)
            out['p1'] = M.from_loki(r.body.body)
            out['src1'] = fgen(r)
        except (ZeroDivisionError, M.Unsupported, B.NotRepresentable) as e:
            return {'roundtrip': out['roundtrip'], 'error': type(e).__name__}
        if unroll:
            r2 = self._parse(src)
            do_constant_propagation(r2, unroll_loops=False)
            r2.body = LoopUnrollTransformer().visit(r2.body)
            out['p2'] = M.from_loki(r2.body.body)
            r3 = self._parse(src)
            try:
                do_constant_propagation(r3, unroll_loops=True)
            except ZeroDivisionError:
                out['error2'] = 'ZeroDivisionError'      # raised by the second pass only
                return out
            out['p3'] = M.from_loki(r3.body.body)
            out['src3'] = fgen(r3)
        return out

    def _run_src(self, case):
        """raw Fortran routine (features outside MiniF, e.g. declaration initialisers): do_constant_propagation only"""
        from loki.transformations.constant_propagation import do_constant_propagation
        from loki import fgen
        r = self._parse(case['src'])
        do_constant_propagation(r, unroll_loops=False)
        return {'roundtrip': True, 'src1': fgen(r)}

    def _run_dce(self, case, conv=None):
        from loki.transformations.remove_code import do_remove_dead_code
        from loki import fgen
        src = cp_unit_src(case['body'])
        r = self._parse(src)
        conv = conv or (lambda body: M.from_loki(body.body))
        if conv is sel_from_loki: conv = lambda body: sel_from_loki(body.body)
        p0 = conv(r.body)
        out = {'roundtrip': p0 == case['body']}
        if not out['roundtrip']: out['p0'] = p0
        try:
            do_remove_dead_code(r, use_simplify=bool(case['simplify']))
        except Exception as e:
            if type(e).__name__ != 'ValidationError': raise
            return {'roundtrip': out['roundtrip'], 'error': 'ValidationError'}
        out['p1'] = conv(r.body)
        out['src1'] = fgen(r)
        return out

    def _run_unused(self, case):
        from loki import Sourcefile, FindNodes, ir
        from loki.frontend import FP
        from loki.transformations.remove_code import (find_unused_dummy_args_and_vars, do_remove_unused_call_args,
                                                      do_remove_unused_dummy_args, do_remove_unused_vars)
        params = case['params']
        k_sc = [d for d, a in params if not a] + case['clocals']
        k_ar = {d: [[1, 4]] for d, a in params if a}
        ksrc = routine_src('kern', [d for d, _ in params], k_sc, k_ar, case['cbody'])
        csrc = routine_src('lv32c', ['n', 'm', 'arr'], case['cl_scalars'], case['cl_arrays'], case['caller'])
        sf = Sourcefile.from_source(ksrc + '\n\n' + csrc + '\n', frontend=FP)
        kern, caller = sf['kern'], sf['lv32c']
        caller.enrich(kern)
        out = {'roundtrip': M.from_loki(kern.body.body) == case['cbody'] and M.from_loki(caller.body.body) == case['caller']}
        uargs, uvars = find_unused_dummy_args_and_vars(kern)
        out['k_upos'] = sorted(int(v) for v in uargs.values())
        out['k_ulocals'] = [str(v.name).lower() for v in uvars]
        cuargs, cuvars = find_unused_dummy_args_and_vars(caller)
        out['c_upos'] = sorted(int(v) for v in cuargs.values())
        out['c_ulocals'] = [str(v.name).lower() for v in cuvars]
        do_remove_unused_call_args(caller, {kern: uargs})
        do_remove_unused_dummy_args(kern, uargs)
        do_remove_unused_vars(kern, remove_only_arrays=False)
        do_remove_unused_vars(caller, remove_only_arrays=False)
        out['k_args'] = [str(a.name).lower() for a in kern.arguments]
        out['k_vars'] = sorted(str(v.name).lower() for v in kern.variables)
        out['c_vars'] = sorted(str(v.name).lower() for v in caller.variables)
        out['caller1'] = M.from_loki(caller.body.body)
        out['kbody1'] = M.from_loki(kern.body.body)
        out['src1'] = sf.to_fortran()
        return out

    # ---------------------------------------------------------------- model side
    def model_term(self, case, out):
        kind = case['kind']
        if '__exception__' in out: return 'false'
        if not out.get('roundtrip', False): return 'false'
        if kind in ('crash', 'cp', 'cp-raw', 'cp-unroll') and 'error' in out:
            return coq(C('negb', C('in_class_raw', fuel(case['body']), M.stmts_model(case['body']))))
        if kind == 'finding-cp':
            if 'error' in out: return None
            if case.get('unroll'): return None
            return coq(C('chk_finding', fuel(case['body']), M.stmts_model(case['body']), M.stmts_model(out['p1'])))
        if kind == 'cp':
            return coq(C('chk_cp', fuel(case['body']), M.stmts_model(case['body']), M.stmts_model(out['p1'])))
        if kind == 'cp-raw':
            return coq(C('chk_cp_raw', fuel(case['body']), M.stmts_model(case['body']), M.stmts_model(out['p1'])))
        if kind == 'cp-unroll' and 'error2' in out:
            fu = Nat(2 * max(count_stmts(case['body']), count_stmts(out['p2'])) + 6)
            return coq(C('chk_cp2_raises', fu, M.stmts_model(case['body']), M.stmts_model(out['p1']), M.stmts_model(out['p2'])))
        if kind == 'cp-unroll':
            fu = Nat(2 * max(count_stmts(case['body']), count_stmts(out['p2'])) + 6)
            return coq(C('chk_cp2_weak', fu, M.stmts_model(case['body']), M.stmts_model(out['p1']), M.stmts_model(out['p2']), M.stmts_model(out['p3'])))
        if kind == 'dce-select':
            return None       # SELECT CASE is outside MiniF and not modelled: oracle only (round trip still enforced above)
        if kind in ('dce', 'dce-crash') and 'error' in out:
            return coq(C('negb', C('in_class_dce', bool(case['simplify']), M.stmts_model(case['body']))))
        if kind in ('dce', 'dce-crash'):
            return coq(C('chk_dce', bool(case['simplify']), M.stmts_model(case['body']), M.stmts_model(out['p1'])))
        if kind in ('unused', 'finding-unused'):
            kargs = [d for d, _ in case['params']]
            kdecls = [(d, [I(4)] if a else []) for d, a in case['params']] + [(t, []) for t in case['clocals']]
            cdecls = [(x, []) for x in case['cl_scalars']] + [(a, [h for l, h in dims if isinstance(h, list)] + [I(1)]) for a, dims in case['cl_arrays'].items()]
            def decls(ds): return [(n, [B.model_of_structure(e) for e in sh]) for n, sh in ds]
            t1 = coq(C('chk_unused', kargs, decls(kdecls), M.stmts_model(case['cbody']), [Nat(k) for k in out['k_upos']], out['k_ulocals']))
            t2 = coq(C('chk_unused', ['n', 'm', 'arr'], decls(cdecls), M.stmts_model(case['caller']), [Nat(k) for k in out['c_upos']], out['c_ulocals']))
            t3 = coq(C('chk_rm_call_args', 'kern', [Nat(k) for k in out['k_upos']], M.stmts_model(case['caller']), M.stmts_model(out['caller1'])))
            return '(%s && %s && %s)' % (t1, t2, t3)
        return None

    def show_model(self, case, out):
        if case['kind'] in ('cp', 'cp-raw', 'cp-unroll', 'finding-cp'):
            return ['cp %s %s false [] %s' % ('false' if case['kind'] == 'cp-raw' else 'true', coq(fuel(case['body'])), coq(M.stmts_model(case['body'])))]
        if case['kind'] == 'dce':
            return ['dce %s %s' % (coq(bool(case['simplify'])), coq(M.stmts_model(case['body'])))]
        return []

    # ---------------------------------------------------------------- oracle
    def oracle(self, case, out):
        kind = case['kind']
        if '__exception__' in out:
            return None      # a raising transformation produces no output: counted (impl-exception:*), flagged only through the tie
        if 'error' in out or 'error2' in out: return None
        if kind == 'cp-raw': return None      # outside the class: tie only (see rule)
        nst = 6
        if kind == 'dce-select':
            p0, p1 = desugar(case['body']), desugar(out['p1'])
            msg = compare_runs(p0, p1, stores_for(case, 8), procs_for(p0))
            if msg: return msg
            if case.get('gf'): return self._gfortran(case, out, p0)
            return None
        if kind in ('cp', 'finding-cp', 'cp-unroll', 'dce', 'dce-crash'):
            p0 = case['body']
            p1 = out['p3'] if (kind == 'cp-unroll' or case.get('unroll')) else out['p1']
            procs = procs_for(p0)
            ignore = ()
            if kind == 'cp-unroll' or case.get('unroll'):
                ignore = tuple(do_vars(p0))          # final DO-variable values after unrolling: C31's subject
            msg = compare_runs(p0, p1, stores_for(case, nst), procs, ignore=ignore)
            if msg: return msg
            if case.get('gf') and not has_kind(p0, ('while',)):
                return self._gfortran(case, out, p0)
            return None
        if kind in ('unused', 'finding-unused'):
            return self._oracle_unused(case, out)
        if kind == 'finding-src':
            ok0, o0 = M.gfortran_run([case['src']], case['main'])
            ok1, o1 = M.gfortran_run([out['src1']], case['main'])
            if not ok0: return None
            if not ok1: return 'gfortran: transformed routine fails: %s' % o1[-200:]
            if o0.split() != o1.split():
                return 'gfortran: program output %s with the original routine, %s with the transformed one' % (o0.split(), o1.split())
            return None
        return None

    def _gfortran(self, case, out, p0):
        """compile original and transformed routine (Loki's fgen output) and compare the printed final state"""
        unit = {'name': 'lv32', 'args': SCALARS + list(ARRAYS), 'scalars': SCALARS, 'arrays': ARRAYS}
        callees = [callee_src(f) for f in sorted(CALLEE)] if has_kind(p0, ('call',)) else []
        src0 = cp_unit_src(case['body'])
        src1 = out['src3'] if 'src3' in out else out['src1']
        for st in stores_for(case, 2):
            r0 = run_prog(p0, st, procs_for(p0))
            if r0[0] != 'ok' or any(abs(v) >= 2 ** 30 for v in r0[1].values()): continue
            if not in_bounds(p0, st): continue
            spec = M.observe_spec(st)
            main = M.main_program(unit, st, spec)
            ok0, o0 = M.gfortran_run(callees + [src0], main)
            ok1, o1 = M.gfortran_run(callees + [src1], main)
            if not ok0: continue      # e.g. -fcheck=bounds on the original: not a statement about the transformation
            if not ok1: return 'gfortran: transformed routine fails (%s) on store %s' % (o1[-200:], _fmt(st))
            if o0.split() != o1.split():
                return 'gfortran: outputs differ on store %s: %s vs %s' % (_fmt(st), o0.split(), o1.split())
        return None

    def _oracle_unused(self, case, out):
        params = case['params']
        upos = out['k_upos']
        # declared names must cover everything the bodies still mention
        def names(ss):
            acc = set()
            def ex(e):
                if e[0] == 'var': acc.add(e[1])
                elif e[0] == 'call':
                    if e[1] not in M.INTRINSICS: acc.add(e[1])
                for c in e[1:]:
                    if isinstance(c, list): ex(c)
            def go(ss):
                for s in ss:
                    k = s[0]
                    if k == 'assign': acc.add(s[1]); ex(s[2])
                    elif k == 'store':
                        acc.add(s[1]); [ex(i) for i in s[2]]; ex(s[3])
                    elif k == 'do':
                        acc.add(s[1]); ex(s[2]); ex(s[3]); (s[4] is not None and ex(s[4])); go(s[5])
                    elif k == 'while': ex(s[1]); go(s[2])
                    elif k == 'if': ex(s[1]); go(s[2]); go(s[3])
                    elif k == 'call': [ex(a) for a in s[2]]
            go(ss); return acc
        missing = names(out['kbody1']) - set(out['k_vars'])
        if missing: return 'callee body still uses %s but the declaration was removed' % sorted(missing)
        missing = (names(out['caller1']) - {'kern'}) - set(out['c_vars'])
        if missing: return 'caller body still uses %s but the declaration was removed' % sorted(missing)
        if out['k_args'] != [d for k, (d, _) in enumerate(params) if k not in upos]:
            return 'dummy argument list %s does not match the removed positions %s' % (out['k_args'], upos)
        procs0 = {'kern': {'params': [tuple(p) for p in params], 'body': case['cbody']}}
        procs1 = {'kern': {'params': [tuple(p) for k, p in enumerate(params) if k not in upos], 'body': out['kbody1']}}
        stores = []
        rng = random.Random(json.dumps(case['caller'], sort_keys=True))
        for _ in range(4):
            st = {x: rng.randint(-3, 6) for x in case['cl_scalars']}
            for a in case['cl_arrays']: st[a] = {(q,): rng.randint(-3, 6) for q in range(1, 5)}
            stores.append(st)
        return compare_runs(case['caller'], out['caller1'], stores, procs0, procs1)

    def nontrivial_key(self, case, out):
        kind = case['kind']
        if not isinstance(out, dict) or 'error' in out or 'error2' in out or '__exception__' in out: return None
        if kind in ('cp', 'dce', 'cp-raw', 'dce-select'):
            if out.get('p1') == case['body']: return None
            return (kind, case.get('simplify'), json.dumps(case['body']))
        if kind == 'cp-unroll':
            return (kind, json.dumps(case['body']))
        if kind == 'unused':
            if not out.get('k_upos') and not out.get('c_ulocals') and not out.get('k_ulocals'): return None
            return (kind, json.dumps([case['params'], case['cbody'], case['caller']]))
        return None

    def search(self, rng, bad_cases):
        """shrink around disagreements: every prefix of the body with more stores"""
        for c in bad_cases:
            if 'body' not in c: continue
            for k in range(1, len(c['body']) + 1):
                d = copy.deepcopy(c); d['body'] = d['body'][:k]; d['kind'] = 'finding-cp' if c['kind'] in ('cp', 'cp-unroll') else c['kind']
                if c['kind'] == 'cp-unroll': d['unroll'] = True
                d.pop('gf', None)
                yield d

def in_bounds(ss, st):
    """all array subscripts reached while interpreting stay within 1..4 (gfortran -fcheck=bounds would stop otherwise)"""
    st = copy.deepcopy(st)
    try:
        M.interp(ss, st, procs_for(ss), budget=[20000])
    except M.Stuck:
        return False
    for a, d in st.items():
        if isinstance(d, dict):
            for idx in d:
                if any(i < 1 or i > 4 for i in idx): return False
    return True

# ------------------------------------------------------------------------------------ hand-written corpus (in class)
def _do(v, lo, hi, st, body): return ['do', v, lo, hi, st, body]
HAND_CASES = [
    {'kind': 'cp', 'profile': 'hand', 'body': [['assign', 'x', div(I(7), I(2))], ['assign', 'y', div(neg(I(7)), I(2))], ['assign', 'z', div(sub(I(0), I(7)), I(2))],
                                               ['assign', 'k', div(I(7), neg(I(2)))]]},
    {'kind': 'cp', 'profile': 'hand', 'body': [['assign', 'k', I(7)], ['assign', 'x', div(V('k'), I(2))], ['assign', 'y', sub(V('k'), I(10))], ['assign', 'z', div(V('y'), I(2))],
                                               ['assign', 'y', div(sub(V('k'), I(10)), I(2))]]},
    {'kind': 'cp', 'profile': 'hand', 'body': [['assign', 'x', I(5)], ['if', cmp('>', V('n'), I(0)), [['assign', 'x', I(6)], ['assign', 'y', I(1)]], [['assign', 'y', I(1)]]],
                                               ['assign', 'z', add(V('x'), V('y'))]]},
    {'kind': 'cp', 'profile': 'hand', 'body': [['assign', 'x', V('n')], _do('i', I(1), I(3), None, [['assign', 'x', I(15)], ['assign', 'y', mul(I(5), V('i'))]]), ['assign', 'z', mul(V('x'), I(2))]]},
    {'kind': 'cp', 'profile': 'hand', 'body': [['assign', 'k', V('n')], ['while', cmp('<', V('k'), I(3)), [['assign', 'k', add(V('k'), I(1))]]], ['assign', 'y', V('k')]]},
    {'kind': 'dce', 'simplify': True, 'body': [['if', cmp('<', I(1), I(2)), [['assign', 'x', I(1)]], [['assign', 'x', I(2)]]],
                                               ['if', ['log', True], [['if', ['log', False], [['assign', 'y', I(3)]], [['assign', 'y', I(4)]]]], []],
                                               ['if', cmp('>', V('n'), I(0)), [['assign', 'z', I(1)]], [['if', cmp('>', I(1), I(2)), [['assign', 'z', I(2)]], [['assign', 'z', I(3)]]]]]]},
    {'kind': 'dce', 'simplify': False, 'body': [['if', cmp('<', I(1), I(2)), [['assign', 'x', I(1)]], [['assign', 'x', I(2)]]],
                                                ['if', ['log', False], [['assign', 'y', I(3)]], [['assign', 'y', I(4)]]]]},
]

def _sel(sel, vals, bodies, dflt): return ['select', sel, vals, bodies, dflt]
def _rng(a, b): return ['range', None if a is None else I(a), None if b is None else I(b)]
SELECT_HAND = [   # the scenarios of seeded/C32_2/demo.py in the integer fragment
    {'kind': 'dce-select', 'simplify': True, 'gf': True, 'body': [
        _sel(I(2), [[I(1)], [I(5), I(2)]], [[['assign', 'x', I(1)]], [['assign', 'x', I(2)]]], [['assign', 'x', I(3)]]),
        _sel(I(8), [[I(1)], [I(4)]], [[['assign', 'y', I(1)]], [['assign', 'y', I(2)]]], [['assign', 'y', I(3)]]),
        _sel(add(I(2), I(2)), [[_rng(1, 5)], [I(9)]], [[['assign', 'z', mul(I(10), V('n'))]], [['assign', 'z', I(7)]]], [['assign', 'z', mul(V('z'), I(2))]]),
        _sel(I(7), [[_rng(None, 0)], [_rng(6, None)]], [[['assign', 'k', sub(V('k'), I(100))]], [['assign', 'k', add(V('k'), I(100))]]], []),
        _sel(V('n'), [[_rng(None, 0), I(3)], [_rng(4, 8)]], [[['assign', 'x', add(V('x'), I(5))]], [['assign', 'x', add(V('x'), I(6))]]], [])]},
    {'kind': 'dce-select', 'simplify': False, 'gf': False, 'body': [
        _sel(I(4), [[_rng(1, 5)], [I(9)]], [[['assign', 'z', I(1)]], [['assign', 'z', I(7)]]], [['assign', 'z', I(2)]])]},
]

PROP = C32
