"""C22 — Scheduler processing visits each selected item once, in dependency order.

Generated multi-file Fortran projects (scratch directories, removed afterwards) are fed to the REAL
``Scheduler``; probe ``Transformation`` subclasses (one per manifest: item_filter, reverse_traversal,
traverse_file_graph, process_ignored_items, recursion flags) record every ``apply`` and every
``transform_*``/``plan_*`` call.  The dependency graph, the order networkx produced and all item flags are
extracted from the live scheduler and handed to the Coq model (``M_C22.chk_visit`` etc.), which has to
reproduce the recorded sequence.  The direct oracle re-checks the property on the recorded sequence with
plain Python set/graph code (no model involved).

The project generator / renderer / runner in this file is also used by C23 (case permutations).
"""
import os, re, json, shutil, tempfile, hashlib, random

from ..framework import Property
from ..coqlit import coq, C, Nat, Some, Raw

# --------------------------------------------------------------------------------------------------
# project generator (pure Python, no Loki)
# --------------------------------------------------------------------------------------------------

KINDS = ['KProc', 'KMod', 'KTypeDef', 'KBinding', 'KIface', 'KFile']
# item_filter choices: None = Item
FILTERS = [
    ['KProc'], None, ['KProc', 'KMod'], ['KProc', 'KTypeDef'], ['KMod'], ['KTypeDef'],
    ['KProc', 'KBinding', 'KIface'], ['KProc', 'KBinding', 'KIface', 'KTypeDef', 'KMod'], ['KBinding'], ['KIface', 'KMod'],
]

def closed_filter(f):
    """the file graph respects calls through bindings/interfaces only if the filter keeps these nodes"""
    return f is None or 'KProc' not in f or ('KBinding' in f and 'KIface' in f)

def gen_project(rng, nmin=5, nmax=20, feats=None, contiguous=True):
    """A call DAG over routines r0 (driver) .. r(n-1); edges i -> j only for i < j.
    Routines are grouped into units (a module or a group of free routines), units into files."""
    feats = dict(feats or {})
    n = rng.randint(nmin, nmax)
    # --- units: contiguous chunks of the index range
    units, i = [], 0
    while i < n:
        size = rng.randint(1, 4)
        is_mod = rng.random() < 0.6
        if i == 0 and rng.random() < 0.6:
            is_mod, size = False, 1          # a free-standing driver
        if not is_mod:
            size = min(size, 2)
        units.append({'mod': ('mod%d' % len(units)) if is_mod else None, 'members': list(range(i, min(n, i + size)))})
        i += size
    if not contiguous:
        # shuffle the membership: the file quotient may become cyclic
        ids = list(range(1, n)); rng.shuffle(ids)
        k = 0
        for u in units:
            m = []
            for r in u['members']:
                if r == 0: m.append(0)
                else: m.append(ids[k]); k += 1
            u['members'] = sorted(m)
    # --- files: contiguous chunks of units
    files, j, sfx = [], 0, ['.F90', '.f90', '.F90', '.f']
    while j < len(units):
        size = 1 if rng.random() < 0.65 else rng.randint(2, 3)
        sub = 'sub/' if (feats.get('subdir') and rng.random() < 0.3) else ''
        files.append({'name': '%sfile_%d%s' % (sub, len(files), rng.choice(sfx[:3])), 'units': list(range(j, min(len(units), j + size)))})
        j += size
    unit_of, file_of_unit = {}, {}
    for ui, u in enumerate(units):
        for r in u['members']: unit_of[r] = ui
    for fi, f in enumerate(files):
        for ui in f['units']: file_of_unit[ui] = fi
    # --- routines
    routines = []
    for r in range(n):
        u = units[unit_of[r]]
        kind = 'plain'
        if r > 0 and u['mod']:
            x = rng.random()
            if feats.get('tb') and x < 0.25: kind = 'bound'
            elif feats.get('iface') and x < 0.40: kind = 'generic'
        routines.append({'id': r, 'name': 'driver' if r == 0 else 'rt%d' % r, 'unit': unit_of[r], 'kind': kind,
                         'calls': [], 'types': [], 'globs': [], 'ext': [], 'xmods': []})
    # --- calls (forward only)
    dens = rng.choice([1.2, 1.8, 2.5])
    for jx in range(1, n):
        callers = [i for i in range(jx) if rng.random() < dens / max(2, jx)]
        if not callers and rng.random() < 0.9:
            callers = [rng.randrange(jx)]
        for i in callers:
            routines[i]['calls'].append(jx)
    # --- type / global-variable uses: only of modules in the same or a later unit (keeps the quotient acyclic)
    mods = [ui for ui, u in enumerate(units) if u['mod']]
    for u_i in mods:
        units[u_i]['has_type'] = any(routines[r]['kind'] == 'bound' for r in units[u_i]['members']) or (feats.get('types') and rng.random() < 0.5)
        units[u_i]['has_glob'] = bool(feats.get('globs') and rng.random() < 0.5)
    for r in routines:
        later = [ui for ui in mods if ui >= r['unit']] if contiguous else mods
        if feats.get('types') and rng.random() < 0.3:
            c = [ui for ui in later if units[ui].get('has_type') and ui != r['unit']]
            if c: r['types'].append(rng.choice(c))
        if feats.get('globs') and rng.random() < 0.3:
            c = [ui for ui in later if units[ui].get('has_glob') and ui != r['unit']]
            if c: r['globs'].append(rng.choice(c))
        if feats.get('ext') and rng.random() < 0.15:
            r['ext'].append('ext%d' % rng.randint(0, 1))
        if feats.get('xmod') and rng.random() < 0.12:
            r['xmods'].append('xmod%d' % rng.randint(0, 1))
    return {'n': n, 'units': units, 'files': files, 'routines': routines}

# ---- derived facts -------------------------------------------------------------------------------

def mod_of(proj, r):
    return proj['units'][proj['routines'][r]['unit']]['mod']

def file_of(proj, r):
    ui = proj['routines'][r]['unit']
    for f in proj['files']:
        if ui in f['units']:
            return f['name']
    return None

def item_name(proj, r):
    return ('%s#%s' % (mod_of(proj, r) or '', proj['routines'][r]['name'])).lower()

def call_form(proj, i, j):
    """how routine i calls routine j: ('plain'|'tb'|'iface', spelled call name)"""
    rj = proj['routines'][j]
    same_mod = mod_of(proj, i) is not None and mod_of(proj, i) == mod_of(proj, j)
    if rj['kind'] == 'bound':
        return 'tb'
    if rj['kind'] == 'generic' and not same_mod:
        return 'iface'
    return 'plain'

def has_crossfile_indirect(proj):
    for r in proj['routines']:
        for j in r['calls']:
            if call_form(proj, r['id'], j) != 'plain' and file_of(proj, r['id']) != file_of(proj, j):
                return True
    return False

def plain_callees(proj, i):
    return [j for j in proj['routines'][i]['calls'] if call_form(proj, i, j) == 'plain']

def expected_target_names(proj, i):
    """names Item.targets lists for routine i when nothing is excluded (lower case, as a set)"""
    r = proj['routines'][i]
    out = set()
    me = mod_of(proj, i)
    for j in r['calls']:
        form = call_form(proj, i, j)
        mj = mod_of(proj, j)
        nm = proj['routines'][j]['name']
        if form == 'plain':
            out.add(nm)
            if mj and mj != me: out.add(mj)
        elif form == 'tb':
            out.add('ty_%s' % mj)
            out.add('v_%s%%b_%s' % (mj, nm))
            if mj != me: out.add(mj)
        else:
            out.add('g_%s' % nm); out.add(mj)
    for ui in r['types']:
        m = proj['units'][ui]['mod']; out.add(m); out.add('ty_%s' % m)
    for ui in r['globs']:
        m = proj['units'][ui]['mod']; out.add(m); out.add('gv_%s' % m)
    for e in r['ext']: out.add(e)
    for x in r['xmods']: out.add(x); out.add('xv_%s' % x)
    if r['kind'] == 'bound':
        out.add('ty_%s' % me)      # class(ty_<mod>) :: self  -> dependency on the module's own type definition
    return {s.lower() for s in out}

# ---- rendering -------------------------------------------------------------------------------------

class Casing:
    """spelling of identifiers: None = as generated (lower case); an int seed = every OCCURRENCE of every
    name gets its own random letter case (Fortran is case-insensitive)"""
    def __init__(self, seed=None):
        self.rng = None if seed is None else random.Random('casing/%s' % seed)
    def __call__(self, s):
        if self.rng is None:
            return s
        mode = self.rng.randrange(4)
        if mode == 0: return s.upper()
        if mode == 1: return s.lower()
        if mode == 2: return s.capitalize()
        return ''.join(ch.upper() if self.rng.random() < 0.5 else ch.lower() for ch in s)

def render_routine(proj, i, N, indent=''):
    r = proj['routines'][i]
    me = mod_of(proj, i)
    uses, decls, body = {}, [], []
    def use(m, sym):
        uses.setdefault(m, [])
        if sym not in uses[m]: uses[m].append(sym)
    tvars = set()
    for j in r['calls']:
        form = call_form(proj, i, j)
        mj, nm = mod_of(proj, j), proj['routines'][j]['name']
        if form == 'plain':
            if mj and mj != me: use(mj, nm)
            if proj['routines'][j]['kind'] == 'bound':
                pass
            body.append('call %s(n)' % N(nm))
        elif form == 'tb':
            if mj != me: use(mj, 'ty_%s' % mj)
            tvars.add(mj)
            body.append('call %s%%%s(n)' % (N('v_%s' % mj), N('b_%s' % nm)))
        else:
            use(mj, 'g_%s' % nm)
            body.append('call %s(n)' % N('g_%s' % nm))
    for ui in r['types']:
        m = proj['units'][ui]['mod']
        use(m, 'ty_%s' % m); tvars.add(m)
    for ui in r['globs']:
        m = proj['units'][ui]['mod']
        use(m, 'gv_%s' % m); body.append('k = %s' % N('gv_%s' % m))
    for x in r['xmods']:
        use(x, 'xv_%s' % x); body.append('k = %s' % N('xv_%s' % x))
    for e in r['ext']:
        body.append('call %s(n)' % N(e))
    args = 'n'
    lines = []
    if r['kind'] == 'bound':
        args = 'self, n'
    lines.append('subroutine %s(%s)' % (N(r['name']), args))
    for m, syms in uses.items():
        lines.append('  use %s, only: %s' % (N(m), ', '.join(N(s) for s in syms)))
    lines.append('  implicit none')
    if r['kind'] == 'bound':
        lines.append('  class(%s) :: self' % N('ty_%s' % me))
    lines.append('  integer, intent(in) :: n')
    lines.append('  integer :: k')
    for m in sorted(tvars):
        lines.append('  type(%s) :: %s' % (N('ty_%s' % m), N('v_%s' % m)))
    lines.append('  k = n')
    lines += ['  ' + b for b in body]
    lines.append('end subroutine %s' % N(r['name']))
    return [indent + l for l in lines]

def render(proj, casing=None):
    """{relative path: source text}"""
    N = Casing(casing)
    out = {}
    for f in proj['files']:
        lines = []
        for ui in f['units']:
            u = proj['units'][ui]
            if u['mod'] is None:
                for r in u['members']:
                    lines += render_routine(proj, r, N) + ['']
                continue
            m = u['mod']
            lines.append('module %s' % N(m))
            lines.append('  implicit none')
            if u.get('has_glob'):
                lines.append('  integer :: %s = 1' % N('gv_%s' % m))
            if u.get('has_type'):
                lines.append('  type %s' % N('ty_%s' % m))
                lines.append('    integer :: a')
                bound = [r for r in u['members'] if proj['routines'][r]['kind'] == 'bound']
                if bound:
                    lines.append('  contains')
                    for r in bound:
                        nm = proj['routines'][r]['name']
                        lines.append('    procedure :: %s => %s' % (N('b_%s' % nm), N(nm)))
                lines.append('  end type %s' % N('ty_%s' % m))
            for r in u['members']:
                if proj['routines'][r]['kind'] == 'generic':
                    nm = proj['routines'][r]['name']
                    lines.append('  interface %s' % N('g_%s' % nm))
                    lines.append('    module procedure %s' % N(nm))
                    lines.append('  end interface %s' % N('g_%s' % nm))
            lines.append('contains')
            for r in u['members']:
                lines += render_routine(proj, r, N, '  ')
            lines.append('end module %s' % N(m))
            lines.append('')
        out[f['name']] = '\n'.join(lines) + '\n'
    return out

# ---- configuration ---------------------------------------------------------------------------------

def gen_config(rng, proj, feats):
    n = proj['n']
    strict = rng.random() < 0.5
    default = {'role': 'kernel', 'expand': True, 'strict': strict, 'enable_imports': rng.random() < 0.5}
    if rng.random() < 0.7:
        default['mode'] = 'm0'
    routines = {'driver': {'role': 'driver'}}
    names = [r['name'] for r in proj['routines']]
    def pick_plain(i):
        c = plain_callees(proj, i)
        return [proj['routines'][j]['name'] for j in c]
    # per-routine entries
    for i in range(n):
        ent = {}
        if i > 0 and rng.random() < 0.25:
            ent['mode'] = rng.choice(['m1', 'm0', 'M0'])
        pc = pick_plain(i)
        if pc and rng.random() < 0.2 and feats.get('block'):
            ent['block'] = [rng.choice(pc)]
        if pc and rng.random() < 0.25 and feats.get('ignore'):
            ent['ignore'] = [rng.choice(pc)]
        if pc and rng.random() < 0.12 and feats.get('disable'):
            ent['disable'] = [rng.choice(pc)]
        if i > 0 and rng.random() < 0.06:
            ent['expand'] = False
        if i > 0 and rng.random() < 0.1:
            ent['role'] = rng.choice(['driver', 'kernel'])
        if ent:
            routines.setdefault(names[i], {}).update(ent)
    exts = sorted({e for r in proj['routines'] for e in r['ext']})
    if exts:
        if strict:
            # unknown free routines abort the construction in strict mode unless generated or disabled
            gen = [e for e in exts if rng.random() < 0.6]
            dis = [e for e in exts if e not in gen]
            if gen: default['generated'] = gen
            if dis: default['disable'] = dis
        elif rng.random() < 0.4:
            default['generated'] = [exts[0]]
    xm = sorted({x for r in proj['routines'] for x in r['xmods']})
    if xm and rng.random() < 0.4:
        default['generated'] = list(default.get('generated', [])) + [xm[0]]
    seeds = ['driver']
    if n > 4 and rng.random() < 0.2:
        seeds.append(names[rng.randrange(1, n)])
    return {'default': default, 'routines': routines}, seeds

def constrain_runs(proj, runs):
    """keep file-graph runs inside the class where the code is right (known findings F-C22-1, F-C22-2)"""
    indirect = has_crossfile_indirect(proj)
    generic = any(r['kind'] == 'generic' for r in proj['routines'])
    for r in runs:
        if r['filegraph'] and indirect and not closed_filter(r['filter']):
            r['filter'] = ['KProc', 'KBinding', 'KIface']
        if r['filegraph'] and generic:
            r['rec_proc'] = False

def gen_runs(rng, proj, nruns, full_parse, enable_imports=True, allow_open_filter_fg=None):
    """manifests of the probe transformations to run on one project"""
    indirect = has_crossfile_indirect(proj)
    generic = any(r['kind'] == 'generic' for r in proj['routines'])
    runs = []
    for _ in range(nruns):
        fg = rng.random() < 0.45
        flt = rng.choice(FILTERS) if rng.random() < 0.8 else ['KProc']
        if fg and indirect and not closed_filter(flt) and not allow_open_filter_fg:
            # known finding C22/F-1 lives here: stay inside the class where the code is right
            flt = rng.choice([None, ['KProc', 'KBinding', 'KIface'], ['KProc', 'KBinding', 'KIface', 'KTypeDef', 'KMod']])
        plan = (not full_parse) or rng.random() < 0.3
        if not enable_imports and flt is not None and not set(flt) <= {'KProc', 'KBinding', 'KIface'}:
            # without enable_imports the full parse only completes files that contain a procedure of the graph;
            # applying (not planning) a transformation to module/typedef items is then outside the supported use
            plan = True
        if not enable_imports and flt is None:
            plan = True
        rec_proc = rng.random() < 0.4
        if fg and generic:
            rec_proc = False       # known finding C22/F-2: stay inside the class where the code is right
        runs.append({'filter': flt, 'reverse': rng.random() < 0.5, 'filegraph': fg, 'ignored': rng.random() < 0.4,
                     'rec_mod': rng.random() < 0.4, 'rec_proc': rec_proc, 'rec_int': rng.random() < 0.2,
                     'plan': plan, 'mode': rng.choice([None, None, 'm0', 'm1']), 'pipeline': rng.random() < 0.2})
    return runs

# --------------------------------------------------------------------------------------------------
# running the real scheduler
# --------------------------------------------------------------------------------------------------

def _loki():
    """late import (pool workers / LOKI_VERIF_REPO decide where loki comes from)"""
    import loki.batch as lb
    return lb

def kind_of_cls(cls):
    lb = _loki()
    for k, c in (('KProc', lb.ProcedureItem), ('KMod', lb.ModuleItem), ('KTypeDef', lb.TypeDefItem),
                 ('KBinding', lb.ProcedureBindingItem), ('KIface', lb.InterfaceItem), ('KFile', lb.FileItem)):
        if cls is c or (isinstance(cls, type) and issubclass(cls, c)):
            return k
    return 'KProc'

def filter_classes(flt):
    lb = _loki()
    m = {'KProc': lb.ProcedureItem, 'KMod': lb.ModuleItem, 'KTypeDef': lb.TypeDefItem,
         'KBinding': lb.ProcedureBindingItem, 'KIface': lb.InterfaceItem, 'KFile': lb.FileItem}
    if flt is None:
        return lb.Item
    t = tuple(m[k] for k in flt)
    return t[0] if len(t) == 1 else t

def make_probe(run):
    """a Transformation subclass with the manifest flags of `run`; records every application and call"""
    from loki.batch import Transformation
    class Probe(Transformation):
        item_filter = filter_classes(run['filter'])
        reverse_traversal = bool(run['reverse'])
        traverse_file_graph = bool(run['filegraph'])
        process_ignored_items = bool(run['ignored'])
        recurse_to_modules = bool(run.get('rec_mod'))
        recurse_to_procedures = bool(run.get('rec_proc'))
        recurse_to_internal_procedures = bool(run.get('rec_int'))

        def __init__(self):
            self.apps = []    # one per Transformation.apply
            self.calls = []   # one per transform_*/plan_*

        def apply(self, source, **kwargs):
            item = kwargs.get('item')
            sub = kwargs.get('sub_sgraph')
            succ = None
            try:
                if sub is not None and item in sub._graph:
                    succ = [s.name for s in sub.successors(item)]
            except Exception as e:  # pragma: no cover
                succ = ['<%s>' % type(e).__name__]
            self.apps.append({'name': item.name, 'src': type(source).__name__, 'role': kwargs.get('role'), 'mode': kwargs.get('mode'),
                              'targets': [str(t) for t in (kwargs.get('targets') or ())], 'succ': succ,
                              'plan_mode': bool(kwargs.get('plan_mode')),
                              'items': None if kwargs.get('items') is None else [i.name for i in kwargs['items']],
                              'first': None})
            super().apply(source, **kwargs)

        def _rec(self, meth, plan, ir, kwargs):
            item = kwargs.get('item')
            if self.apps and self.apps[-1]['first'] is None:
                self.apps[-1]['first'] = meth
            self.calls.append([len(self.apps) - 1, meth, bool(plan), None if item is None else item.name,
                               str(getattr(ir, 'name', None) or getattr(ir, 'path', '')),
                               kwargs.get('role'), [str(t) for t in (kwargs.get('targets') or ())]])

        def transform_subroutine(self, routine, **kwargs): self._rec('sub', False, routine, kwargs)
        def plan_subroutine(self, routine, **kwargs): self._rec('sub', True, routine, kwargs)
        def transform_module(self, module, **kwargs): self._rec('mod', False, module, kwargs)
        def plan_module(self, module, **kwargs): self._rec('mod', True, module, kwargs)
        def transform_file(self, sourcefile, **kwargs): self._rec('file', False, sourcefile, kwargs)
        def plan_file(self, sourcefile, **kwargs): self._rec('file', True, sourcefile, kwargs)
    return Probe()

def write_project(root, sources):
    for rel, text in sources.items():
        p = os.path.join(root, rel)
        os.makedirs(os.path.dirname(p), exist_ok=True)
        with open(p, 'w') as f:
            f.write(text)

def canon(root, s):
    """file item names contain the scratch directory"""
    if isinstance(s, str):
        return s.replace(root.lower(), '<root>').replace(root, '<root>')
    return s

def item_record(sched, it, root):
    lb = _loki()
    ext = isinstance(it, lb.ExternalItem)
    fname = ''
    if not ext and it.source is not None:
        fi = sched.item_factory.get_file_item_from_source(it.source)
        fname = canon(root, fi.name) if fi is not None else ''
    return {'name': canon(root, it.name), 'kind': kind_of_cls(it.origin_cls if ext else type(it)), 'ext': ext,
            'gen': bool(getattr(it, 'is_generated', False)), 'ign': bool(it.is_ignored),
            'mode': '<none>' if it.mode is None else str(it.mode), 'role': '<none>' if it.role is None else str(it.role),
            'file': fname}

def extract_graph(sched, root):
    import networkx as nx
    lb = _loki()
    g = sched.sgraph._graph
    # ExternalItems are not cached: one graph node can be represented by several equal objects (node dict vs adjacency
    # dicts) whose is_ignored flags differ.  SFilter sees the objects topological_sort yields, so these are recorded.
    try:
        topo = list(nx.topological_sort(g))
    except nx.NetworkXUnfeasible:
        topo = list(g.nodes)
    seen = {it.name: it for it in topo}
    items = [item_record(sched, seen.get(it.name, it), root) for it in sched.items]
    edges = [[canon(root, a.name), canon(root, b.name)] for a, b in sched.dependencies]
    order = [canon(root, it.name) for it in topo]
    raw, excl = {}, {}
    for it in sched.items:
        if isinstance(it, lb.ExternalItem):
            continue
        try:
            raw[it.name] = [str(t) for t in it._get_children(exclude=())]
        except Exception as e:
            raw[it.name] = ['<%s>' % type(e).__name__]
        excl[it.name] = [str(t).lower() for t in it.disable] + [str(t).lower() for t in it.block]
    return {'items': items, 'edges': edges, 'order': order, 'raw': raw, 'excl': excl}

def run_one(sched, run, root):
    """process one probe; returns the record of the run"""
    import networkx as nx
    from loki.batch import Pipeline, ProcessingStrategy
    lb = _loki()
    probe = make_probe(run)
    strat = ProcessingStrategy.PLAN if run['plan'] else ProcessingStrategy.SEQUENCE
    rec = {}
    try:
        if run.get('mode') is not None:
            p = Pipeline(); p.append(probe)
            sched.process_pipeline(p, proc_strategy=strat, mode=run['mode'])
        elif run.get('pipeline'):
            p = Pipeline(); p.append(probe)
            sched.process(p, proc_strategy=strat)
        else:
            sched.process(probe, proc_strategy=strat)
        rec['outcome'] = ['Done']
    except nx.NetworkXUnfeasible:
        rec['outcome'] = ['Cycle']
    except RuntimeError as e:
        m = re.match(r'Cannot apply \w+ to (.*): Item is marked as external\.', str(e))
        rec['outcome'] = ['ErrExternal', canon(root, m.group(1))] if m else ['Exc', 'RuntimeError', canon(root, str(e))[:200]]
    except Exception as e:
        rec['outcome'] = ['Exc', type(e).__name__, canon(root, str(e))[:200]]
    first = {'sub': 'DSub', 'mod': 'DMod', 'file': 'DFile', None: 'DNone'}
    rec['apps'] = [{'name': canon(root, a['name']), 'disp': first[a['first']], 'src': a['src'],
                    'role': '<none>' if a['role'] is None else str(a['role']),
                    'mode': '<none>' if a['mode'] is None else str(a['mode']),
                    'targets': a['targets'], 'succ': None if a['succ'] is None else [canon(root, s) for s in a['succ']],
                    'plan_mode': a['plan_mode'],
                    'items': None if a['items'] is None else [canon(root, s) for s in a['items']]} for a in probe.apps]
    rec['calls'] = [[c[0], c[1], c[2], canon(root, c[3]), canon(root, c[4]).lower(), c[5], c[6]] for c in probe.calls]
    # what the item attributes say right now (pass-through check)
    attrs = {}
    cache = sched.item_factory.item_cache
    for a in probe.apps:
        it = cache.get(a['name'])
        if it is not None and not isinstance(it, lb.ExternalItem):
            attrs[canon(root, a['name'])] = {'role': '<none>' if it.role is None else str(it.role),
                                              'mode': '<none>' if it.mode is None else str(it.mode),
                                              'targets': [str(t) for t in it.targets]}
    rec['attrs'] = attrs
    if run['filegraph']:
        # the same call process_transformation makes
        from loki.tools import as_tuple
        flt = as_tuple(filter_classes(run['filter']))
        fg = sched.sgraph.as_filegraph(sched.item_factory, sched.config, item_filter=flt,
                                       exclude_ignored=not run['ignored'])
        d = {'nodes': [[canon(root, it.name), bool(it.is_ignored)] for it in fg.items],
             'edges': [[canon(root, a.name), canon(root, b.name)] for a, b in fg.dependencies],
             'files': [[canon(root, it.name), '<none>' if it.mode is None else str(it.mode),
                        '<none>' if it.role is None else str(it.role)] for it in fg.items]}
        try:
            d['order'] = [canon(root, it.name) for it in nx.topological_sort(fg._graph)]
        except nx.NetworkXUnfeasible:
            d['order'] = None
            d['cycle'] = [canon(root, a.name) for a, _ in nx.find_cycle(fg._graph)]
        rec['fg'] = d
    return rec

def run_project(case, sources=None, config=None, seeds=None, extra=None):
    """build the scratch project, construct the real Scheduler, run all probes;
    `extra(sched, root)` (optional) runs last and its result is stored under 'extra'"""
    import networkx as nx
    from loki.batch import Scheduler
    from loki.frontend import FP
    import loki
    loki.config['regex-frontend-timeout'] = 3600     # the machine may be heavily loaded; a timeout is not a finding
    try:
        from loki.logging import set_log_level, ERROR
        set_log_level(ERROR)
    except Exception:
        pass
    root = tempfile.mkdtemp(prefix='lvc22_')
    try:
        src = sources if sources is not None else render(case['proj'], case.get('casing'))
        write_project(root, src)
        cfg = json.loads(json.dumps(config if config is not None else case['config']))
        try:
            sched = Scheduler(paths=[root], config=cfg, seed_routines=list(seeds if seeds is not None else case['seeds']),
                              full_parse=bool(case.get('full_parse', True)), frontend=FP)
        except nx.NetworkXUnfeasible:
            return {'construct': 'Cycle'}
        except Exception as e:
            return {'construct': type(e).__name__, 'msg': canon(root, str(e))[:300]}
        out = {'construct': 'ok', 'graph': extract_graph(sched, root), 'runs': []}
        lb = _loki()
        # sgraph.successors(item, item_filter) for every node and a few filters
        succ = {}
        for fi, flt in enumerate(case.get('succ_filters', [])):
            cls = None if flt == 'none' else filter_classes(flt)
            d = {}
            for it in sched.items[:14]:
                try:
                    d[canon(root, it.name)] = [canon(root, s.name) for s in sched.sgraph.successors(it, item_filter=cls)]
                except Exception as e:
                    d[canon(root, it.name)] = ['<%s>' % type(e).__name__]
            succ[str(fi)] = d
        out['succ'] = succ
        for run in case['runs']:
            out['runs'].append(run_one(sched, run, root))
        g2 = extract_graph(sched, root)
        out['graph_stable'] = (g2['items'] == out['graph']['items'] and g2['edges'] == out['graph']['edges'])
        if extra is not None:
            out['extra'] = extra(sched, root)
        return out
    finally:
        shutil.rmtree(root, ignore_errors=True)

# --------------------------------------------------------------------------------------------------
# Coq literals
# --------------------------------------------------------------------------------------------------

def q_filter(flt):
    if flt is None:
        return Raw('None')
    return Some([Raw(k) for k in flt])

def q_item(d):
    return C('mkItem', d['name'], Raw(d['kind']), bool(d['ext']), bool(d['gen']), bool(d['ign']), d['mode'], d['role'], d['file'])

def q_graph(g):
    return C('mkGraph', [q_item(d) for d in g['items']], [(a, b) for a, b in g['edges']])

def q_files(fg):
    return [C('mkItem', n, Raw('KFile'), False, False, False, m, r, n) for n, m, r in fg['files']]

def q_outcome(o):
    if o[0] == 'Done': return Raw('Done')
    if o[0] == 'ErrExternal': return C('ErrExternal', o[1])
    return None

def q_manifest(run):
    return C('mkMan', q_filter(run['filter']), bool(run['reverse']), bool(run['filegraph']), bool(run['ignored']))

def q_mode(m):
    return Raw('None') if m is None else Some(m)

# --------------------------------------------------------------------------------------------------
# direct oracle (pure Python on the recorded behaviour; no model)
# --------------------------------------------------------------------------------------------------

def _selected(it, flt, excl_ign, incl_ext, mode):
    if it['ext'] and not incl_ext:
        return False
    if flt is not None and it['kind'] not in flt:
        return False
    if excl_ign and it['ign']:
        return False
    if mode is None:
        return True
    if it['ext'] or it['kind'] in ('KTypeDef', 'KIface'):
        return True
    return it['mode'] == mode

def _reach(edges):
    adj = {}
    for a, b in edges:
        adj.setdefault(a, []).append(b)
    memo = {}
    def go(a):
        if a in memo: return memo[a]
        memo[a] = set()
        s = set()
        for b in adj.get(a, []):
            s.add(b); s |= go(b)
        memo[a] = s
        return s
    return go

def oracle_run(case, graph, run, rec, strict, proj=None, check_indirect=True):
    """None or a description of the first deviation from the property"""
    items = {d['name']: d for d in graph['items']}
    apps = rec['apps']
    names = [a['name'] for a in apps]
    out = rec['outcome']
    if out[0] == 'Exc':
        return 'processing raised %s: %s' % (out[1], out[2])
    if len(set(names)) != len(names):
        dup = sorted(n for n in set(names) if names.count(n) > 1)
        return 'transformation applied more than once to %s' % dup[:3]
    excl_ign = not run['ignored']
    mode = run.get('mode')
    reach = _reach(graph['edges'])
    pos = {n: i for i, n in enumerate(names)}
    rev = run['reverse']
    def order_ok(a, b):   # a depends on b (a is the caller)
        if a in pos and b in pos:
            return (pos[a] > pos[b]) if rev else (pos[a] < pos[b])
        return True
    if not run['filegraph']:
        want = [d['name'] for d in graph['items'] if _selected(d, run['filter'], excl_ign, strict, mode)]
        wext = [n for n in want if items[n]['ext']]
        if out[0] == 'Done':
            skipped = {n for n in wext if run['plan'] and items[n]['gen']}
            if wext and set(wext) - skipped:
                return 'external item(s) %s selected in strict mode but processing did not stop' % sorted(set(wext) - skipped)[:3]
            if set(names) != set(want) - skipped:
                return 'applied to %s, selection rule gives %s' % (sorted(set(names) - set(want))[:3] or 'nothing extra', sorted(set(want) - skipped - set(names))[:3] or 'nothing missing')
        elif out[0] == 'ErrExternal':
            n = out[1]
            if n not in wext or (run['plan'] and items[n]['gen']):
                return 'processing stopped at %s which is not a selected (non-generated) external' % n
            if not set(names) <= set(want):
                return 'applied to unselected items %s' % sorted(set(names) - set(want))[:3]
        elif out[0] == 'Cycle':
            return 'dependency graph reported cyclic'
        for a, b in graph['edges']:
            if not order_ok(a, b):
                return 'order inversion: %s %s its dependency %s' % (a, 'before' if rev else 'after', b)
        for a in names:
            for b in reach(a):
                if not order_ok(a, b):
                    return 'order inversion (transitive): %s vs %s' % (a, b)
        for a in apps:
            d = items.get(a['name'])
            want_disp = {'KProc': 'DSub', 'KMod': 'DMod', 'KTypeDef': 'DMod', 'KBinding': 'DMod', 'KIface': 'DNone', 'KFile': 'DFile'}[d['kind']]
            if a['disp'] != want_disp:
                return '%s (%s) dispatched to %s' % (a['name'], d['kind'], a['disp'])
    else:
        fgd = rec.get('fg') or {}
        # class predicate (known finding F-C22-3): members of a module / bindings of a type whose Module/TypeDef item is an IGNORED graph node are lost
        # from items= when ignored items are not processed; outside the class unless the case asks for the strict check
        ign_scopes = set() if (run['ignored'] or case.get('strict_items')) else {d['name'] for d in graph['items'] if d['kind'] in ('KMod', 'KTypeDef') and d['ign'] and not d['ext']}
        def shadowed(name):
            if '#' not in name:
                return False
            return name.split('#')[0] in ign_scopes or ('%' in name and name.split('%')[0] in ign_scopes)
        shadow_files = {d['file'] for d in graph['items'] if shadowed(d['name'])}
        if out[0] == 'Cycle':
            return None if fgd.get('order') is None else 'processing reported a cycle but the file graph sorts'
        sel_items = [d for d in graph['items'] if _selected(d, run['filter'], excl_ign, False, None)]
        files = {}
        for d in sel_items:
            files.setdefault(d['file'], []).append(d)
        fmode = {n: m for n, m, r in fgd.get('files', [])}
        want = [f for f in files if mode is None or fmode.get(f) == mode]
        if out[0] != 'Done':
            return 'file-graph processing ended with %s' % (out,)
        if set(names) != set(want):
            return 'files visited %s, files containing selected items %s' % (sorted(set(names) - set(want))[:3] or 'nothing extra', sorted(set(want) - set(names))[:3] or 'nothing missing')
        fof = {d['name']: d['file'] for d in sel_items}
        def f_ok(a, b):
            fa, fb = fof[a], fof[b]
            if fa == fb or fa not in pos or fb not in pos:
                return True
            return (pos[fa] > pos[fb]) if rev else (pos[fa] < pos[fb])
        for a, b in graph['edges']:
            if a in fof and b in fof and not f_ok(a, b):
                return 'file order inversion: file of %s %s file of its dependency %s' % (a, 'before' if rev else 'after', b)
        if check_indirect:
            # calls through type-bound procedures / interfaces: a -> (binding|interface)+ -> b
            adj = {}
            for a, b in graph['edges']:
                adj.setdefault(a, []).append(b)
            # class predicate (F-C22-1): only chains of binding/interface items that the file graph itself keeps
            # (selected by filter / ignore rule) are followed, unless the case asks for the strict check
            def inter(c):
                return items[c]['kind'] in ('KBinding', 'KIface') and not items[c]['ext'] and (case.get('strict_indirect') or c in fof)
            def via(a):
                seen, st, res = set(), [c for c in adj.get(a, []) if inter(c)], set()
                while st:
                    x = st.pop()
                    if x in seen: continue
                    seen.add(x)
                    for c in adj.get(x, []):
                        if inter(c):
                            st.append(c)
                        else:
                            res.add(c)
                return res
            for a in fof:
                if items[a]['kind'] != 'KProc':
                    continue
                for b in via(a):
                    if b in fof and items[b]['kind'] == 'KProc' and not f_ok(a, b):
                        return ('file order inversion through a type-bound/interface call: %s (%s) calls %s (%s) but its file is visited %s'
                                % (a, fof[a], b, fof[b], 'first' if rev else 'later'))
        for a in apps:
            if a['disp'] != 'DFile':
                return 'file item %s dispatched to %s' % (a['name'], a['disp'])
            if a['items'] is not None:
                # the items handed to transform_file: graph items of this file (ignored ones only if processed) + enclosing scopes
                mine = {d['name'] for d in graph['items'] if d['file'] == a['name'] and not d['ext'] and (run['ignored'] or not d['ign'])
                        and not shadowed(d['name'])}
                got = set(a['items'])
                if not mine <= got:
                    return 'items of %s given to transform_file lack %s' % (a['name'], sorted(mine - got)[:3])
                for extra in got - mine:
                    # must be an enclosing scope (module / typedef) of one of mine
                    if not any(m.startswith(extra + '#') or m.startswith(extra + '%') for m in mine):
                        return 'items of %s given to transform_file contain the unrelated %s' % (a['name'], extra)
    # what each application receives
    for a in apps:
        at = rec['attrs'].get(a['name'])
        if at is None:
            continue
        if a['role'] != at['role'] or a['mode'] != at['mode'] or a['targets'] != at['targets']:
            return 'application to %s received role/mode/targets %s/%s/%s, item has %s/%s/%s' % (
                a['name'], a['role'], a['mode'], a['targets'], at['role'], at['mode'], at['targets'])
        if a['plan_mode'] != bool(run['plan']):
            return 'plan_mode flag wrong for %s' % a['name']
    for c in rec['calls']:
        if c[2] != bool(run['plan']):
            return '%s variant called for %s under the other strategy' % ('plan' if c[2] else 'transform', c[3])
    # recursion: every call belongs to an application; in item mode without recursion flags exactly one call per non-interface item
    if not run['filegraph'] and not (run.get('rec_proc') or run.get('rec_int')):
        per = {}
        for c in rec['calls']:
            per[c[0]] = per.get(c[0], 0) + 1
        for i, a in enumerate(apps):
            want_n = 0 if a['disp'] == 'DNone' else 1
            if per.get(i, 0) != want_n:
                return '%d transform calls for the single application to %s' % (per.get(i, 0), a['name'])
    if run['filegraph'] and run.get('rec_proc'):
        # each selected procedure of a visited file is transformed exactly once, with its own role and targets
        cnt = {}
        for c in rec['calls']:
            if c[1] == 'sub':
                cnt[c[3]] = cnt.get(c[3], 0) + 1
        for d in graph['items']:
            if d['kind'] == 'KProc' and not d['ext'] and d['file'] in pos and (run['ignored'] or not d['ign']) and d['file'] not in shadow_files:
                if cnt.get(d['name'], 0) != 1:
                    return 'procedure %s of visited file %s transformed %d times' % (d['name'], d['file'], cnt.get(d['name'], 0))
    return None

def oracle_targets(case, graph, out):
    """targets = non-blocked, non-disabled dependency names (generator ground truth)"""
    proj = case['proj']
    cfg = case['config']
    byname = {}
    for r in proj['routines']:
        byname[item_name(proj, r['id'])] = r['id']
    for run_rec in out['runs']:
        for a in run_rec['apps']:
            i = byname.get(a['name'])
            if i is None:
                continue
            ent = {}
            for k, v in cfg['routines'].items():
                if k.lower() == proj['routines'][i]['name'].lower():
                    ent = v
            dis = ent.get('disable', cfg['default'].get('disable', []))
            excl = {s.lower() for s in list(dis) + list(ent.get('block', []))}
            want = expected_target_names(proj, i) - excl
            got = {t.lower() for t in a['targets']}
            if got != want:
                return 'targets of %s are %s, its non-blocked dependencies are %s' % (a['name'], sorted(got), sorted(want))
    return None

# --------------------------------------------------------------------------------------------------

def visit_term(case, out):
    """Coq boolean: the C22 model reproduces everything recorded in `out` (None if the scheduler was not built)"""
    if out.get('construct') != 'ok':
        return None
    g = out['graph']
    strict = bool(case['config']['default'].get('strict', True))
    parts = []

    for run, rec in zip(case['runs'], out['runs']):
        o = rec['outcome']
        fgd = rec.get('fg')
        flt = q_filter(run['filter'])
        if o[0] == 'Cycle' or (fgd is not None and fgd.get('order') is None):
            if o[0] != 'Cycle' or fgd is None or not fgd.get('cycle'):
                parts.append('false')
            else:
                parts.append(coq(C('chk_cycle', Raw('g'), Raw('ord'), flt, not run['ignored'], q_files(fgd), fgd['cycle'])))
            continue
        qo = q_outcome(o)
        if qo is None:
            parts.append('false')      # unexpected exception: no model counterpart
            continue
        files = q_files(fgd) if fgd else []
        order_f = fgd['order'] if fgd else []
        impl = [(a['name'], Raw(a['disp']), a['role'], a['mode']) for a in rec['apps']]
        parts.append(coq(C('chk_visit', Raw('g'), files, Raw('ord'), order_f, q_manifest(run), strict, q_mode(run.get('mode')),
                           bool(run['plan']), impl, qo)))
        if fgd:
            parts.append(coq(C('chk_filegraph', Raw('g'), Raw('ord'), flt, not run['ignored'], files,
                               [(n, bool(i)) for n, i in fgd['nodes']], [(a, b) for a, b in fgd['edges']])))
        for a in rec['apps']:
            if not run['filegraph']:
                if a['succ'] is not None:
                    parts.append(coq(C('chk_sub_successors', Raw('g'), flt, a['name'], a['succ'])))
                raw = g['raw'].get(a['name'])
                if raw is not None:
                    parts.append(coq(C('chk_targets', raw, g['excl'].get(a['name'], []), a['targets'])))
    for fi, flt in enumerate(case.get('succ_filters', [])):
        d = out['succ'].get(str(fi), {})
        qf = q_filter(None if flt == 'none' else flt)
        for n, s in d.items():
            parts.append(coq(C('chk_successors', Raw('g'), qf, n, s)))
    if not parts:
        return None
    return '(let g := %s in let ord := %s in %s)' % (coq(q_graph(g)), coq(g['order']), ' && '.join(parts))

class C22(Property):
    id = 'C22'
    title = 'Scheduler processing visits each selected item once, in dependency order'
    imports = ['models.M_C22']
    theorem_file = 'theories/props/T_C22.v'
    parallel = True
    shard = 12
    rule = ('random multi-file Fortran projects (5-20 routines in modules and free-standing, forward call DAG; type-bound and generic-interface '
            'calls, derived-type and global-variable imports, unknown routines/modules = external items; per-routine mode/role/block/ignore/disable/'
            'expand entries; strict or not; 1-2 seeds) are built in scratch directories; on the real Scheduler 5-7 probe transformations per project '
            '(item_filter from 10 class tuples, reverse, file graph, process_ignored_items, recursion flags, SEQUENCE/PLAN, mode, Pipeline) record every '
            'apply/transform_*/plan_* call; a small stream of non-contiguous layouts gives cyclic file quotients (full_parse=False + PLAN). '
            'A case is non-trivial when at least one run applied the probe to >= 3 items; the key is the project digest plus the manifests.')
    modelled_not_verified = [
        'networkx.topological_sort is an oracle: the model quantifies over every order satisfying is_topo, which is evaluated on the order of each real run',
        'Item.targets: modelled as name filtering on the class of plain block/disable keys; the IR walk that produces the raw dependency names is taken from the code',
        'recursion of Transformation.apply_file/apply_module into modules/procedures and the items= list of _get_definition_items are checked by the direct oracle only',
        'how items obtain is_ignored/mode/role (SGraph._add_children, config matching) belongs to C21; here they are inputs',
    ]

    # ---- cases -----------------------------------------------------------------------------------
    def _case(self, rng, tier, kind):
        feats = {'tb': rng.random() < 0.6, 'iface': rng.random() < 0.5, 'types': rng.random() < 0.6, 'globs': rng.random() < 0.6,
                 'ext': rng.random() < 0.35, 'xmod': rng.random() < 0.3, 'block': True, 'ignore': True, 'disable': True,
                 'subdir': rng.random() < 0.3}
        contiguous = kind != 'cyclic-layout'
        proj = gen_project(rng, 5, 20 if tier == 'quick' else 30, feats, contiguous=contiguous)
        cfg, seeds = gen_config(rng, proj, feats)
        full_parse = contiguous and rng.random() < 0.85
        runs = gen_runs(rng, proj, rng.randint(5, 7), full_parse, cfg['default']['enable_imports'])
        if not contiguous:
            for r in runs:
                r['filegraph'] = r['filegraph'] or rng.random() < 0.6
            constrain_runs(proj, runs)
        return {'kind': kind, 'proj': proj, 'config': cfg, 'seeds': seeds, 'full_parse': full_parse, 'runs': runs,
                'succ_filters': [rng.choice(['none', ['KProc']]), rng.choice([['KProc', 'KTypeDef'], ['KTypeDef'], ['KMod', 'KProc'], ['KBinding']])]}

    def generate(self, rng, tier):
        import loki.batch   # in the parent: the fork pool inherits the (slow) import
        n = 34 if tier == 'quick' else 600
        for k in range(n):
            yield self._case(rng, tier, 'project')
        for k in range(5 if tier == 'quick' else 60):
            yield self._case(rng, tier, 'cyclic-layout')
        # small edge stream
        for k in range(3 if tier == 'quick' else 20):
            c = self._case(rng, tier, 'tiny')
            c['proj'] = gen_project(rng, 1, 3, {'tb': True, 'ext': True}, True)
            c['config'], c['seeds'] = gen_config(rng, c['proj'], {})
            yield c

    def run_impl(self, case):
        return run_project(case)

    # ---- model tie ---------------------------------------------------------------------------------
    def model_term(self, case, out):
        return visit_term(case, out)

    def show_model(self, case, out):
        if out.get('construct') != 'ok' or 'graph' not in out:
            return []
        g = out['graph']
        strict = bool(case['config']['default'].get('strict', True))
        res = ['is_topo %s %s' % (coq(q_graph(g)), coq(g['order']))]
        for run, rec in zip(case['runs'], out['runs']):
            fgd = rec.get('fg')
            if fgd is not None and fgd.get('order') is None:
                continue
            files = q_files(fgd) if fgd else []
            order_f = fgd['order'] if fgd else []
            res.append('let (v, o) := process %s %s %s %s %s %s %s %s in (map appl_of v, o)' % (
                coq(q_graph(g)), coq(files), coq(g['order']), coq(order_f), coq(q_manifest(run)), coq(strict),
                coq(q_mode(run.get('mode'))), coq(bool(run['plan']))))
        return res[:4]

    # ---- oracle ------------------------------------------------------------------------------------
    def oracle(self, case, out):
        c = out.get('construct')
        if c != 'ok':
            if c == 'Cycle' and case['kind'] == 'cyclic-layout':
                return None      # cyclic file quotient: reported as not applicable (the scheduler cannot be built with a full parse)
            if case.get('expect_construct') == c:
                return None
            return 'Scheduler construction failed: %s %s' % (c, out.get('msg', ''))
        if not out.get('graph_stable', True):
            return 'the probe runs changed the dependency graph'
        strict = bool(case['config']['default'].get('strict', True))
        for run, rec in zip(case['runs'], out['runs']):
            msg = oracle_run(case, out['graph'], run, rec, strict, check_indirect=True)
            if msg:
                return 'run %s: %s' % (json.dumps({k: run[k] for k in ('filter', 'reverse', 'filegraph', 'ignored', 'plan', 'mode')}), msg)
        if case.get('proj'):
            return oracle_targets(case, out['graph'], out)
        return None

    def nontrivial_key(self, case, out):
        if out.get('construct') != 'ok':
            return None
        if not any(len(r['apps']) >= 3 for r in out['runs']):
            return None
        h = hashlib.sha1(json.dumps([case['proj'], case['config'], case['runs']], sort_keys=True).encode()).hexdigest()[:12]
        return h

    def search(self, rng, bad_cases):
        # around a disagreement: same project, every filter x reverse x filegraph
        for c in bad_cases[:5]:
            d = json.loads(json.dumps({k: v for k, v in c.items() if not k.startswith('_')}))
            runs = []
            for flt in FILTERS:
                for rev in (False, True):
                    for fg in (False, True):
                        runs.append({'filter': flt, 'reverse': rev, 'filegraph': fg, 'ignored': False, 'rec_mod': False, 'rec_proc': True,
                                     'rec_int': False, 'plan': not c.get('full_parse', True), 'mode': None, 'pipeline': False})
            d['runs'] = runs
            d['kind'] = 'search'
            yield d

PROP = C22
