"""C04 — generated Fortran respects the free-form line limit without altering tokens.

Model tie: JoinableStringList (str(), incl. nesting, `+`, constructor assertions) and Stringifier.format_line against
the Gallina model M_C04 byte-for-byte; format_line calls logged while fgen prints real routines are replayed on the model.
Oracle: on every case, directly on what the implementation printed (line lengths, continuation-only insertions,
breaks outside character literals, token streams of wrapped vs unwrapped output, gfortran in the thorough tier)."""
import os, re, shutil, subprocess, tempfile
from ..framework import Property
from ..coqlit import coq, C, Some, Raw, coq_string

BIG = 10 ** 6


# ----------------------------------------------------------------------------------------------
# trees: None | str | {'j': [trees], 'sep': s, 'w': n, 'cont': str|[a,b], 'sepa': bool} | {'cat': [a, b]}
#        | {'ji': [trees], 'sep': s, 'sepa': bool}   (Stringifier.join_items, only inside format_line cases)
# ----------------------------------------------------------------------------------------------
def build_py(t, cg=None):
    from loki.tools.strings import JoinableStringList
    if t is None or isinstance(t, str):
        return t
    if 'cat' in t:
        return build_py(t['cat'][0], cg) + build_py(t['cat'][1], cg)
    if 'ji' in t:
        return cg.join_items([build_py(i, cg) for i in t['ji']], sep=t['sep'], separable=t['sepa'])
    cont = t['cont']
    if isinstance(cont, list):
        cont = list(cont)
    return JoinableStringList([build_py(i, cg) for i in t['j']], sep=t['sep'], width=t['w'], cont=cont,
                              separable=t['sepa'])


def coq_cont(c):
    if isinstance(c, str):
        return Raw('(inl %s)' % coq_string(c))
    return Raw('(inr (%s, %s))' % (coq_string(c[0]), coq_string(c[1])))


def coq_tree(t, w=None, cont=None):
    if t is None:
        return Raw('SNone')
    if isinstance(t, str):
        return C('SStr', t)
    if 'cat' in t:
        return C('SCat', coq_tree(t['cat'][0], w, cont), coq_tree(t['cat'][1], w, cont))
    if 'ji' in t:
        return C('SJ', [coq_tree(i, w, cont) for i in t['ji']], t['sep'], w, coq_cont(cont), bool(t['sepa']))
    return C('SJ', [coq_tree(i, w, cont) for i in t['j']], t['sep'], t['w'], coq_cont(t['cont']), bool(t['sepa']))


def obj_tree(o):
    """a live JoinableStringList (already constructed: cont is the normalised pair) as a tree"""
    from loki.tools.strings import JoinableStringList
    if o is None or isinstance(o, str):
        return o
    if isinstance(o, JoinableStringList):
        return {'j': [obj_tree(i) for i in o.items], 'sep': o.sep, 'w': o.width, 'cont': list(o.cont), 'sepa': bool(o.separable)}
    return str(o)


def coq_res(out):
    if 'ok' in out:
        return C('Ok', out['ok'])
    return C('Err', Raw({'AssertionError': 'EAssert', 'AttributeError': 'EAttr', 'TypeError': 'EType'}[out['error']]))


def latin1(s):
    return all(ord(ch) < 256 for ch in s)


# ----------------------------------------------------------------------------------------------
# oracle helpers (independent of the model): work on the live objects / printed text
# ----------------------------------------------------------------------------------------------
def flat(o):
    if isinstance(o, str):
        return o
    return o.sep.join(flat(i) for i in o.items)


def leaves(o, out=None):
    """leaf strings with the separators that follow them, in print order"""
    if out is None:
        out = []
    if isinstance(o, str):
        out.append(o)
        return out
    n = len(o.items)
    for k, i in enumerate(o.items):
        leaves(i, out)
        if k + 1 < n:
            out.append(o.sep)
    return out


_Q = re.compile(r'(?:\'.*?\')|(?:".*?")')
_S = re.compile(r'(\s|\)(?!%)|\n)')


def ref_chunks(s):
    """the splitter of _add_item_to_line, re-stated (what 'a chunk boundary permitted by the splitter' means)"""
    out, off = [], 0
    for m in _Q.finditer(s):
        if m.start() > off:
            out += _S.split(s[off:m.start()])
        out.append(m[0])
        off = m.end()
    if off < len(s):
        out += _S.split(s[off:])
    return out


def boundaries(o):
    """offsets in flat(o) where a break is permitted: leaf/separator boundaries and chunk boundaries"""
    b, pos = {0}, 0
    for lf in leaves(o):
        p = pos
        for ch in ref_chunks(lf):
            p += len(ch)
            b.add(p)
        pos += len(lf)
        b.add(pos)
    p = 0
    for ch in ref_chunks(flat(o)):
        p += len(ch)
        b.add(p)
    return b


def literal_cut_offsets(s):
    """offsets k (0<k<len) such that cutting s between k-1 and k falls inside a Fortran character literal"""
    bad, st, q = set(), 0, ''          # 0 out, 1 in, 2 just closed
    for k, ch in enumerate(s):
        if k > 0 and (st == 1 or (st == 2 and ch == q)):
            bad.add(k)
        if st == 1:
            if ch == q: st = 2
        elif st == 2:
            if ch == q: st = 1
            elif ch in '\'"': st, q = 1, ch
            else: st = 0
        else:
            if ch in '\'"': st, q = 1, ch
    return bad, st


def lit_clean(s):
    """balanced quotes, no doubled quote inside a literal (the class on which the splitter is right)"""
    st, q = 0, ''
    for ch in s:
        if st == 1:
            if ch == q: st = 2
            elif ch == '\n': return False
        elif st == 2:
            if ch == q: return False
            elif ch in '\'"': st, q = 1, ch
            else: st = 0
        else:
            if ch in '\'"': st, q = 1, ch
    return st != 1


def unbreakable(s):
    return len([c for c in ref_chunks(s) if c != '']) <= 1


def obj_class(o, top=True, params=None, depth=0):
    """class on which the wrapping is claimed (and proved for depth<=1) to be content preserving:
    uniform width/cont, cont[0] ends with its only newline, no empty strings / lists, no newline in the text,
    every list nested two or more levels below the printed one fits on a line of its own."""
    if isinstance(o, str):
        return o != '' and '\n' not in o
    if params is None:
        params = (o.width, tuple(o.cont))
        c0, c1 = o.cont
        if not c0.endswith('\n') or '\n' in c0[:-1] or '\n' in c1:
            return False
    if (o.width, tuple(o.cont)) != params or not o.items or '\n' in o.sep:
        return False
    if depth >= 2 and len(flat(o)) + 8 + len(o.cont[0]) > o.width:
        return False
    return all(obj_class(i, False, params, depth + 1) for i in o.items)


def check_wrapped(obj, text, first_prefix=''):
    """direct check of the property on one printed object. `first_prefix`: text already on the first line."""
    w, (c0, c1) = obj.width, obj.cont
    content = flat(obj)
    if not lit_clean(content):
        return None
    glue = c0 + c1
    pieces = text.split(glue)
    if ''.join(pieces) != content:
        un = ''.join(pieces)
        k = 0
        while k < min(len(un), len(content)) and un[k] == content[k]: k += 1
        return 'removing the continuations does not give back the joined items (first difference at offset %d: %r vs %r)' % (
            k, un[max(0, k - 12):k + 12], content[max(0, k - 12):k + 12])
    if any('\n' in p for p in pieces):
        return 'a newline was inserted without the continuation markers'
    perm = boundaries(obj)
    bad, _ = literal_cut_offsets(content)
    pos = 0
    for n, p in enumerate(pieces):
        last = n + 1 == len(pieces)
        if n > 0:
            if pos in bad:
                return 'line break inside a character literal at offset %d: ...%r | %r...' % (pos, content[max(0, pos - 10):pos], content[pos:pos + 10])
            if pos not in perm:
                return 'line break inside a chunk at offset %d: ...%r | %r...' % (pos, content[max(0, pos - 10):pos], content[pos:pos + 10])
        line = (first_prefix if n == 0 else c1) + p + c0
        if len(line) > w:
            if n == 0 and not unbreakable(p):
                # the first line may carry several items only if they fit
                return 'first line too long (%d > %d): %r' % (len(line), w, line[:60])
            if n > 0 and not unbreakable(p):
                return 'line %d too long (%d > %d) and not a single chunk: %r' % (n, len(line), w, line[:80])
        pos += len(p)
    return None


# ----------------------------------------------------------------------------------------------
# random generation
# ----------------------------------------------------------------------------------------------
IDCH = 'abcdefghijklmnopqrstuvwxyz_0123456789'


def g_ident(rng, n):
    n = max(1, n)
    return rng.choice('abcdefghijklmnopqrstuvwxyz') + ''.join(rng.choice(IDCH) for _ in range(n - 1))


def g_quoted(rng, n, doubled=False):
    q = rng.choice('\'"')
    other = '"' if q == "'" else "'"
    body = []
    for _ in range(max(0, n - 2)):
        r = rng.random()
        if r < 0.15: body.append(' ')
        elif r < 0.2: body.append(other)
        elif r < 0.25: body.append(rng.choice(')(%,&!'))
        else: body.append(rng.choice(IDCH))
    if doubled and len(body) >= 2:
        k = rng.randrange(1, len(body))
        body[k - 1:k + 1] = [q, q]
    return q + ''.join(body) + q


def g_text(rng, n, style):
    """a string of about n characters; style in expr/ident/member/quoted/mixed/raw"""
    if n <= 0:
        return ''
    if style == 'ident':
        return g_ident(rng, n)
    if style == 'quoted':
        return g_quoted(rng, max(2, n))
    if style == 'dquoted':
        return g_quoted(rng, max(4, n), doubled=True)
    if style == 'raw':
        alph = 'ab z_9 ()%,\'"+*&!\n\t=' + chr(160) + chr(133) + chr(12) + chr(28) + '\r'
        return ''.join(rng.choice(alph) for _ in range(n))
    out = ''
    while len(out) < n:
        r = rng.random()
        left = n - len(out)
        if style == 'member' or r < 0.15:
            out += g_ident(rng, rng.randint(1, 6)) + '(' + g_ident(rng, rng.randint(1, 3)) + ')%' + g_ident(rng, rng.randint(1, 6))
        elif r < 0.3:
            out += g_quoted(rng, rng.randint(2, max(2, min(left, 30))))
        elif r < 0.5:
            out += g_ident(rng, rng.randint(1, 8)) + '(' + g_ident(rng, rng.randint(1, 5)) + ', ' + g_ident(rng, rng.randint(1, 5)) + ')'
        elif r < 0.6:
            out += g_ident(rng, rng.randint(max(1, left // 2), max(1, left)))
        else:
            out += g_ident(rng, rng.randint(1, 9))
        if len(out) < n:
            out += rng.choice([' + ', '*', ' ', ' - ', '/', ' .and. ', ', ', '', ')', '(', ' == '])
    return out


def g_len(rng, w):
    r = rng.random()
    if r < 0.35: return rng.randint(1, 12)
    if r < 0.55: return rng.randint(1, max(1, w // 2))
    if r < 0.8: return max(1, w + rng.randint(-14, 6))
    if r < 0.93: return rng.randint(w, 2 * w + 10)
    return rng.randint(2 * w, 3 * w + 5)


def g_tree(rng, w, cont, depth, clean, uniform=True, inner=False):
    """a JoinableStringList tree; clean: stay inside the claimed class"""
    n = rng.choice([1, 2, 2, 3, 3, 4, 5, 7, 10]) if not inner else rng.choice([1, 2, 2, 3, 4])
    sep = rng.choice(['', ', ', ', ', ' ', ',', ' + ', ' // '])
    items = []
    for _ in range(n):
        r = rng.random()
        if depth > 0 and r < 0.35:
            items.append(g_tree(rng, w, cont, depth - 1, clean, uniform, inner=True))
            continue
        if not clean and r < 0.42:
            pick = rng.randrange(4)
            items.append(None if pick == 0 else '' if pick < 3 else
                         {'j': rng.choice([[], [''], ['', ''], ['', g_text(rng, g_len(rng, w), 'ident')]]), 'sep': sep, 'w': w,
                          'cont': cont, 'sepa': True})
            continue
        ln = g_len(rng, w) if not inner else rng.choice([rng.randint(1, 10), g_len(rng, w)])
        style = rng.choice(['expr', 'expr', 'ident', 'member', 'quoted', 'mixed'] + ([] if clean else ['dquoted', 'raw']))
        items.append(g_text(rng, ln, style))
    t = {'j': items, 'sep': sep, 'w': w, 'cont': cont, 'sepa': rng.random() < 0.6}
    if not uniform and rng.random() < 0.5:
        t['w'] = max(8, w + rng.randint(-10, 10))
    if depth > 0 and rng.random() < 0.12:
        t = {'cat': [rng.choice(['(', 'TYPE(', 'x = ']), {'cat': [t, rng.choice([')', ') ', ''])]}]}
    return t


def g_cont(rng, w, clean):
    ind = rng.choice([0, 0, 2, 2, 4, 4, 6, 8, 10, 14, 20, 30, 45, 60])
    r = rng.random()
    if r < 0.55:
        c = ' &\n' + ' ' * ind + '& '
        return c if rng.random() < 0.5 else [' &\n', ' ' * ind + '& ']
    if r < 0.7:
        return [' &\n', '!$acc & '] if rng.random() < 0.5 else ' &\n!$omp & '
    if r < 0.85:
        return '\n' + ' ' * ind
    if clean:
        return [' &\n', '& ']
    return rng.choice(['', 'abc', '\n', ' &\n a\n b', ['', ''], [' &', ' & '], ' ' * (w + 3) + '\n  &', [' ' * w, '  '],
                       ' &\r\n  & ', [' & \n', ' ' * (w - 1) + '&']])


class C04(Property):
    id = 'C04'
    imports = ['models.M_C04']
    theorem_file = 'theories/props/T_C04.v'
    parallel = True
    shard = 250
    rule = ('jsl: random JoinableStringList trees (depth 0-3, 1-10 items, separators, item lengths skewed around the width, '
            'identifiers/expressions/member chains with ")%"/quoted strings with blanks and the other quote, widths 20-140 incl. the '
            'linewidth of DefaultStyle/FortranStyle/IFSFortranStyle read from the live code, Fortran/pragma/default continuation with indents '
            '0-60, `+` with strings and lists) printed by str(); a small malformed stream (None/empty items, doubled quotes, raw control '
            'characters, non-uniform widths, asserting constructors). fl: Stringifier/FortranCodegen.format_line with join_items, comments, '
            'no_wrap/no_indent/trim_spaces. fgen: routines with very long expressions, argument lists, declarations, member chains and literals '
            'parsed by the frontend or built programmatically, printed by fgen under FortranStyle and IFSFortranStyle; every format_line call made '
            'while printing is replayed on the model. A case is non-trivial when at least one continuation was emitted; distinct = distinct '
            '(kind, width, continuation, number of lines, content hash)')
    modelled_not_verified = [
        'regular expressions of JoinableStringList (_pattern_quoted_string, _pattern_chunk_separator) are modelled as explicit scanners over code points 0..255 (Python \\s = {9-13,28-32,133,160})',
        'theorems cover lists of strings and lists whose items are strings or lists of strings (what format_line + join_items builds); deeper nesting is modelled and tied but not proved (and is wrong in the code: see findings)',
        'the visitors of fgen that decide which items are passed to format_line/join_items are not modelled; they are covered by the direct oracle (token streams, gfortran) only',
        'fuel of the model (4*size+10) is checked by the tie, not proved sufficient',
    ]

    # ------------------------------------------------------------------ generation
    def _widths(self):
        from loki.backend.style import DefaultStyle, FortranStyle, IFSFortranStyle
        return [DefaultStyle().linewidth, FortranStyle().linewidth, IFSFortranStyle().linewidth]

    def generate(self, rng, tier):
        live = self._widths()
        n_jsl = 1500 if tier == 'quick' else 14000
        for k in range(n_jsl):
            r = rng.random()
            w = rng.choice(live) if r < 0.25 else rng.choice([20, 24, 30, 40, 60, 80, 100, 140]) if r < 0.6 else rng.randint(20, 140)
            clean = rng.random() < 0.75
            cont = g_cont(rng, w, clean)
            depth = rng.choice([0, 0, 1, 1, 1, 2, 3])
            t = g_tree(rng, w, cont, depth, clean, uniform=clean or rng.random() < 0.5)
            yield {'kind': 'jsl' if clean else 'jsl-edge', 'tree': t}
        n_fl = 700 if tier == 'quick' else 6000
        for k in range(n_fl):
            yield self._gen_fl(rng, live)

    def _gen_fl(self, rng, live):
        r = rng.random()
        w = rng.choice(live) if r < 0.35 else rng.choice([30, 40, 60, 80]) if r < 0.7 else rng.randint(24, 140)
        depth = rng.choice([0, 0, 1, 2, 2, 4, 6, 8, 12, 20, 30, 45, 60])
        which = rng.choice(['fortran', 'fortran', 'fortran', 'default', 'acc'])
        clean = rng.random() < 0.8
        items = []
        for _ in range(rng.choice([1, 2, 3, 3, 4, 5, 6])):
            q = rng.random()
            if q < 0.4:
                sub = []
                for _ in range(rng.choice([1, 2, 3, 4, 6, 9, 14])):
                    if not clean and rng.random() < 0.1:
                        sub.append(rng.choice(['', None]))
                    elif rng.random() < 0.12:
                        inner = [g_text(rng, rng.randint(1, 9), rng.choice(['ident', 'expr'])) for _ in range(rng.choice([1, 2, 3]))]
                        if not clean and rng.random() < 0.3:
                            inner.append(g_text(rng, g_len(rng, w), 'expr'))
                        sub.append({'cat': [rng.choice(['CHARACTER(', 'TYPE(', 'f(']), {'cat': [{'ji': inner, 'sep': ', ', 'sepa': True}, ')']}]})
                    else:
                        sub.append(g_text(rng, rng.choice([rng.randint(1, 12), rng.randint(1, 30), g_len(rng, w)]),
                                          rng.choice(['ident', 'expr', 'member', 'quoted', 'expr'] + ([] if clean else ['dquoted']))))
                items.append({'ji': sub, 'sep': rng.choice([', ', ', ', ', ', ' ', '']), 'sepa': rng.random() < 0.8})
            elif q < 0.6:
                items.append(rng.choice(['CALL ', ' :: ', ' = ', '(', ')', ' => ', 'IF (', ') THEN', ', ', ' ']))
            else:
                items.append(g_text(rng, g_len(rng, w), rng.choice(['expr', 'expr', 'member', 'quoted', 'ident'] + ([] if clean else ['dquoted', 'raw']))))
        comment = None
        if rng.random() < 0.15:
            comment = rng.choice(['', '  ! ' + g_text(rng, rng.randint(1, 150), 'ident'), ' ! x'])
        return {'kind': 'fl' if clean else 'fl-edge', 'w': w, 'depth': depth, 'which': which, 'items': items, 'comment': comment,
                'no_wrap': rng.random() < 0.07, 'no_indent': rng.random() < 0.1, 'trim': rng.random() < 0.9}

    # ------------------------------------------------------------------ implementation
    def _codegen(self, case):
        from loki.backend.pprint import Stringifier
        from loki.backend.fgen import FortranCodegen
        from loki.backend.style import DefaultStyle, FortranStyle
        if case['which'] == 'fortran':
            return FortranCodegen(style=FortranStyle(linewidth=case['w']), depth=case['depth'])
        if case['which'] == 'acc':
            return Stringifier(style=DefaultStyle(linewidth=case['w']), depth=case['depth'], line_cont=lambda indent: ' &\n!$acc & ')
        return Stringifier(style=DefaultStyle(linewidth=case['w']), depth=case['depth'])

    def run_impl(self, case):
        kind = case['kind']
        if kind.startswith('jsl'):
            try:
                obj = build_py(case['tree'])
                return {'ok': str(obj)}
            except (AssertionError, AttributeError, TypeError) as e:
                return {'error': type(e).__name__}
        if kind.startswith('fl'):
            cg = self._codegen(case)
            out = {'indent': cg.indent, 'cont': cg.line_cont(cg.indent)}
            try:
                items = [build_py(i, cg) for i in case['items']]
                out['ok'] = cg.format_line(*items, comment=case['comment'], no_wrap=case['no_wrap'],
                                           no_indent=case['no_indent'], trim_spaces=case['trim'])
            except (AssertionError, AttributeError, TypeError) as e:
                out['error'] = type(e).__name__
            return out
        raise ValueError(kind)

    # ------------------------------------------------------------------ model
    def model_term(self, case, out):
        kind = case['kind']
        if kind.startswith('jsl'):
            return coq(C('chk_jsl', coq_tree(case['tree']), coq_res(out)))
        if kind.startswith('fl'):
            w, cont = case['w'], out['cont']
            cm = None if case['comment'] is None else Some(case['comment'])
            return coq(C('chk_format_line', w, out['indent'], coq_cont(cont), [coq_tree(i, w, cont) for i in case['items']], cm,
                         bool(case['no_wrap']), bool(case['no_indent']), bool(case['trim']), coq_res(out)))
        return None

    def show_model(self, case, out):
        if case['kind'].startswith('jsl'):
            return ['str_raw (raw_of %s)' % coq(coq_tree(case['tree']))]
        return []

    # ------------------------------------------------------------------ oracle
    def oracle(self, case, out):
        kind = case['kind']
        if isinstance(out, dict) and '__exception__' in out:
            return 'unexpected exception %s' % out['__exception__']
        if kind.startswith('jsl'):
            if 'ok' not in out:
                return None
            obj = build_py(case['tree'])
            if isinstance(obj, str) or not obj_class(obj):
                return None
            return check_wrapped(obj, out['ok'])
        if kind.startswith('fl'):
            if 'ok' not in out or case['no_wrap']:
                return None
            cg = self._codegen(case)
            items = [build_py(i, cg) for i in case['items']]
            if not case['no_indent']:
                items = [cg.indent] + items
            obj = cg.join_items([i for i in items if i is not None and i != ''], sep='')
            if not obj.items or not obj_class(obj):
                return None
            text = out['ok']
            full = str(cg.join_items(items, sep=''))
            if case['comment']:
                if not text.endswith(case['comment']) or text[:len(text) - len(case['comment'])] != full:
                    return 'comment not simply appended'
            elif case['trim']:
                if text != full.rstrip():
                    return 'format_line changed more than trailing blanks'
            elif text != full:
                return 'format_line changed the joined text'
            return check_wrapped(obj, full)
        return None

    def nontrivial_key(self, case, out):
        if not isinstance(out, dict) or 'ok' not in out or '\n' not in out['ok']:
            return None
        return (case['kind'], case.get('w'), out['ok'].count('\n'), hash(out['ok']) & 0xffffffff)


PROP = C04
