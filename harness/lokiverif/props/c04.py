"""C04 — generated Fortran respects the free-form line limit without altering tokens.

Model tie: JoinableStringList (str(), incl. nesting, `+`, constructor assertions) and Stringifier.format_line against
the Gallina model M_C04 byte-for-byte; format_line calls logged while fgen prints real routines are replayed on the model.
Oracle: on every case, directly on what the implementation printed (line lengths, continuation-only insertions,
breaks outside character literals, token streams of wrapped vs unwrapped output, gfortran in the thorough tier)."""
import os, re, shutil, subprocess, tempfile
from ..framework import Property
from ..coqlit import coq, C, Some, Raw, coq_string

BIG = 10 ** 6


# ----------------------------------------------------------------------------------------------
# trees: None | str | {'j': [trees], 'sep': s, 'w': n, 'cont': str|[a,b], 'sepa': bool} | {'cat': [a, b]}
#        | {'ji': [trees], 'sep': s, 'sepa': bool}   (Stringifier.join_items, only inside format_line cases)
# ----------------------------------------------------------------------------------------------
def build_py(t, cg=None):
    from loki.tools.strings import JoinableStringList
    if t is None or isinstance(t, str):
        return t
    if 'cat' in t:
        return build_py(t['cat'][0], cg) + build_py(t['cat'][1], cg)
    if 'ji' in t:
        return cg.join_items([build_py(i, cg) for i in t['ji']], sep=t['sep'], separable=t['sepa'])
    cont = t['cont']
    if isinstance(cont, list):
        cont = list(cont)
    return JoinableStringList([build_py(i, cg) for i in t['j']], sep=t['sep'], width=t['w'], cont=cont,
                              separable=t['sepa'])


def S(s):
    """Coq term of type str for a Python string (code points 0..255): packed words, see M_C04.d"""
    b = s.encode('latin-1')
    ws = [len(b)]
    for i in range(0, len(b), 7):
        n = 0
        for ch in b[i:i + 7][::-1]:
            n = n * 256 + ch
        ws.append(n)
    return Raw('(d [%s]%%uint63)' % ';'.join(map(str, ws)))


def coq_cont(c):
    if isinstance(c, str):
        return C('CStr', S(c))
    return C('CPair', S(c[0]), S(c[1]))


def coq_tree(t, w=None, cont=None):
    if t is None:
        return Raw('RNone')
    if isinstance(t, str):
        return C('RStr', S(t))
    if 'cat' in t:
        return C('RCat', coq_tree(t['cat'][0], w, cont), coq_tree(t['cat'][1], w, cont))
    if 'ji' in t:
        return C('RJ', [coq_tree(i, w, cont) for i in t['ji']], S(t['sep']), w, coq_cont(cont), bool(t['sepa']))
    return C('RJ', [coq_tree(i, w, cont) for i in t['j']], S(t['sep']), t['w'], coq_cont(t['cont']), bool(t['sepa']))


def obj_tree(o):
    """a live JoinableStringList (already constructed: cont is the normalised pair) as a tree"""
    from loki.tools.strings import JoinableStringList
    if o is None or isinstance(o, str):
        return o
    if isinstance(o, JoinableStringList):
        return {'j': [obj_tree(i) for i in o.items], 'sep': o.sep, 'w': o.width, 'cont': list(o.cont), 'sepa': bool(o.separable)}
    return str(o)


def coq_res(out):
    if 'ok' in out:
        return C('Ok', S(out['ok']))
    return C('Err', Raw({'AssertionError': 'EAssert', 'AttributeError': 'EAttr', 'TypeError': 'EType'}[out['error']]))


def latin1(s):
    return all(ord(ch) < 256 for ch in s)


# ----------------------------------------------------------------------------------------------
# oracle helpers (independent of the model): work on the live objects / printed text
# ----------------------------------------------------------------------------------------------
def flat(o):
    if isinstance(o, str):
        return o
    return o.sep.join(flat(i) for i in o.items)


def leaves(o, out=None):
    """leaf strings with the separators that follow them, in print order"""
    if out is None:
        out = []
    if isinstance(o, str):
        out.append(o)
        return out
    n = len(o.items)
    for k, i in enumerate(o.items):
        leaves(i, out)
        if k + 1 < n:
            out.append(o.sep)
    return out


_Q = re.compile(r'(?:\'.*?\')|(?:".*?")')
_S = re.compile(r'(\s|\)(?!%)|\n)')


def ref_chunks(s):
    """the splitter of _add_item_to_line, re-stated (what 'a chunk boundary permitted by the splitter' means)"""
    out, off = [], 0
    for m in _Q.finditer(s):
        if m.start() > off:
            out += _S.split(s[off:m.start()])
        out.append(m[0])
        off = m.end()
    if off < len(s):
        out += _S.split(s[off:])
    return out


def boundaries(o):
    """offsets in flat(o) where a break is permitted: leaf/separator boundaries and chunk boundaries"""
    b, pos = {0}, 0
    for lf in leaves(o):
        p = pos
        for ch in ref_chunks(lf):
            p += len(ch)
            b.add(p)
        pos += len(lf)
        b.add(pos)
    p = 0
    for ch in ref_chunks(flat(o)):
        p += len(ch)
        b.add(p)
    return b


def literal_cut_offsets(s):
    """offsets k (0<k<len) such that cutting s between k-1 and k falls inside a Fortran character literal"""
    bad, st, q = set(), 0, ''          # 0 out, 1 in, 2 just closed
    for k, ch in enumerate(s):
        if k > 0 and (st == 1 or (st == 2 and ch == q)):
            bad.add(k)
        if st == 1:
            if ch == q: st = 2
        elif st == 2:
            if ch == q: st = 1
            elif ch in '\'"': st, q = 1, ch
            else: st = 0
        else:
            if ch in '\'"': st, q = 1, ch
    return bad, st


def lit_clean(s):
    """balanced quotes, no doubled quote inside a literal (the class on which the splitter is right)"""
    st, q = 0, ''
    for ch in s:
        if st == 1:
            if ch == q: st = 2
            elif ch == '\n': return False
        elif st == 2:
            if ch == q: return False
            elif ch in '\'"': st, q = 1, ch
            else: st = 0
        else:
            if ch in '\'"': st, q = 1, ch
    return st != 1


def unbreakable(s):
    return len([c for c in ref_chunks(s) if c != '']) <= 1


def obj_class(o, top=True, params=None, depth=0):
    """class on which the wrapping is claimed (and proved for depth<=1) to be content preserving:
    uniform width/cont, cont[0] ends with its only newline, no empty strings / lists, no newline in the text,
    every list nested two or more levels below the printed one fits on a line of its own."""
    if isinstance(o, str):
        return o != '' and '\n' not in o
    if params is None:
        params = (o.width, tuple(o.cont))
        c0, c1 = o.cont
        if not c0.endswith('\n') or '\n' in c0[:-1] or '\n' in c1:
            return False
    if (o.width, tuple(o.cont)) != params or not o.items or '\n' in o.sep:
        return False
    if depth >= 2 and len(flat(o)) + 8 + len(o.cont[0]) > o.width:
        return False
    return all(obj_class(i, False, params, depth + 1) for i in o.items)


def flat_unwrapped(o):
    """what the same object prints when nothing has to be wrapped"""
    from loki.tools.strings import JoinableStringList
    def big(x):
        if isinstance(x, str) or x is None:
            return x
        return JoinableStringList([big(i) for i in x.items], sep=x.sep, width=BIG, cont=list(x.cont), separable=x.separable)
    return str(big(o))


def check_wrapped(obj, text, first_prefix='', force=False):
    """direct check of the property on one printed object. `first_prefix`: text already on the first line."""
    w, (c0, c1) = obj.width, obj.cont
    content = flat_unwrapped(obj) if force else flat(obj)
    if not lit_clean(content) and not force:
        return None
    glue = c0 + c1
    pieces = text.split(glue)
    if ''.join(pieces) != content:
        un = ''.join(pieces)
        k = 0
        while k < min(len(un), len(content)) and un[k] == content[k]: k += 1
        return 'removing the continuations does not give back the joined items (first difference at offset %d: %r vs %r)' % (
            k, un[max(0, k - 12):k + 12], content[max(0, k - 12):k + 12])
    if any('\n' in p for p in pieces):
        return 'a newline was inserted without the continuation markers'
    perm = boundaries(obj)
    bad, _ = literal_cut_offsets(content)
    pos = 0
    for n, p in enumerate(pieces):
        last = n + 1 == len(pieces)
        if n > 0:
            if pos in bad:
                return 'line break inside a character literal at offset %d: ...%r | %r...' % (pos, content[max(0, pos - 10):pos], content[pos:pos + 10])
            if pos not in perm:
                return 'line break inside a chunk at offset %d: ...%r | %r...' % (pos, content[max(0, pos - 10):pos], content[pos:pos + 10])
        line = (first_prefix if n == 0 else c1) + p
        if len(line) + len(c0) > w:
            # only a line that holds nothing but one unbreakable chunk after the continuation prefix may be longer
            if not (line.startswith(c1) and unbreakable(line[len(c1):])):
                return 'line %d too long (%d + %d > %d) and not a single chunk: %r' % (n, len(line), len(c0), w, line[:100])
        pos += len(p)
    return None


# ----------------------------------------------------------------------------------------------
# random generation
# ----------------------------------------------------------------------------------------------
IDCH = 'abcdefghijklmnopqrstuvwxyz_0123456789'


def g_ident(rng, n):
    n = max(1, n)
    return rng.choice('abcdefghijklmnopqrstuvwxyz') + ''.join(rng.choice(IDCH) for _ in range(n - 1))


def g_quoted(rng, n, doubled=False):
    q = rng.choice('\'"')
    other = '"' if q == "'" else "'"
    body = []
    for _ in range(max(0, n - 2)):
        r = rng.random()
        if r < 0.15: body.append(' ')
        elif r < 0.2: body.append(other)
        elif r < 0.25: body.append(rng.choice(')(%,&!'))
        else: body.append(rng.choice(IDCH))
    if doubled and len(body) >= 2:
        k = rng.randrange(1, len(body))
        body[k - 1:k + 1] = [q, q]
    return q + ''.join(body) + q


def g_text(rng, n, style):
    """a string of about n characters; style in expr/ident/member/quoted/mixed/raw"""
    if n <= 0:
        return ''
    if style == 'ident':
        return g_ident(rng, n)
    if style == 'quoted':
        return g_quoted(rng, max(2, n))
    if style == 'dquoted':
        return g_quoted(rng, max(4, n), doubled=True)
    if style == 'raw':
        alph = 'ab z_9 ()%,\'"+*&!\n\t=' + chr(160) + chr(133) + chr(12) + chr(28) + '\r'
        return ''.join(rng.choice(alph) for _ in range(n))
    out = ''
    while len(out) < n:
        r = rng.random()
        left = n - len(out)
        if style == 'member' or r < 0.15:
            out += g_ident(rng, rng.randint(1, 6)) + '(' + g_ident(rng, rng.randint(1, 3)) + ')%' + g_ident(rng, rng.randint(1, 6))
        elif r < 0.3:
            out += g_quoted(rng, rng.randint(2, max(2, min(left, 30))))
        elif r < 0.5:
            out += g_ident(rng, rng.randint(1, 8)) + '(' + g_ident(rng, rng.randint(1, 5)) + ', ' + g_ident(rng, rng.randint(1, 5)) + ')'
        elif r < 0.6:
            out += g_ident(rng, rng.randint(max(1, left // 2), max(1, left)))
        else:
            out += g_ident(rng, rng.randint(1, 9))
        if len(out) < n:
            out += rng.choice([' + ', '*', ' ', ' - ', '/', ' .and. ', ', ', '', ')', '(', ' == '])
    return out


def g_len(rng, w):
    r = rng.random()
    if r < 0.35: return rng.randint(1, 12)
    if r < 0.55: return rng.randint(1, max(1, w // 2))
    if r < 0.8: return max(1, w + rng.randint(-14, 6))
    if r < 0.93: return rng.randint(w, 2 * w + 10)
    return rng.randint(2 * w, 3 * w + 5)


def g_tree(rng, w, cont, depth, clean, uniform=True, inner=False):
    """a JoinableStringList tree; clean: stay inside the claimed class"""
    n = rng.choice([1, 2, 2, 3, 3, 4, 5, 7, 10]) if not inner else rng.choice([1, 2, 2, 3, 4])
    sep = rng.choice(['', ', ', ', ', ' ', ',', ' + ', ' // '])
    items = []
    for _ in range(n):
        r = rng.random()
        if depth > 0 and r < 0.35:
            items.append(g_tree(rng, w, cont, depth - 1, clean, uniform, inner=True))
            continue
        if not clean and r < 0.42:
            pick = rng.randrange(4)
            items.append(None if pick == 0 else '' if pick < 3 else
                         {'j': rng.choice([[], [''], ['', ''], ['', g_text(rng, g_len(rng, w), 'ident')]]), 'sep': sep, 'w': w,
                          'cont': cont, 'sepa': True})
            continue
        ln = g_len(rng, w) if not inner else rng.choice([rng.randint(1, 10), g_len(rng, w)])
        style = rng.choice(['expr', 'expr', 'ident', 'member', 'quoted', 'mixed'] + ([] if clean else ['dquoted', 'raw']))
        items.append(g_text(rng, ln, style))
    t = {'j': items, 'sep': sep, 'w': w, 'cont': cont, 'sepa': rng.random() < 0.6}
    if not uniform and rng.random() < 0.5:
        t['w'] = max(8, w + rng.randint(-10, 10))
    if depth > 0 and rng.random() < 0.12:
        t = {'cat': [rng.choice(['(', 'TYPE(', 'x = ']), {'cat': [t, rng.choice([')', ') ', ''])]}]}
    return t


def g_cont(rng, w, clean):
    ind = rng.choice([0, 0, 2, 2, 4, 4, 6, 8, 10, 14, 20, 30, 45, 60])
    r = rng.random()
    if r < 0.55:
        c = ' &\n' + ' ' * ind + '& '
        return c if rng.random() < 0.5 else [' &\n', ' ' * ind + '& ']
    if r < 0.7:
        return [' &\n', '!$acc & '] if rng.random() < 0.5 else ' &\n!$omp & '
    if r < 0.85:
        return '\n' + ' ' * ind
    if clean:
        return [' &\n', '& ']
    return rng.choice(['', 'abc', '\n', ' &\n a\n b', ['', ''], [' &', ' & '], ' ' * (w + 3) + '\n  &', [' ' * w, '  '],
                       ' &\r\n  & ', [' & \n', ' ' * (w - 1) + '&']])


# ----------------------------------------------------------------------------------------------
# real generated code: Fortran sources with long statements, printed by fgen
# ----------------------------------------------------------------------------------------------
def g_name(rng, used, lo=1, hi=31):
    while True:
        n = rng.choice([rng.randint(lo, 6), rng.randint(lo, 14), rng.randint(10, hi)])
        nm = rng.choice('abcdefghklmnopqrstuvwxyz') + ''.join(rng.choice(IDCH) for _ in range(n - 1))
        if nm not in used and nm not in FORTRAN_RESERVED and not nm.endswith('_'):
            used.add(nm)
            return nm


FORTRAN_RESERVED = {'if', 'do', 'end', 'call', 'then', 'else', 'real', 'type', 'max', 'min', 'abs', 'sqrt', 'exp', 'n', 'm', 'i', 'j',
                    'where', 'data', 'use', 'go', 'to', 'print', 'stop', 'or', 'and', 'not', 'eq', 'ne', 'lt', 'le', 'gt', 'ge', 'in', 'out'}


class SrcGen:
    """a compilable free-form subroutine with statements much longer than the line limit"""

    def __init__(self, rng, quotes_ok=False, long_where=False):
        self.rng = rng
        self.long_where = long_where
        self.used = set()
        self.quotes_ok = quotes_ok
        r = rng
        self.arrs = [g_name(r, self.used) for _ in range(r.randint(1, 4))]
        self.vecs = [g_name(r, self.used) for _ in range(r.randint(1, 4))]
        self.scal = [g_name(r, self.used) for _ in range(r.randint(2, 30))]
        self.ints = [g_name(r, self.used) for _ in range(r.randint(1, 6))]
        self.logs = [g_name(r, self.used) for _ in range(r.randint(1, 5))]
        self.strs = [g_name(r, self.used) for _ in range(r.randint(1, 3))]
        self.tvar = g_name(r, self.used)
        self.inner_f = [g_name(r, self.used) for _ in range(2)]
        self.outer_f = [g_name(r, self.used) for _ in range(2)]
        self.name = g_name(r, self.used, 3, 20)

    def term(self, d=0):
        r = self.rng
        k = r.random()
        if k < 0.2: return r.choice(self.scal)
        if k < 0.35: return '%s(%s, %s)' % (r.choice(self.arrs), self.idx(), self.idx())
        if k < 0.45: return '%s(%s)' % (r.choice(self.vecs), self.idx())
        if k < 0.6:
            return '%s%%%s(%s)%%%s(%s)' % (self.tvar, self.outer_f[0], r.randint(1, 5), self.inner_f[0], self.idx())
        if k < 0.65: return '%s%%%s' % (self.tvar, self.outer_f[1])
        if k < 0.75: return r.choice(['1.0d0', '2.5d0', '0.5d0', '3.0d0', '1.0d-3', '42.0d0'])
        if k < 0.9 and d < 3:
            f = r.choice(['max', 'min', 'abs', 'sqrt', 'exp'])
            if f in ('max', 'min'):
                return '%s(%s, %s)' % (f, self.expr(r.randint(5, 40), d + 1), self.expr(r.randint(5, 40), d + 1))
            return '%s(%s)' % (f, self.expr(r.randint(5, 60), d + 1))
        if d < 3: return '(%s)' % self.expr(r.randint(5, 60), d + 1)
        return r.choice(self.scal)

    def idx(self):
        r = self.rng
        return r.choice(['i', 'j', 'i', '1', 'n', 'i + 1', r.choice(self.ints), 'min(i + %s, n)' % r.choice(self.ints)])

    def expr(self, target, d=0):
        r = self.rng
        out = self.term(d)
        while len(out) < target:
            out += r.choice([' + ', ' - ', '*', '/', ' + ', '*', '**2 + ']) + self.term(d)
        return out

    def cond(self, target):
        r = self.rng
        out = ''
        while len(out) < target:
            if out: out += r.choice([' .and. ', ' .or. '])
            k = r.random()
            if k < 0.25: out += r.choice(self.logs)
            elif k < 0.35: out += '.not. ' + r.choice(self.logs)
            else: out += '%s %s %s' % (self.expr(r.randint(3, 50), 1), r.choice(['>', '<', '>=', '<=', '==', '/=']), self.expr(r.randint(3, 30), 1))
        return out

    def lit(self, n):
        r = self.rng
        alph = 'abcdefghijklmnopqrstuvwxyz0123456789      ,.:()%+-*/=_<>'
        if self.quotes_ok: alph += '\'\'"'
        body = ''.join(r.choice(alph) for _ in range(n))
        q = r.choice('\'"')
        return q + body.replace(q, q + q) + q

    def tlen(self, lw):
        r = self.rng
        k = r.random()
        if k < 0.25: return r.randint(5, lw // 2)
        if k < 0.6: return lw + r.randint(-30, 30)
        if k < 0.93: return r.randint(lw, 2 * lw)
        return r.randint(2 * lw, 4 * lw)

    def stmt(self, lw, depth=0):
        """list of source lines (unindented; the frontend ignores layout) """
        r = self.rng
        k = r.random()
        if k < 0.3:
            lhs = r.choice([r.choice(self.scal), '%s(i, j)' % r.choice(self.arrs), '%s(i)' % r.choice(self.vecs),
                            '%s%%%s(2)%%%s(j)' % (self.tvar, self.outer_f[0], self.inner_f[0])])
            st = ['%s = %s' % (lhs, self.expr(self.tlen(lw)))]
            if r.random() < 0.2:
                st[0] += '  ! ' + ''.join(r.choice(IDCH + '   ') for _ in range(r.randint(1, 160)))
            return st
        if k < 0.42:
            args = [self.expr(r.randint(1, 40), 2) if r.random() < 0.4 else r.choice(self.scal + self.arrs + self.vecs + self.ints)
                    for _ in range(r.randint(1, 40))]
            return ['call %s(%s)' % (g_name(r, set(self.used), 3, 25), ', '.join(args))]
        if k < 0.52:
            n = r.choice([8, 20, 50, 100, 140]) if lw >= 100 else r.choice([5, 20, 40, 70])
            parts = [self.lit(r.randint(0, n)) for _ in range(r.randint(1, 5))]
            if r.random() < 0.5:
                return ['%s = %s' % (r.choice(self.strs), ' // '.join(parts))]
            return ['print *, %s' % ', '.join(parts + [r.choice(self.scal)])]
        if k < 0.62 and depth < 5:
            body = sum((self.stmt(lw, depth + 1) for _ in range(r.randint(1, 3))), [])
            out = ['if (%s) then' % self.cond(self.tlen(lw))] + body
            if r.random() < 0.4:
                out += ['else if (%s) then' % self.cond(self.tlen(lw))] + self.stmt(lw, depth + 1)
            if r.random() < 0.4:
                out += ['else'] + self.stmt(lw, depth + 1)
            return out + ['end if']
        if k < 0.72 and depth < 5 and not getattr(self, 'in_loop', 0) >= 2:
            self.in_loop = getattr(self, 'in_loop', 0) + 1
            body = sum((self.stmt(lw, depth + 1) for _ in range(r.randint(1, 3))), [])
            self.in_loop -= 1
            self.loops = getattr(self, 'loops', 0) + 1
            var = 'j' if getattr(self, 'in_loop', 0) >= 1 else 'i'
            return ['do %s = 1, %s' % (var, r.choice(['n', 'm', 'min(n, m)']))] + body + ['end do']
        if k < 0.78:
            vs = r.sample(self.scal + self.arrs + self.vecs, min(len(self.scal), r.randint(1, 25)))
            cl = r.choice(['copyin', 'copy', 'present', 'private', 'create'])
            return ['!$acc %s %s(%s) %s(%s) async(1)' % (r.choice(['data', 'parallel loop gang vector', 'kernels']), cl, ', '.join(vs),
                                                        r.choice(['copyout', 'firstprivate']), ', '.join(vs[:max(1, len(vs) // 2)]))]
        if k < 0.84:
            return ['! ' + ''.join(r.choice(IDCH + '    ') for _ in range(r.randint(1, 200)))]
        if k < 0.9:
            return ['if (%s) %s = %s' % (self.cond(r.randint(5, lw)), r.choice(self.scal), self.expr(r.randint(5, lw)))]
        if k < 0.95:
            return ['where (%s(:, 1) > %s) %s(:, 2) = %s' % (r.choice(self.arrs), self.expr(r.randint(3, lw), 2), r.choice(self.arrs),
                                                            self.long_where and self.expr(self.tlen(lw), 2) or r.choice(self.scal + ['1.0d0']))]
        return ['%s = %s' % (r.choice(self.logs), self.cond(self.tlen(lw)))]

    def source(self, lw):
        r = self.rng
        args = ['n', 'm'] + self.arrs + self.vecs + (self.scal[:r.randint(0, len(self.scal))] if r.random() < 0.6 else [])
        decl = ['integer, intent(in) :: n, m']
        decl.append('real(kind=8), intent(inout) :: ' + ', '.join('%s(n, m)' % a for a in self.arrs))
        decl.append('real(kind=8), intent(inout) :: ' + ', '.join('%s(n)' % a for a in self.vecs))
        decl.append('real(kind=8) :: ' + ', '.join(self.scal))
        decl.append('integer :: i, j, ' + ', '.join(self.ints))
        decl.append('logical :: ' + ', '.join(self.logs))
        decl.append('character(len=1000) :: ' + ', '.join(self.strs))
        decl += ['type t_inner', 'real(kind=8) :: %s(10), %s' % tuple(self.inner_f), 'end type t_inner',
                 'type t_outer', 'type(t_inner) :: %s(5)' % self.outer_f[0], 'real(kind=8) :: %s' % self.outer_f[1], 'end type t_outer',
                 'type(t_outer) :: %s' % self.tvar]
        body = sum((self.stmt(lw) for _ in range(r.randint(2, 5))), [])
        lines = ['subroutine %s(%s)' % (self.name, ', '.join(args)), 'implicit none'] + decl + body + ['end subroutine %s' % self.name]
        return '\n'.join(src_wrap(l, r) for l in lines) + '\n'


def src_wrap(line, rng):
    """write a long source line with free-form continuations at blanks outside literals/comments (input layout only)"""
    if len(line) <= 120 or line.lstrip().startswith('!'):
        if line.startswith('!$') and len(line) > 120:
            out, cur = [], ''
            for wd in line.split(' '):
                if len(cur) + len(wd) > 100 and cur:
                    out.append(cur + ' &'); cur = '!$acc & ' + wd
                else:
                    cur = (cur + ' ' + wd) if cur else wd
            return '\n'.join(out + [cur])
        return line
    out, cur, inq = [], '', None
    code_end = len(line)
    k = 0
    while k < len(line):
        ch = line[k]
        if inq:
            if ch == inq: inq = None
        elif ch in '\'"': inq = ch
        elif ch == '!':
            code_end = k; break
        k += 1
    code, comment = line[:code_end].rstrip(), line[code_end:]
    inq = None
    for k, ch in enumerate(code):
        if inq:
            if ch == inq: inq = None
        elif ch in '\'"': inq = ch
        if ch == ' ' and not inq and len(cur) > 90:
            out.append(cur + ' &'); cur = '  & '
        else:
            cur += ch
    return '\n'.join(out + [cur + ('  ' + comment if comment else '')])


TOK = re.compile(r"""'(?:[^']|'')*'|"(?:[^"]|"")*"|[A-Za-z_][A-Za-z0-9_]*|\d+\.?\d*(?:[eEdD][+-]?\d+)?(?:_\w+)?|\.\d+(?:[eEdD][+-]?\d+)?|\*\*|//|==|/=|<=|>=|=>|::|\S""")


def split_comment(line):
    inq = None
    for k, ch in enumerate(line):
        if inq:
            if ch == inq: inq = None
        elif ch in '\'"': inq = ch
        elif ch == '!':
            return line[:k], line[k:]
    return line, ''


def logical_statements(text):
    """join free-form continuation lines; returns list of (statement text, comment or None, physical lines)"""
    out, cur, phys = [], None, []
    for line in text.split('\n'):
        st = line.lstrip()
        if st.startswith('!$'):
            sent = st.split(' ')[0]
            body = st
            if cur is not None and cur[0] == 'pragma':
                rest = st[len(sent):].lstrip()
                if rest.startswith('&'): rest = rest[1:]
                body = rest
            cont = body.rstrip().endswith('&')
            if cont: body = body.rstrip()[:-1]
            if cur is not None and cur[0] == 'pragma':
                cur[1] += body; phys.append(line)
            else:
                cur = ['pragma', body]; phys = [line]
            if not cont:
                out.append((cur[1], None, phys)); cur = None
            continue
        if st.startswith('!') or st == '':
            out.append(('', st, [line]))
            continue
        code, comment = split_comment(line)
        body = code
        if cur is not None:
            b = body.lstrip()
            if b.startswith('&'): b = b[1:]
            body = b
        cont = body.rstrip().endswith('&')
        if cont: body = body.rstrip()[:-1]
        if cur is not None:
            cur[1] += body; phys.append(line)
        else:
            cur = ['code', body]; phys = [line]
        if not cont:
            out.append((cur[1], comment.strip() or None, phys)); cur = None
    if cur is not None:
        out.append((cur[1] + ' <dangling continuation>', None, phys))
    return out


def tokens_of(text):
    return [(TOK.findall(s), (c or '').strip()) for s, c, _ in logical_statements(text)]


def check_fortran_lines(text, lw):
    """every physical line within the limit unless it is a comment / holds a trailing comment / a single unbreakable chunk"""
    for n, line in enumerate(text.split('\n')):
        st = line.lstrip()
        if st.startswith('!') and not st.startswith('!$'):
            continue
        code, comment = (line, '') if st.startswith('!$') else split_comment(line)
        code = code.rstrip()
        if len(code) <= lw:
            continue
        body = code.lstrip()
        if body.startswith('!$'):
            body = body[len(body.split(' ')[0]):].lstrip()
        if body.startswith('&'): body = body[1:].lstrip()
        if body.endswith('&'): body = body[:-1].rstrip()
        if unbreakable(body) or TOK.fullmatch(body):
            continue
        return 'line %d is %d > %d columns and not a single unbreakable chunk: %r' % (n + 1, len(code), lw, code[:140])
    return None


def run_gfortran(text, lw):
    work = tempfile.mkdtemp(prefix='lv_c04_')
    try:
        f = os.path.join(work, 'r.f90')
        open(f, 'w').write(text + '\n')
        r = subprocess.run(['gfortran', '-fsyntax-only', '-ffree-line-length-%d' % max(lw, 132), '-Werror=line-truncation', f],
                           cwd=work, stdout=subprocess.PIPE, stderr=subprocess.STDOUT, text=True, timeout=120)
        return r.returncode, r.stdout[-1200:]
    finally:
        shutil.rmtree(work, ignore_errors=True)


class C04(Property):
    id = 'C04'
    imports = ['models.M_C04']
    theorem_file = 'theories/props/T_C04.v'
    parallel = True
    prelude = 'From Coq Require Import Uint63.\n'
    shard = 250
    rule = ('jsl: random JoinableStringList trees (depth 0-3, 1-10 items, separators, item lengths skewed around the width, '
            'identifiers/expressions/member chains with ")%"/quoted strings with blanks and the other quote, widths 20-140 incl. the '
            'linewidth of DefaultStyle/FortranStyle/IFSFortranStyle read from the live code, Fortran/pragma/default continuation with indents '
            '0-60, `+` with strings and lists) printed by str(); a small malformed stream (None/empty items, doubled quotes, raw control '
            'characters, non-uniform widths, asserting constructors). fl: Stringifier/FortranCodegen.format_line with join_items, comments, '
            'no_wrap/no_indent/trim_spaces. fgen: routines with very long expressions, argument lists, declarations, member chains and literals '
            'parsed by the frontend or built programmatically, printed by fgen under FortranStyle and IFSFortranStyle; every format_line call made '
            'while printing is replayed on the model. A case is non-trivial when at least one continuation was emitted; distinct = distinct '
            '(kind, width, continuation, number of lines, content hash)')
    modelled_not_verified = [
        'regular expressions of JoinableStringList (_pattern_quoted_string, _pattern_chunk_separator) are modelled as explicit scanners over code points 0..255 (Python \\s = {9-13,28-32,133,160})',
        'theorems cover lists of strings and lists whose items are strings or lists of strings (what format_line + join_items builds); deeper nesting is modelled and tied but not proved (and is wrong in the code: see findings)',
        'the visitors of fgen that decide which items are passed to format_line/join_items are not modelled; they are covered by the direct oracle (token streams, gfortran) only',
        'fuel of the model (4*size+10) is checked by the tie, not proved sufficient',
    ]

    # ------------------------------------------------------------------ generation
    def _widths(self):
        from loki.backend.style import DefaultStyle, FortranStyle, IFSFortranStyle
        return [DefaultStyle().linewidth, FortranStyle().linewidth, IFSFortranStyle().linewidth]

    def generate(self, rng, tier):
        live = self._widths()
        n_jsl = 420 if tier == 'quick' else 4500
        for k in range(n_jsl):
            r = rng.random()
            w = rng.choice(live) if r < 0.25 else rng.choice([20, 24, 30, 40, 60, 80, 100, 140]) if r < 0.6 else rng.randint(20, 140)
            clean = rng.random() < 0.75
            cont = g_cont(rng, w, clean)
            depth = rng.choice([0, 0, 1, 1, 1, 2, 3])
            t = g_tree(rng, w, cont, depth, clean, uniform=clean or rng.random() < 0.5)
            yield {'kind': 'jsl' if clean else 'jsl-edge', 'tree': t}
        n_fl = 210 if tier == 'quick' else 2200
        for k in range(n_fl):
            yield self._gen_fl(rng, live)
        n_fg = 20 if tier == 'quick' else 220
        for k in range(n_fg):
            yield self._gen_fgen(rng, tier)

    def _gen_fgen(self, rng, tier):
        r = rng.random()
        style, lw = ('fortran', None) if r < 0.4 else ('ifs', None) if r < 0.75 else (rng.choice(['fortran', 'ifs']), rng.choice([60, 72, 80, 100, 120]))
        g = SrcGen(rng)
        src = g.source(lw or 132)
        extra = []
        if rng.random() < 0.35:
            for _ in range(rng.randint(1, 3)):
                op = rng.choice(['decl', 'cond', 'call'])
                extra.append({'op': op, 'n': rng.choice([3, 10, 25, 60]), 'kw': rng.randint(0, 8),
                              'names': [g_name(rng, g.used) for _ in range(rng.choice([3, 10, 25, 60]))]})
        compilable = not any(e['op'] == 'call' and e['kw'] for e in extra)
        return {'kind': 'fgen', 'src': src, 'style': style, 'lw': lw, 'extra': extra,
                'gfortran': bool(compilable and (tier != 'quick' or rng.random() < 0.25))}

    def _gen_fl(self, rng, live):
        r = rng.random()
        w = rng.choice(live) if r < 0.35 else rng.choice([30, 40, 60, 80]) if r < 0.7 else rng.randint(24, 140)
        depth = rng.choice([0, 0, 1, 2, 2, 4, 6, 8, 12, 20, 30, 45, 60])
        which = rng.choice(['fortran', 'fortran', 'fortran', 'default', 'acc'])
        clean = rng.random() < 0.8
        items = []
        for _ in range(rng.choice([1, 2, 3, 3, 4, 5, 6])):
            q = rng.random()
            if q < 0.4:
                sub = []
                for _ in range(rng.choice([1, 2, 3, 4, 6, 9, 14])):
                    if not clean and rng.random() < 0.1:
                        sub.append(rng.choice(['', None]))
                    elif rng.random() < 0.12:
                        inner = [g_text(rng, rng.randint(1, 9), rng.choice(['ident', 'expr'])) for _ in range(rng.choice([1, 2, 3]))]
                        if not clean and rng.random() < 0.3:
                            inner.append(g_text(rng, g_len(rng, w), 'expr'))
                        sub.append({'cat': [rng.choice(['CHARACTER(', 'TYPE(', 'f(']), {'cat': [{'ji': inner, 'sep': ', ', 'sepa': True}, ')']}]})
                    else:
                        sub.append(g_text(rng, rng.choice([rng.randint(1, 12), rng.randint(1, 30), g_len(rng, w)]),
                                          rng.choice(['ident', 'expr', 'member', 'quoted', 'expr'] + ([] if clean else ['dquoted']))))
                items.append({'ji': sub, 'sep': rng.choice([', ', ', ', ', ', ' ', '']), 'sepa': rng.random() < 0.8})
            elif q < 0.6:
                items.append(rng.choice(['CALL ', ' :: ', ' = ', '(', ')', ' => ', 'IF (', ') THEN', ', ', ' ']))
            else:
                items.append(g_text(rng, g_len(rng, w), rng.choice(['expr', 'expr', 'member', 'quoted', 'ident'] + ([] if clean else ['dquoted', 'raw']))))
        comment = None
        if rng.random() < 0.15:
            comment = rng.choice(['', '  ! ' + g_text(rng, rng.randint(1, 150), 'ident'), ' ! x'])
        return {'kind': 'fl' if clean else 'fl-edge', 'w': w, 'depth': depth, 'which': which, 'items': items, 'comment': comment,
                'no_wrap': rng.random() < 0.07, 'no_indent': rng.random() < 0.1, 'trim': rng.random() < 0.9}

    # ------------------------------------------------------------------ implementation
    def _codegen(self, case):
        from loki.backend.pprint import Stringifier
        from loki.backend.fgen import FortranCodegen
        from loki.backend.style import DefaultStyle, FortranStyle
        if case['which'] == 'fortran':
            return FortranCodegen(style=FortranStyle(linewidth=case['w']), depth=case['depth'])
        if case['which'] == 'acc':
            return Stringifier(style=DefaultStyle(linewidth=case['w']), depth=case['depth'], line_cont=lambda indent: ' &\n!$acc & ')
        return Stringifier(style=DefaultStyle(linewidth=case['w']), depth=case['depth'])

    def run_impl(self, case):
        kind = case['kind']
        if kind.startswith('jsl'):
            try:
                obj = build_py(case['tree'])
                return {'ok': str(obj)}
            except (AssertionError, AttributeError, TypeError) as e:
                return {'error': type(e).__name__}
        if kind.startswith('fl'):
            cg = self._codegen(case)
            out = {'indent': cg.indent, 'cont': cg.line_cont(cg.indent)}
            try:
                items = [build_py(i, cg) for i in case['items']]
                out['ok'] = cg.format_line(*items, comment=case['comment'], no_wrap=case['no_wrap'],
                                           no_indent=case['no_indent'], trim_spaces=case['trim'])
            except (AssertionError, AttributeError, TypeError) as e:
                out['error'] = type(e).__name__
            return out
        if kind == 'fgen':
            return self._run_fgen(case)
        raise ValueError(kind)

    def _style(self, case, lw=None):
        from loki.backend.style import FortranStyle, IFSFortranStyle
        cls = IFSFortranStyle if case['style'] == 'ifs' else FortranStyle
        lw = lw or case.get('lw')
        return cls(linewidth=lw) if lw else cls()

    def _run_fgen(self, case):
        from loki import Subroutine, ir, SymbolAttributes, BasicType
        from loki.expression import symbols as sym
        from loki.backend.fgen import fgen, FortranCodegen
        routine = Subroutine.from_source(case['src'])
        for e in case.get('extra', []):
            vs = tuple(sym.Variable(name=nm, type=SymbolAttributes(BasicType.REAL, kind=sym.IntLiteral(8)), scope=routine) for nm in e['names'])
            routine.spec.append(ir.VariableDeclaration(symbols=vs))
            if e['op'] == 'cond':
                c = sym.LogicalOr(tuple(sym.Comparison(v, '>', sym.FloatLiteral('1.0d0')) for v in vs[:e['n']]))
                routine.body.append(ir.Conditional(condition=c, body=(ir.Assignment(lhs=vs[0], rhs=sym.Sum(vs)),), else_body=()))
            elif e['op'] == 'call':
                routine.body.append(ir.CallStatement(name=sym.ProcedureSymbol('ext_' + e['names'][0], scope=routine), arguments=vs[:e['n']],
                                                     kwarguments=tuple(('kw_%d' % k, vs[k % len(vs)]) for k in range(e['kw']))))
        style = self._style(case)
        log = []

        class Logging(FortranCodegen):
            def format_line(self, *items, **kw):
                rec = {'items': [obj_tree(i) for i in items], 'kw': dict(kw), 'indent': self.indent, 'cont': self.line_cont(self.indent),
                       'w': self.style.linewidth}
                try:
                    res = super().format_line(*items, **kw)
                    rec['out'] = {'ok': res}
                    return res
                except (AssertionError, AttributeError, TypeError) as ex:
                    rec['out'] = {'error': type(ex).__name__}
                    raise
                finally:
                    log.append(rec)
        text = fgen(routine, style=style)
        text2 = Logging(style=style).visit(routine)
        unwrapped = fgen(routine, style=self._style(case, BIG))
        # replay on the model the calls that wrapped (and a few that did not)
        calls = [r for r in log if 'ok' in r['out'] and '\n' in r['out']['ok']][:10] + [r for r in log if 'ok' in r['out'] and '\n' not in r['out']['ok']][:3]
        calls = [r for r in calls if all(latin1(x) for x in [r['out'].get('ok', '')])]
        return {'text': text, 'same': text == text2, 'unwrapped': unwrapped, 'lw': style.linewidth, 'calls': calls, 'ncalls': len(log)}

    # ------------------------------------------------------------------ model
    def model_term(self, case, out):
        kind = case['kind']
        if kind.startswith('jsl'):
            return coq(C('chk_jsl', coq_tree(case['tree']), coq_res(out)))
        if kind.startswith('fl'):
            w, cont = case['w'], out['cont']
            cm = None if case['comment'] is None else Some(S(case['comment']))
            return coq(C('chk_format_line', w, S(out['indent']), coq_cont(cont), [coq_tree(i, w, cont) for i in case['items']], cm,
                         bool(case['no_wrap']), bool(case['no_indent']), bool(case['trim']), coq_res(out)))
        if kind == 'fgen':
            ts = []
            for r in out.get('calls', []):
                kw = r['kw']
                cm = kw.get('comment')
                ts.append(coq(C('chk_format_line', r['w'], S(r['indent']), coq_cont(r['cont']), [coq_tree(i) for i in r['items']],
                                None if cm is None else Some(S(cm)), bool(kw.get('no_wrap', False)), bool(kw.get('no_indent', False)),
                                bool(kw.get('trim_spaces', True)), coq_res(r['out']))))
            return '(%s)' % ' && '.join(ts) if ts else None
        return None

    def show_model(self, case, out):
        if case['kind'].startswith('jsl'):
            return ['str_raw %s' % coq(coq_tree(case['tree']))]
        return []

    # ------------------------------------------------------------------ oracle
    def oracle(self, case, out):
        kind = case['kind']
        if isinstance(out, dict) and '__exception__' in out:
            return 'unexpected exception %s' % out['__exception__']
        if kind.startswith('jsl'):
            if 'ok' not in out:
                return None
            obj = build_py(case['tree'])
            if isinstance(obj, str) or not (obj_class(obj) or case.get('force')):
                return None
            return check_wrapped(obj, out['ok'], force=bool(case.get('force')))
        if kind.startswith('fl'):
            if 'ok' not in out or case['no_wrap']:
                return None
            cg = self._codegen(case)
            items = [build_py(i, cg) for i in case['items']]
            if not case['no_indent']:
                items = [cg.indent] + items
            obj = cg.join_items([i for i in items if i is not None and i != ''], sep='')
            if not obj.items or not obj_class(obj):
                return None
            text = out['ok']
            full = str(cg.join_items(items, sep=''))
            if case['comment']:
                if not text.endswith(case['comment']) or text[:len(text) - len(case['comment'])] != full:
                    return 'comment not simply appended'
            elif case['trim']:
                if text != full.rstrip():
                    return 'format_line changed more than trailing blanks'
            elif text != full:
                return 'format_line changed the joined text'
            return check_wrapped(obj, full)
        if kind == 'fgen':
            # the limit that is checked is the one the property names (132) unless the case sets its own narrower style
            text, lw = out['text'], (case.get('lw') or 132)
            if not out['same']:
                return 'fgen() and FortranCodegen.visit disagree'
            f = check_fortran_lines(text, lw)
            if f:
                return f
            tw, tu = tokens_of(text), tokens_of(out['unwrapped'])
            if tw != tu:
                for k, (a, b) in enumerate(zip(tw, tu)):
                    if a != b:
                        j = 0
                        while j < min(len(a[0]), len(b[0])) and a[0][j] == b[0][j]: j += 1
                        return 'statement %d: token stream changed by wrapping: %r vs unwrapped %r' % (k, a[0][max(0, j - 3):j + 4] or a[1][:60], b[0][max(0, j - 3):j + 4] or b[1][:60])
                return 'number of statements changed by wrapping (%d vs %d)' % (len(tw), len(tu))
            if case.get('gfortran') and all(len(split_comment(l)[0].rstrip()) <= lw or l.lstrip().startswith('!') for l in text.split('\n')):
                rc, msg = run_gfortran(text, lw)
                if rc != 0:
                    return 'gfortran rejects the generated routine: ' + msg[-500:]
            return None
        return None

    def nontrivial_key(self, case, out):
        if case['kind'] == 'fgen':
            n = sum(1 for l in out.get('text', '').split('\n') if l.rstrip().endswith('&'))
            return ('fgen', out.get('lw'), n, hash(out.get('text')) & 0xffffffff) if n else None
        if not isinstance(out, dict) or 'ok' not in out or '\n' not in out['ok']:
            return None
        return (case['kind'], case.get('w'), out['ok'].count('\n'), hash(out['ok']) & 0xffffffff)


PROP = C04
