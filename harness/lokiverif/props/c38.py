"""C38 - temporary hoisting and stack/pool allocation: storage arithmetic and allocation protocol.

A case is a driver/kernel call tree (JSON) plus a pipeline name.  The tree is written to a scratch directory and processed by the
REAL Scheduler with the pool allocator / FtrPtr / DirectIdx / raw-stack / hoist transformations.  From Loki's output we extract the
driver's stack size expression(s), every kernel's pointer-bump statements and the hoisted declarations and compare their VALUES on
several valuations with the Coq model (M_C38.v); the oracle replays the extracted allocation protocol along every call path and
checks "enough storage, live temporaries disjoint"; the thorough tier compiles and runs original and transformed trees with gfortran."""
import os, re, sys, json, shutil, tempfile, subprocess, itertools
from ..framework import Property
from ..coqlit import coq, C, Nat, Some, Raw

PIPES = ['pool', 'poolrhs', 'ftr', 'idx', 'raw', 'hoist', 'hoistalloc']
TYS = {'real': ('REAL', 4), 'int': ('INTEGER', 4), 'real8': ('REAL(KIND=8)', 8)}
DRIVER_INTS = ['nlon', 'nz', 'nb']

# ----------------------------------------------------------------------------------------------- expression structures
def ftext(s):
    """JSON expression structure -> Fortran text (fully parenthesised)"""
    k = s[0]
    if k in ('int', 'py'): return str(s[1]) if s[1] >= 0 else '(%d)' % s[1]
    if k == 'var': return s[1]
    if k == 'sum': return '(' + ' + '.join(ftext(c) for c in s[2:]) + ')'
    if k == 'prod': return '(' + '*'.join(ftext(c) for c in s[2:]) + ')'
    if k == 'quot': return '(' + ftext(s[2]) + '/' + ftext(s[3]) + ')'
    if k == 'call': return '%s(%s)' % (s[1], ', '.join(ftext(c) for c in s[2:]))
    raise ValueError(s)

def svars(s, acc=None):
    acc = set() if acc is None else acc
    if s[0] == 'var': acc.add(s[1])
    elif s[0] in ('sum', 'prod', 'quot'):
        for c in s[2:]: svars(c, acc)
    elif s[0] == 'call':
        for c in s[2:]: svars(c, acc)
    return acc

def tdiv(a, b):
    q = abs(a) // abs(b)
    return q if (a >= 0) == (b >= 0) else -q

class Undef(Exception):
    pass

def sval(s, env):
    """Fortran-integer value of a structure (mirrors Base/Expr.v evalZ with the C38 function table)"""
    k = s[0]
    if k in ('int', 'py'): return s[1]
    if k == 'var':
        if s[1] not in env: raise Undef('unbound ' + s[1])
        return env[s[1]]
    if k == 'sum': return sum(sval(c, env) for c in s[2:])
    if k == 'prod':
        r = 1
        for c in s[2:]: r *= sval(c, env)
        return r
    if k == 'quot':
        b = sval(s[3], env)
        if b == 0: raise Undef('div0')
        return tdiv(sval(s[2], env), b)
    if k == 'call':
        a = [sval(c, env) for c in s[2:]]
        f = s[1]
        if f == 'max': return max(a)
        if f == 'min': return min(a)
        if f == 'c_sizeof': return a[0]
        if f == 'ishft':
            if a[1] >= 0: return a[0] * 2 ** a[1]
            return a[0] // 2 ** (-a[1]) if a[0] >= 0 else _undef('ishft of a negative value')
        raise Undef('function ' + f)
    raise Undef(str(s))

def _undef(m):
    raise Undef(m)

def ssubst(s, m):
    k = s[0]
    if k == 'var': return m.get(s[1], s)
    if k in ('sum', 'prod', 'quot'): return [k, s[1]] + [ssubst(c, m) for c in s[2:]]
    if k == 'call': return [k, s[1]] + [ssubst(c, m) for c in s[2:]]
    return s

def smodel(s):
    from ..bridge_expr import model_of_structure
    return model_of_structure(s)

def to_struct(e):
    """Loki expression -> JSON structure; C_SIZEOF(<cast>) becomes ['call','c_sizeof',['int',bytes]] (byte size decided HERE from the
    cast's name/kind: default REAL/INTEGER/LOGICAL 4, kind 8 / REAL64 / jprb = 8)"""
    import pymbolic.primitives as pmbl
    from loki.expression import symbols as sym
    from ..bridge_expr import structure
    if isinstance(e, sym.InlineCall):
        name = str(e.function.name).lower()
        if name == 'c_sizeof':
            a = e.parameters[0]
            kind = getattr(a, 'kind', None)
            ks = str(kind).lower() if kind is not None else ''
            by = 8 if ks in ('8', 'real64', 'jprb') else 4
            return ['call', 'c_sizeof', ['int', by]]
        return ['call', name] + [to_struct(a) for a in e.parameters]
    if isinstance(e, pmbl.Sum): return ['sum', False] + [to_struct(c) for c in e.children]
    if isinstance(e, pmbl.Product): return ['prod', False] + [to_struct(c) for c in e.children]
    if isinstance(e, pmbl.Quotient): return ['quot', False, to_struct(e.numerator), to_struct(e.denominator)]
    s = structure(e)
    if s[0] in ('sum', 'prod', 'quot', 'pow'): s[1] = False
    return s

# ----------------------------------------------------------------------------------------------- sources
def kernel_source(tree, i):
    """Fortran module with kernel i.  Every temporary is written completely, then the callees run, then every element is read back."""
    K = tree['kernels'][i]
    name = K['name']
    ia = K['iargs']
    L = ['module %s_mod' % name, '  implicit none', 'contains', '  subroutine %s(%s, x)' % (name, ', '.join(ia))]
    for c in sorted({tree['kernels'][c['callee']]['name'] for c in K['calls']}):
        L.append('    use %s_mod, only: %s' % (c, c))
    for u in K.get('uses', []):
        L.append('    use %s' % u)
    L.append('    implicit none')
    L.append('    integer, intent(in) :: %s' % ', '.join(ia))
    L.append('    integer, intent(inout) :: x(nlon)')
    for d in K.get('locals', []):
        L.append('    integer :: %s' % d)
    for t in K['temps']:
        L.append('    %s :: %s(%s)' % (TYS[t['ty']][0], t['name'], ', '.join(ftext(d) for d in t['dims'])))
    maxr = max([len(t['dims']) for t in K['temps']] + [1])
    L.append('    integer :: %s' % ', '.join('j%d' % (r + 1) for r in range(maxr)))
    for st in K.get('pre', []):
        L.append('    ' + st)
    for n, t in enumerate(K['temps']):
        r = len(t['dims'])
        for q in reversed(range(r)):
            L.append('    ' + '  ' * (r - 1 - q) + 'do j%d=1,%s' % (q + 1, ftext(t['dims'][q])))
        idx = ', '.join('j%d' % (q + 1) for q in range(r))
        val = 'mod(x(mod(j1 - 1, nlon) + 1) + %s + %d, 97)' % (' + '.join('%d*j%d' % (3 + 4 * q, q + 1) for q in range(r)), 5 * n + i)
        if t['ty'] != 'int': val = 'real(%s)' % val
        L.append('    ' + '  ' * r + '%s(%s) = %s' % (t['name'], idx, val))
        for q in range(r):
            L.append('    ' + '  ' * (r - 1 - q) + 'end do')
    for c in K['calls']:
        L.append('    call %s(%s, x)' % (tree['kernels'][c['callee']]['name'], ', '.join(ftext(a) for a in c['acts'])))
    for n, t in enumerate(K['temps']):
        r = len(t['dims'])
        for q in reversed(range(r)):
            L.append('    ' + '  ' * (r - 1 - q) + 'do j%d=1,%s' % (q + 1, ftext(t['dims'][q])))
        idx = ', '.join('j%d' % (q + 1) for q in range(r))
        rd = '%s(%s)' % (t['name'], idx)
        if t['ty'] != 'int': rd = 'int(%s)' % rd
        w = ' + '.join(['1'] + ['j%d' % (q + 1) for q in range(1, r)])
        L.append('    ' + '  ' * r + 'x(mod(j1 - 1, nlon) + 1) = mod(x(mod(j1 - 1, nlon) + 1) + %s*(%s), 9973)' % (rd, w))
        for q in range(r):
            L.append('    ' + '  ' * (r - 1 - q) + 'end do')
    L += ['  end subroutine %s' % name, 'end module %s_mod' % name]
    return '\n'.join(L) + '\n'

def driver_source(tree):
    D = tree.get('driver', {})
    L = ['subroutine driver(nlon, nz, nb, field)']
    k0 = tree['kernels'][0]['name']
    L.append('  use %s_mod, only: %s' % (k0, k0))
    for u in D.get('uses', []):
        L.append('  use %s' % u)
    L += ['  implicit none', '  integer, intent(in) :: nlon, nz, nb', '  integer, intent(inout) :: field(nlon, nb)', '  integer :: b']
    for d in D.get('locals', []):
        L.append('  integer :: %s' % d)
    for st in D.get('pre', []):
        L.append('  ' + st)
    L.append('  do b=1,nb')
    for acts in tree['root_calls']:
        L.append('    call %s(%s, field(:,b))' % (k0, ', '.join(ftext(a) for a in acts)))
    L += ['  end do', 'end subroutine driver']
    return '\n'.join(L) + '\n'

def main_source(vals):
    L = ['program c38_main', '  implicit none', '  integer :: nlon, nz, nb, i, b', '  integer, allocatable :: field(:,:)']
    for v in vals:
        L += ['  nlon = %d; nz = %d; nb = %d' % (v['nlon'], v['nz'], v['nb']),
              '  allocate(field(nlon, nb))',
              '  do b=1,nb', '    do i=1,nlon', '      field(i,b) = mod(7*i + 13*b, 50)', '    end do', '  end do',
              '  call driver(nlon, nz, nb, field)',
              "  print '(*(I0,1X))', field",
              '  deallocate(field)']
    L.append('end program c38_main')
    return '\n'.join(L) + '\n'

def extra_modules(tree):
    return dict(tree.get('modules', {}))

# ----------------------------------------------------------------------------------------------- the real pipelines
def run_pipeline(tree, pipe, keep=None):
    """write the tree to a scratch directory, process it with the real Scheduler and transformation.  Returns {item name: Subroutine}"""
    from pathlib import Path
    from loki import Dimension
    from loki.batch import Scheduler, SchedulerConfig
    from loki.frontend import FP
    from loki.logging import set_log_level  # noqa
    try:
        from loki import config as loki_config
        loki_config['log-level'] = 'ERROR'
        set_log_level('ERROR')
    except Exception:
        pass
    from loki.transformations.temporaries.pool_allocator import TemporariesPoolAllocatorTransformation
    from loki.transformations.temporaries.stack_allocator import FtrPtrStackTransformation, DirectIdxStackTransformation
    from loki.transformations.temporaries.raw_stack_allocator import TemporariesRawStackTransformation
    from loki.transformations.temporaries.hoist_variables import (
        HoistTemporaryArraysAnalysis, HoistVariablesTransformation, HoistTemporaryArraysTransformationAllocatable)
    d = Path(tempfile.mkdtemp(prefix='lv_c38_'))
    try:
        (d / 'driver.F90').write_text(driver_source(tree))
        for i, K in enumerate(tree['kernels']):
            (d / ('%s_mod.F90' % K['name'])).write_text(kernel_source(tree, i))
        for mname, text in extra_modules(tree).items():
            (d / ('%s.F90' % mname)).write_text(text)
        config = {'default': {'mode': 'idem', 'role': 'kernel', 'expand': True, 'strict': True, 'enable_imports': True,
                              'ignore': ['iso_fortran_env', 'iso_c_binding']},
                  'routines': {'driver': {'role': 'driver'}}}
        sch = Scheduler(paths=[d], config=SchedulerConfig.from_dict(config), frontend=FP, xmods=[d])
        block_dim = Dimension(name='block_dim', size='nb', index='b')
        horizontal = Dimension(name='horizontal', size='nlon', index='jl', bounds=('start', 'end'))
        if pipe in ('pool', 'poolrhs', 'poolnc'):
            sch.process(transformation=TemporariesPoolAllocatorTransformation(
                block_dim=block_dim, horizontal=horizontal, check_bounds=(pipe != 'poolnc'), cray_ptr_loc_rhs=(pipe == 'poolrhs')))
        elif pipe == 'ftr':
            sch.process(transformation=FtrPtrStackTransformation(block_dim=block_dim, horizontal=horizontal, int_kind='4'))
        elif pipe == 'idx':
            sch.process(transformation=DirectIdxStackTransformation(block_dim=block_dim, horizontal=horizontal, int_kind='4'))
        elif pipe == 'raw':
            sch.process(transformation=TemporariesRawStackTransformation(block_dim=block_dim, horizontal=horizontal))
        elif pipe == 'hoist':
            sch.process(transformation=HoistTemporaryArraysAnalysis())
            sch.process(transformation=HoistVariablesTransformation())
        elif pipe == 'hoistalloc':
            sch.process(transformation=HoistTemporaryArraysAnalysis())
            sch.process(transformation=HoistTemporaryArraysTransformationAllocatable())
        else:
            raise ValueError(pipe)
        out = {}
        for it in sch.items:
            out[it.name.split('#')[-1].lower()] = it.ir
        return out
    finally:
        if keep is None:
            shutil.rmtree(d, ignore_errors=True)

# ----------------------------------------------------------------------------------------------- extraction from Loki's output
CLS = {'real': 0, 'int': 1, 'real8': 2}
CLS_TAG = {0: ('z', 'p', ''), 1: ('i', 'k', ''), 2: ('z', 'p', '8')}    # class -> (driver letter, kernel letter, kind name)

def cls_names(c, role):
    """names used by the FtrPtr/DirectIdx/raw variants for class c: (size var, stack array, used dummy, used local)"""
    d, k, kind = CLS_TAG[c]
    mid = (k if role == 'kernel' else d) + ('_' + kind if kind else '')
    if role == 'kernel':
        return ('k_%s_stack_size' % mid, '%s_stack' % mid, 'jd_%s_stack_used' % mid, 'j_%s_stack_used' % mid)
    return ('j_%s_stack_size' % mid, '%s_stack' % mid, None, 'j_%s_stack_used' % mid)

def _body_nodes(routine):
    from loki.ir import nodes as ir
    out = []
    def walk(ns):
        for n in ns:
            if isinstance(n, (tuple, list)): walk(n)
            elif isinstance(n, ir.Section): walk(n.body)
            else: out.append(n)
    walk(routine.body.body)
    return out

def extract_prologue(routine, pipe):
    """leading straight-line statements of a transformed kernel as [['a', name, struct] | ['p', temp, lo, hi]]"""
    from loki.ir import nodes as ir
    from loki.expression import symbols as sym
    pro = []
    for n in _body_nodes(routine):
        if isinstance(n, (ir.Pragma, ir.Comment, ir.CommentBlock, ir.Conditional)):
            continue
        if not isinstance(n, ir.Assignment):
            break
        lhs = n.lhs
        name = lhs.name.lower()
        if getattr(n, 'ptr', False):
            rng = n.rhs.dimensions[0]
            pro.append(['p', name, to_struct(rng.lower), to_struct(rng.upper)])
            continue
        if isinstance(lhs, sym.Array) and lhs.dimensions:
            break
        if pipe in ('pool', 'poolrhs', 'poolnc') and name.startswith('ip_'):
            rhs = n.rhs
            if pipe == 'poolrhs':
                rhs = rhs.parameters[0].dimensions[0]       # LOC(ZSTACK(YLSTACK_L))
            s = to_struct(rhs)
            pro.append(['p', name[3:], s, s])
            continue
        pro.append(['a', name, to_struct(n.rhs)])
        if pipe in ('idx', 'raw') and name.startswith('jd_') and not name.endswith('_stack_used'):
            pro.append(['p', name[3:], ['var', name], ['var', name]])
    return pro

def run_pro(pro, env):
    """numeric execution of an extracted prologue: returns (env', {temp: (lo, hi)})"""
    env = dict(env)
    pts = {}
    order = []
    for st in pro:
        if st[0] == 'a':
            env[st[1]] = sval(st[2], env)
        else:
            pts[st[1]] = (sval(st[2], env), sval(st[3], env)); order.append(st[1])
    return env, pts, order

def extract_driver_sizes(routine, pipe):
    """{class or 'pool': structure} of the stack size assigned in the driver"""
    from loki.ir import nodes as ir, FindNodes
    out = {}
    for a in FindNodes(ir.Assignment).visit(routine.body):
        n = a.lhs.name.lower()
        if pipe in ('pool', 'poolrhs', 'poolnc'):
            if n == 'istsz': out['pool'] = to_struct(a.rhs)
        else:
            for c in CLS_TAG:
                if n == cls_names(c, 'driver')[0]: out[str(c)] = to_struct(a.rhs)
    return out

def extract_calls(routine, pipe, tree):
    """for every call to a tree kernel: what is passed for the stack (structures), in body order"""
    from loki.ir import nodes as ir, FindNodes
    names = {K['name'] for K in tree['kernels']}
    out = []
    for call in FindNodes(ir.CallStatement).visit(routine.body):
        cn = str(call.name).lower()
        if cn not in names: continue
        rec = {'callee': cn, 'nargs': len(call.arguments)}
        if pipe in ('pool', 'poolrhs', 'poolnc'):
            rec['kw'] = {str(k).lower(): str(v).lower().replace(' ', '') for k, v in (call.kwarguments or ())}
        else:
            rec['extra'] = []
            for a in call.arguments:
                s = str(a).lower().replace(' ', '')
                if 'stack' in s:
                    ent = {'text': s}
                    if pipe == 'raw' and hasattr(a, 'dimensions') and a.dimensions and len(a.dimensions) >= 2 and hasattr(a.dimensions[1], 'lower') \
                            and a.dimensions[1].lower is not None:
                        ent['lo'] = to_struct(a.dimensions[1].lower); ent['hi'] = to_struct(a.dimensions[1].upper)
                    elif pipe == 'raw' and not hasattr(a, 'dimensions'):
                        ent['size'] = to_struct(a)
                    rec['extra'].append(ent)
        out.append(rec)
    return out

def extract_driver_base(routine, pipe):
    """how the driver positions the stack for block b: text of the pointer assignment inside the block loop (pool) """
    from loki.ir import nodes as ir, FindNodes
    out = []
    for loop in FindNodes(ir.Loop).visit(routine.body):
        if str(loop.variable).lower() != 'b': continue
        for a in FindNodes(ir.Assignment).visit(loop.body):
            if a.lhs.name.lower() in ('ylstack_l', 'ylstack_u'):
                out.append([a.lhs.name.lower(), str(a.rhs).lower().replace(' ', '')])
    return out

def extract_assigned_names(routine):
    from loki.ir import nodes as ir, FindNodes
    return sorted({a.lhs.name.lower() for a in FindNodes(ir.Assignment).visit(routine.body)})

def extract_probes(routine, pipe, K):
    """DirectIdx / raw: index expression of the first store to every stacked temporary (the fill loops come in declaration order),
    with the loop variables replaced by 1 (first element) and by the extents (last element)"""
    from loki.ir import nodes as ir, FindNodes
    from loki.expression import symbols as sym
    stores = [a for a in FindNodes(ir.Assignment).visit(routine.body)
              if isinstance(a.lhs, sym.Array) and a.lhs.dimensions and a.lhs.name.lower().endswith('_stack')]
    # the fill statement of temporary n is the n-th store whose rhs starts with REAL(MOD / MOD( ... written by kernel_source
    fills = [a for a in stores if 'mod(x(mod(j1' in str(a.rhs).lower().replace(' ', '')]
    return fills

def hoisted_decls(routine, names):
    """{var name: [dim structures]} for the given (lower-case) variable names, from declarations or ALLOCATE statements"""
    from loki.ir import nodes as ir, FindNodes
    out = {}
    for v in routine.variables:
        n = v.name.lower()
        if n in names and getattr(v, 'dimensions', None):
            dims = v.dimensions
            if all(getattr(d, 'lower', 'x') is None and getattr(d, 'upper', 'x') is None for d in dims if hasattr(d, 'lower')) and \
               all(hasattr(d, 'lower') for d in dims):
                continue      # (:,:) of an allocatable
            out[n] = [to_struct(d) for d in dims]
    for al in FindNodes(ir.Allocation).visit(routine.body):
        for v in al.variables:
            n = v.name.lower()
            if n in names: out[n] = [to_struct(d) for d in v.dimensions]
    return out

# ----------------------------------------------------------------------------------------------- true semantics of the tree (oracle side)
def true_extents(t, env):
    return [max(0, sval(d, env)) for d in t['dims']]

def prod(l):
    r = 1
    for x in l: r *= x
    return r

def is_stackable(t):
    return not all(d[0] == 'int' for d in t['dims'])

def lead_nlon(t):
    return t['dims'][0] == ['var', 'nlon']

def kernel_env(K, env):
    """environment inside kernel K: integer dummies plus its 'lets' (local integers assigned before the calls)"""
    e = dict(env)
    for name, ex in K.get('lets', []):
        e[name] = sval(ex, e)
    return e

def activations(tree, denv):
    """all kernel activations along all call paths for one block: (path, kernel index, env); path = tuple of call positions"""
    out = []
    def go(ki, env, path):
        K = tree['kernels'][ki]
        env = kernel_env(K, env)
        out.append((path, ki, env))
        for ci, c in enumerate(K['calls']):
            cal = tree['kernels'][c['callee']]
            cenv = {a: sval(x, env) for a, x in zip(cal['iargs'], c['acts'])}
            go(c['callee'], cenv, path + (ci,))
    for ri, acts in enumerate(tree['root_calls']):
        k0 = tree['kernels'][0]
        d = dict(denv); d.update(tree.get('driver', {}).get('env', {}))
        go(0, {a: sval(x, d) for a, x in zip(k0['iargs'], acts)}, (ri,))
    return out

def unit_count(pipe, t, env):
    """storage one temporary really needs, in the unit of the variant's stack pointer"""
    n = prod(true_extents(t, env))
    by = TYS[t['ty']][1]
    if pipe in ('pool', 'poolnc'): return n * by                 # pointer counts bytes
    if pipe == 'poolrhs': return (n * by + 7) // 8               # pointer counts 8-byte words
    if pipe in ('ftr', 'idx'): return n
    if pipe == 'raw': return prod(true_extents(t, env)[1:])      # columns
    raise ValueError(pipe)

def check_storage(case, out):
    """replay Loki's allocation protocol (extracted prologues, call arguments, size expressions) along every call path with the TRUE
    extents of the temporaries: everything live must be pairwise disjoint and inside the stack the driver allocates"""
    tree, pipe = case['tree'], case['pipe']
    relax = set(case.get('relax', []))
    pool = pipe in ('pool', 'poolrhs', 'poolnc')
    classes = ['pool'] if pool else [str(c) for c in CLS_TAG]
    scale = 8 if pipe in ('pool', 'poolnc') else 1          # stack units per unit of the driver's size expression
    lo0 = 4096 if pipe in ('pool', 'poolnc') else 1          # first valid position of a block's stack
    start0 = 0 if pipe == 'raw' else lo0                     # what the driver passes (raw: column offset of the slice)
    for v in case['vals']:
        denv = dict(v); denv.update(tree.get('driver', {}).get('env', {}))
        size = {}
        for c in classes:
            if c in out['sizes']:
                try:
                    size[c] = sval(out['sizes'][c], denv)
                except Undef as e:
                    return 'driver stack size (%s) cannot be evaluated from what the driver knows (%s): %s' % (c, e, ftext(out['sizes'][c])[:200])
        msgs = []
        def go(ki, env, bases, live, path):
            if msgs: return
            K = tree['kernels'][ki]
            env = kernel_env(K, env)
            ko = out['kernels'][K['name']]
            penv = dict(env)
            for c in classes:
                if pool:
                    penv['ydstack_l'] = bases[c]; penv['ydstack_u'] = lo0 + scale * size.get(c, 0)
                else:
                    n = cls_names(int(c), 'kernel')
                    penv[n[2]] = bases.get(c, start0)
                    penv[n[0]] = size.get(c, 0) - (bases.get(c, 0) if pipe == 'raw' else 0)
            try:
                penv2, pts, order = run_pro(ko['pro'], penv)
            except Undef as e:
                msgs.append('%s: allocation prologue uses an undefined value (%s)' % (K['name'], e)); return
            new = {c: [] for c in classes}
            for t in K['temps']:
                if t['name'] not in pts: continue
                c = 'pool' if pool else str(CLS[t['ty']])
                need = unit_count(pipe, t, env)
                lo = pts[t['name']][0]
                if pipe in ('idx', 'raw'):
                    pr = ko['probes'].get(t['name'])
                    if pr is None:
                        msgs.append('%s: no access to %s found in the transformed body' % (K['name'], t['name'])); return
                    first, last = sval(pr[0], penv2), sval(pr[1], penv2)
                    off = bases.get(c, 0) if pipe == 'raw' else 0
                    iv = (first + off, (last + 1 if need > 0 else first) + off)
                else:
                    iv = (lo, lo + need)
                    if pipe == 'poolrhs' and 'zeroptr' not in relax and lo > size.get(c, 0):
                        msgs.append('%s: Cray pointer of %s is set to LOC(ZSTACK(%d)) but ZSTACK has %d elements (zero-sized temporary at the top of the stack; path %s, %s)'
                                    % (K['name'], t['name'], lo, size.get(c, 0), path, v)); return
                    if pipe == 'ftr' and 'section' not in relax and need > 0 and pts[t['name']][1] > size.get(c, 0):
                        msgs.append('%s: pointer target section of %s ends at index %d, the stack has %d elements (path %s, %s)'
                                    % (K['name'], t['name'], pts[t['name']][1], size.get(c, 0), path, v)); return
                new[c].append((K['name'] + '.' + t['name'], iv))
            for c in classes:
                for (n1, a) in new[c]:
                    for (n2, b) in live.get(c, []) + new[c]:
                        if n1 != n2 and a[0] < a[1] and b[0] < b[1] and a[0] < b[1] and b[0] < a[1]:
                            msgs.append('live temporaries overlap: %s [%d,%d) and %s [%d,%d) (stack %s, path %s, %s)' % (n1, a[0], a[1], n2, b[0], b[1], c, path, v)); return
                    slack = 1 if 'bound' in relax else 0      # DirectIdx: every index is one too high (documented finding); anything beyond that is new
                    if a[0] < a[1] and (a[0] < lo0 or a[1] > lo0 + scale * size.get(c, 0) + slack):
                        msgs.append('%s occupies [%d,%d) but the stack is [%d,%d): computed size %s (stack %s, path %s, %s)'
                                    % (n1, a[0], a[1], lo0, lo0 + scale * size.get(c, 0), size.get(c), c, path, v)); return
            live2 = {c: live.get(c, []) + new[c] for c in classes}
            for ci, (c_, rec) in enumerate(zip(K['calls'], ko['calls'])):
                cal = tree['kernels'][c_['callee']]
                cenv = {a: sval(x, env) for a, x in zip(cal['iargs'], c_['acts'])}
                nb = {}
                for c in classes:
                    if pool:
                        nb[c] = penv2.get(rec['kw'].get('ydstack_l', ''), None)
                        if nb[c] is None:
                            msgs.append('%s passes %r as stack pointer' % (K['name'], rec['kw'])); return
                    elif pipe == 'raw':
                        names = cls_names(int(c), 'kernel')
                        ent = [e for e in rec['extra'] if e['text'].startswith(names[1] + '(') and 'lo' in e]
                        if not ent: continue
                        try:
                            nb[c] = bases.get(c, 0) + sval(ent[0]['lo'], penv2) - 1
                        except Undef as e:
                            msgs.append('%s passes the stack slice %s to %s but never assigns that variable (%s)' % (K['name'], ent[0]['text'], rec['callee'], e)); return
                    else:
                        names = cls_names(int(c), 'kernel')
                        passed = [e['text'] for e in rec['extra']]
                        if names[3] in passed and names[3] in penv2: nb[c] = penv2[names[3]]
                        elif names[3] in passed or names[2] in passed:
                            msgs.append('%s passes %s to %s' % (K['name'], passed, rec['callee'])); return
                go(c_['callee'], cenv, nb, live2, path + (ci,))
        for ri, acts in enumerate(tree['root_calls']):
            k0 = tree['kernels'][0]
            try:
                go(0, {a: sval(x, denv) for a, x in zip(k0['iargs'], acts)}, {c: start0 for c in classes}, {}, (ri,))
            except Undef as e:
                return 'replay of the allocation protocol met an undefined value: %s' % e
        if msgs: return msgs[0]
    return None

def check_protocol(case, out):
    """structural part of the protocol: nobody assigns the stack-pointer dummy, callees receive the kernel's LOCAL pointer"""
    tree, pipe = case['tree'], case['pipe']
    pool = pipe in ('pool', 'poolrhs', 'poolnc')
    # per-block base in the driver
    if pool:
        base = dict(out.get('driver_base', []))
        want = '1' if pipe == 'poolrhs' else 'loc(zstack(1,b))'
        if base.get('ylstack_l') != want: return 'driver: block stack pointer is %r, expected %s' % (base.get('ylstack_l'), want)
        if pipe != 'poolnc':
            wantu = 'ylstack_l+istsz' if pipe == 'poolrhs' else 'ylstack_l+istsz*c_sizeof(real(1,kind=real64))'
            if base.get('ylstack_u') != wantu: return 'driver: block stack end is %r, expected %s' % (base.get('ylstack_u'), wantu)
        for rec in out['driver_calls']:
            if rec['kw'].get('ydstack_l') != 'ylstack_l': return 'driver passes %r' % (rec['kw'],)
            if pipe == 'poolrhs' and rec['kw'].get('zstack') != 'zstack(:,b)': return 'driver passes %r' % (rec['kw'],)
    else:
        for rec in out['driver_calls']:
            for e in rec['extra']:
                t = e['text']
                if '_stack(' in t and not (t.endswith('(:,b)') or t.endswith('(:,:,b)')):
                    return 'driver passes %s: not the slice of block b' % t
    for K in tree['kernels']:
        ko = out['kernels'][K['name']]
        if pool:
            if 'ydstack_l' in ko['assigned']: return '%s assigns its stack-pointer dummy YDSTACK_L' % K['name']
            if ko['pro'] and ko['pro'][0][:2] != ['a', 'ylstack_l']: return '%s does not start by copying the stack pointer' % K['name']
            for rec in ko['calls']:
                if rec['kw'].get('ydstack_l') != 'ylstack_l': return '%s passes %r to %s' % (K['name'], rec['kw'], rec['callee'])
        elif pipe in ('ftr', 'idx'):
            for c in CLS_TAG:
                n = cls_names(c, 'kernel')
                if n[2] in ko['assigned']: return '%s assigns its stack-used dummy %s' % (K['name'], n[2])
    return None

def check_hoist(case, out):
    tree = case['tree']
    decl = out['hoist']['driver']
    for v in case['vals']:
        denv = dict(v); denv.update(tree.get('driver', {}).get('env', {}))
        for path, ki, env in activations(tree, v):
            K = tree['kernels'][ki]
            for t in K['temps']:
                if not is_stackable(t): continue
                hn = '%s_%s' % (K['name'], t['name'])
                if hn not in decl: return 'temporary %s of %s is not declared in the driver' % (t['name'], K['name'])
                try:
                    have = prod(max(0, sval(d, denv)) for d in decl[hn])
                except Undef as e:
                    return 'declared shape of %s cannot be evaluated in the driver (%s)' % (hn, e)
                need = prod(true_extents(t, env))
                if need > have:
                    return 'hoisted array %s has %d elements (declared %s) but the activation %s of %s needs %d (%s)' % (
                        hn, have, ', '.join(ftext(d) for d in decl[hn]), path, K['name'], need, v)
    return None

# ----------------------------------------------------------------------------------------------- gfortran (thorough tier / samples)
def _patch_text(t, pipe):
    t = re.sub(r'KIND=JPIM', 'KIND=4', t)
    lines, seen = [], set()
    for l in t.split('\n'):
        if re.search(r'_STACK\(K_', l): l = l.replace('CONTIGUOUS, ', '')       # CONTIGUOUS on an explicit-shape dummy: rejected by gfortran
        if re.match(r'\s*INTEGER\(KIND=4\) :: JD_incr\w*\s*$', l):               # declared once per (type, kind) class with the same name
            if l.strip() in seen: continue
            seen.add(l.strip())
        lines.append(l)
    return '\n'.join(lines)

def _instrument(text, pipe, role, name):
    """inject prints of the stack pointer(s): after the prologue of a kernel, at the start of each block in the driver"""
    lines = text.split('\n')
    out = []
    done = False
    pool = pipe in ('pool', 'poolrhs', 'poolnc')
    for l in lines:
        s = l.strip().upper()
        if role == 'kernel' and not done and (s.startswith('DO ') or s.startswith('CALL ')):
            if pool:
                out.append("  print '(A,1X,I0)', '@HW', YLSTACK_L")
            else:
                for c in CLS_TAG:
                    n = cls_names(c, 'kernel')
                    if re.search(r'\b%s\b' % n[3], text, re.I):
                        if pipe == 'raw':
                            out.append("  print '(A,1X,I0,1X,I0)', '@REM%d', %s - %s, %s" % (c, n[0], n[3], n[0]))
                        else:
                            out.append("  print '(A,1X,I0)', '@HW%d', %s" % (c, n[3]))
            done = True
        out.append(l)
        if role == 'driver' and pool and s.startswith('YLSTACK_L ='):
            out.append("    print '(A,1X,I0,1X,I0)', '@BASE', YLSTACK_L, ISTSZ")
        if role == 'driver' and not pool and s.startswith('DO B='):
            for c in CLS_TAG:
                n = cls_names(c, 'driver')
                if re.search(r'\b%s\b' % n[0], text, re.I):
                    out.append("    print '(A,1X,I0)', '@SIZE%d', %s" % (c, n[0]))
    return '\n'.join(out)

def gf_sources(tree, routines, pipe, instrument=False):
    from loki import fgen
    srcs = list(extra_modules(tree).values())
    for K in reversed(tree['kernels']):
        t = _patch_text(fgen(routines[K['name']]), pipe)
        if instrument: t = _instrument(t, pipe, 'kernel', K['name'])
        srcs.append('module %s_mod\nimplicit none\ncontains\n%s\nend module %s_mod\n' % (K['name'], t, K['name']))
    t = _patch_text(fgen(routines['driver']), pipe)
    if instrument: t = _instrument(t, pipe, 'driver', 'driver')
    srcs.append(t)
    return srcs

def gf_run(sources, main, bounds):
    from ..minif import gfortran_run
    flags = ['-O0', '-ffree-line-length-none', '-fcray-pointer', '-w']
    if bounds: flags.append('-fcheck=bounds')
    return gfortran_run(sources, main, timeout=120, flags=tuple(flags))

# ----------------------------------------------------------------------------------------------- model literals
def temp_model(t):
    return C('Build_temp', t['name'], CLS[t['ty']], TYS[t['ty']][1], [smodel(d) for d in t['dims']])

def in_model(tree):
    """trees using local integers / module variables / driver-local names are outside the modelled language (oracle only)"""
    if tree.get('modules') or tree.get('driver', {}).get('env') or tree.get('driver', {}).get('locals'): return False
    if any(K.get('lets') or K.get('uses') or K.get('locals') for K in tree['kernels']): return False
    def plain(s_):      # no integer division, no negative literals: simplify() is not modelled
        if s_[0] == 'quot': return False
        if s_[0] in ('int', 'py'): return s_[1] >= 0
        if s_[0] in ('sum', 'prod'): return all(plain(c) for c in s_[2:])
        return s_[0] == 'var'
    return all(plain(d) for K in tree['kernels'] for t in K['temps'] for d in t['dims'])

def tree_lets(tree):
    """Coq text: let k<n> := ... in ... let root := ... in   (callees are bound before their callers)"""
    parts = []
    for i in reversed(range(len(tree['kernels']))):
        K = tree['kernels'][i]
        cs = Raw('CNil')
        for c in reversed(K['calls']):
            cs = C('CCons', [smodel(a) for a in c['acts']], Raw('kk%d' % c['callee']), cs)
        parts.append('let kk%d := %s in' % (i, coq(C('Kern', K['name'], list(K['iargs']), [temp_model(t) for t in K['temps']], cs))))
    cs = Raw('CNil')
    for acts in reversed(tree['root_calls']):
        cs = C('CCons', [smodel(a) for a in acts], Raw('kk0'), cs)
    parts.append('let root := %s in' % coq(C('Kern', 'driver', list(DRIVER_INTS), [], cs)))
    return ' '.join(parts)

def alist(d):
    return [(k, int(v)) for k, v in sorted(d.items())]

MODE = {'pool': 'MPool', 'poolrhs': 'MPool', 'poolnc': 'MPool', 'ftr': 'MElem', 'idx': 'MElem', 'raw': 'MRaw'}

def selected(pipe, c, t):
    if not is_stackable(t): return False
    if pipe in ('pool', 'poolrhs', 'poolnc'): return True
    if CLS[t['ty']] != c: return False
    return lead_nlon(t) if pipe == 'raw' else True

# ----------------------------------------------------------------------------------------------- generator
def V(x): return ['var', x]
def I(n): return ['int', n]

def gen_dim(rng, names, lead):
    if lead: return V('nlon')
    r = rng.random()
    p = rng.choice(names)
    if r < 0.35: return V(p)
    if r < 0.55: return ['sum', False, V(p), I(rng.randint(1, 2))]
    if r < 0.7: return ['prod', False, I(2), V(p)]
    if r < 0.8: return ['prod', False, V('nlon'), ['sum', False, V(p), I(1)]]
    if r < 0.9: return I(rng.randint(1, 3))
    return ['prod', False, V(p), V(rng.choice(names))]

def gen_act(rng, names):
    r = rng.random()
    p = rng.choice(names)
    if r < 0.4: return V(p)
    if r < 0.6: return ['sum', False, V(p), I(1)]
    if r < 0.72: return ['prod', False, I(2), V(p)]
    if r < 0.85: return I(rng.randint(0, 3))
    return ['sum', False, V(p), V(rng.choice(names))]

def gen_tree(rng, pipe, style='unique'):
    """style 'unique': every kernel has its own dummy names (plus nlon, always passed as nlon); 'same': all kernels use (nlon, m, l) and
    actuals are the same-named variable or a literal"""
    nk = rng.choice([1, 2, 2, 3, 3, 4])
    kernels = []
    for i in range(nk):
        if style == 'same': ia = ['nlon', 'm', 'l'][:rng.randint(2, 3)]
        else: ia = ['nlon'] + ['%s%d' % (ch, i) for ch in 'abc'[:rng.randint(1, 2)]]
        own = ia[1:]
        temps = []
        for n in range(rng.randint(0 if i > 0 and rng.random() < 0.15 else 1, 4)):
            rank = rng.choice([1, 2, 2, 2, 3])
            if pipe == 'idx' and rank == 1: rank = 2
            lead = rng.random() < (0.85 if pipe == 'raw' else 0.6)
            dims = [gen_dim(rng, own + (['nlon'] if rng.random() < 0.2 else []) or own, lead and q == 0) for q in range(rank)]
            if all(d[0] == 'int' for d in dims) and rng.random() < 0.7: dims[0] = V('nlon')
            ty = rng.choice(['real', 'real', 'real', 'int', 'int', 'real8'])
            if ty == 'real8' and pipe in ('hoist', 'hoistalloc'): ty = 'real'      # literal kinds crash HoistVariablesAnalysis (notes)
            temps.append({'name': 't%d' % n, 'ty': ty, 'dims': dims})
        kernels.append({'name': 'k%d' % i, 'iargs': ia, 'temps': temps, 'calls': []})
    # acyclic calls: i -> j with j > i; every kernel reachable
    for j in range(1, nk):
        callers = [rng.randrange(0, j)]
        if rng.random() < 0.25 and j >= 2 and pipe not in ('hoist', 'hoistalloc'): callers.append(rng.randrange(0, j))
        for i in dict.fromkeys(callers):
            ncall = 2 if (rng.random() < 0.3 and pipe not in ('hoist', 'hoistalloc')) else 1
            for _ in range(ncall):
                caller, callee = kernels[i], kernels[j]
                acts = []
                for a in callee['iargs']:
                    if a == 'nlon': acts.append(V('nlon'))
                    elif style == 'same': acts.append(V(a) if (a in caller['iargs'] and rng.random() < 0.7) else I(rng.randint(0, 3)))
                    else: acts.append(gen_act(rng, caller['iargs'][1:]))
                caller['calls'].append({'callee': j, 'acts': acts})
    for K in kernels:
        rng.shuffle(K['calls'])
    if pipe == 'raw':
        # the raw stack needs, in every calling kernel, own stacked temporaries of each class its callees use (notes: finding F-raw-1)
        below = {}
        for i in reversed(range(nk)):
            s_ = {CLS[t['ty']] for t in kernels[i]['temps'] if is_stackable(t) and lead_nlon(t)}
            for c in kernels[i]['calls']: s_ |= below[c['callee']]
            below[i] = s_
            if kernels[i]['calls']:
                own = {CLS[t['ty']] for t in kernels[i]['temps'] if is_stackable(t) and lead_nlon(t)}
                for c in sorted(s_ - own):
                    ty = [k for k, v in CLS.items() if v == c][0]
                    kernels[i]['temps'].append({'name': 'u%d' % c, 'ty': ty, 'dims': [V('nlon'), V(kernels[i]['iargs'][1])]})
    k0 = kernels[0]
    roots = []
    for _ in range(2 if (rng.random() < 0.2 and pipe not in ('hoist', 'hoistalloc')) else 1):
        roots.append([V('nlon') if a == 'nlon' else gen_act(rng, ['nz']) for a in k0['iargs']])
    return {'kernels': kernels, 'root_calls': roots}

def gen_vals(rng, n=3):
    return [{'nlon': rng.randint(1, 4), 'nz': rng.randint(0, 3), 'nb': rng.randint(1, 3)} for _ in range(n)]

def gen_kvals(rng, tree, n=3):
    out = {}
    for K in tree['kernels']:
        vs = []
        for _ in range(n):
            d = {a: rng.randint(0, 4) for a in K['iargs']}
            d['nlon'] = rng.randint(1, 4)
            vs.append(d)
        out[K['name']] = vs
    return out

# ----------------------------------------------------------------------------------------------- the property
class C38(Property):
    id = 'C38'
    imports = ['Base.Expr', 'models.M_C38']
    theorem_file = 'theories/props/T_C38.v'
    parallel = True
    shard = 60
    rule = ('generated driver/kernel call trees (1-4 kernels, up to 3 levels, kernels called once or twice with different actuals, diamonds; 0-4 '
            'temporaries per kernel of rank 1-3 with extents like n, n+1, 2*n, nlon*(n+1), n*m, literals; REAL, INTEGER and REAL(KIND=8)), written '
            'to a scratch directory and processed by the real Scheduler with each of pool allocator (both Cray-pointer forms), FtrPtr, DirectIdx, '
            'raw stack, hoist (plain and allocatable); distinct = distinct (tree, pipeline); non-trivial = at least two levels and a caller with '
            'temporaries of its own')
    modelled_not_verified = [
        'Fortran semantics of Cray pointers, LOC, C_F_POINTER-free pointer remapping and explicit-shape dummy association (reached only by the gfortran runs)',
        'byte sizes of the types (REAL/INTEGER 4, KIND=8 8) are fixed in the harness; C_SIZEOF is not modelled beyond returning them',
        'loki.expression.simplify is not re-modelled: Loki\'s expressions are compared with the model\'s by value on valuations',
        'accelerator directives / pragma rewriting, derived-type members, OPTIONAL arguments and kwarg conversion in the stack variants',
        'the bodies of the kernels (rewriting of array accesses) are covered by index probes (DirectIdx/raw) and by the gfortran runs, not by a theorem',
    ]

    # -- generation
    def generate(self, rng, tier):
        kinds = os.environ.get('LOKI_VERIF_C38_KINDS')
        kinds = set(kinds.split(',')) if kinds else None
        n = {'pool': 26, 'poolrhs': 18, 'ftr': 26, 'idx': 18, 'raw': 26, 'hoist': 22, 'hoistalloc': 12}
        if tier != 'quick': n = {k: v * 3 for k, v in n.items()}
        gf_rate = 0.07 if tier == 'quick' else 0.25
        for pipe in PIPES:
            if kinds and pipe not in kinds: continue
            for q in range(n[pipe]):
                style = 'same' if q % 4 == 3 else 'unique'
                tree = gen_tree(rng, pipe, style)
                case = {'kind': pipe, 'pipe': pipe, 'style': style, 'tree': tree, 'vals': gen_vals(rng), 'kvals': gen_kvals(rng, tree)}
                if pipe == 'idx': case['relax'] = ['bound']
                if pipe == 'ftr': case['relax'] = ['section']
                if pipe == 'poolrhs': case['relax'] = ['zeroptr']
                # DirectIdx output overruns its stack by one element on EVERY input (F-C38-3): running it corrupts the heap at random, so no gfortran run
                if rng.random() < gf_rate and pipe != 'idx': case['gf'] = True
                yield case

    # -- implementation side
    def run_impl(self, case):
        tree, pipe = case['tree'], case['pipe']
        try:
            routines = run_pipeline(tree, pipe)
        except Exception as e:       # the transformation refused / crashed
            cause = e.__cause__ or e
            return {'error': type(cause).__name__, 'msg': str(e)[:300]}
        out = {'pipe': pipe, 'kernels': {}}
        drv = routines['driver']
        if pipe in ('hoist', 'hoistalloc'):
            names = {'%s_%s' % (K['name'], t['name']) for K in tree['kernels'] for t in K['temps']}
            out['hoist'] = {'driver': hoisted_decls(drv, names)}
            for K in tree['kernels']:
                r = routines[K['name']]
                d = {}
                orig = set(K['iargs']) | {'x'}
                for a in r.arguments:
                    n = a.name.lower()
                    if n in orig: continue
                    key = n if n in names else '%s_%s' % (K['name'], n)
                    d[key] = [to_struct(x) for x in a.dimensions]
                out['hoist'][K['name']] = d
        else:
            out['sizes'] = extract_driver_sizes(drv, pipe)
            out['driver_calls'] = extract_calls(drv, pipe, tree)
            out['driver_base'] = extract_driver_base(drv, pipe)
            for i, K in enumerate(tree['kernels']):
                r = routines[K['name']]
                ko = {'pro': extract_prologue(r, pipe), 'calls': extract_calls(r, pipe, tree), 'assigned': extract_assigned_names(r), 'probes': {}}
                if pipe in ('idx', 'raw'):
                    for a in extract_probes(r, pipe, K):
                        m = re.search(r'\+\s*(\d+),\s*97\)', str(a.rhs))
                        if not m: continue
                        t = K['temps'][(int(m.group(1)) - i) // 5]
                        ix = to_struct(a.lhs.dimensions[0] if pipe == 'idx' else a.lhs.dimensions[1])
                        r_ = len(t['dims'])
                        one = {'j%d' % (q + 1): I(1) for q in range(r_)}
                        ext = {'j%d' % (q + 1): t['dims'][q] for q in range(r_)}
                        ko['probes'][t['name']] = [ssubst(ix, one), ssubst(ix, ext), bool(pipe == 'idx' and svars(ix) <= {'j1'})]
                out['kernels'][K['name']] = ko
        if case.get('gf'):
            out['gf'] = self._gfortran(case, routines, out)
        return out

    def _gfortran(self, case, routines, out=None):
        tree, pipe = case['tree'], case['pipe']
        main = main_source(case['vals'])
        orig = list(extra_modules(tree).values()) + [kernel_source(tree, i) for i in reversed(range(len(tree['kernels'])))] + [driver_source(tree)]
        ok0, t0 = gf_run(orig, main, True)
        res = {'orig_ok': ok0, 'orig': t0 if ok0 else t0[:600]}
        # FtrPtr sections and the LOC(ZSTACK(ptr)) of a zero-sized temporary reach one element past the stack without touching it (findings F-C38-4/12)
        bounds = pipe not in ('ftr', 'idx', 'poolrhs') or bool(case.get('gf_bounds'))
        if pipe == 'pool' and out and 'pool' in out.get('sizes', {}):
            try:      # an empty stack: LOC(ZSTACK(1, b)) is itself an out-of-bounds reference (same nature as F-C38-12)
                if any(sval(out['sizes']['pool'], dict(v)) == 0 for v in case['vals']): bounds = False
            except Undef:
                pass
        ok1, t1 = gf_run(gf_sources(tree, routines, pipe), main, bounds)
        res.update({'trans_ok': ok1, 'trans': t1 if ok1 else t1[:600]})
        if pipe not in ('hoist', 'hoistalloc'):
            ok2, t2 = gf_run(gf_sources(tree, routines, pipe, instrument=True), main, False)
            res['instr_ok'] = ok2
            if ok2:
                res['marks'] = [l.split() for l in t2.split('\n') if l.startswith('@')]
                res['instr_out'] = '\n'.join(l for l in t2.split('\n') if not l.startswith('@'))
            else:
                res['instr'] = t2[:600]
        return res

    # -- model side
    def model_term(self, case, out):
        tree, pipe = case['tree'], case['pipe']
        if case.get('tie') is False or not in_model(tree): return None
        if 'error' in out:
            raise ValueError('implementation raised %s' % out['error'])
        terms = []
        vals = [alist(v) for v in case['vals']]
        if pipe in ('hoist', 'hoistalloc'):
            terms.append(coq(C('chk_hoist', True, Raw('root'), [(n, [smodel(d) for d in ds]) for n, ds in sorted(out['hoist']['driver'].items())], vals)))
            for i, K in enumerate(tree['kernels']):
                kv = [alist(v) for v in case['kvals'][K['name']]]
                terms.append(coq(C('chk_hoist', False, Raw('kk%d' % i), [(n, [smodel(d) for d in ds]) for n, ds in sorted(out['hoist'][K['name']].items())], kv)))
            for v in case['vals']:
                c1 = dict(case); c1['vals'] = [v]
                terms.append(coq(C('chk_hoist_enough', Raw('root'), alist(v), check_hoist(c1, out) is None)))
        else:
            mode = Raw(MODE[pipe])
            pool = pipe in ('pool', 'poolrhs', 'poolnc')
            classes = [0] if pool else sorted(CLS_TAG)
            for c in classes:
                key = 'pool' if pool else str(c)
                has = any(selected(pipe, c, t) for K in tree['kernels'] for t in K['temps'])
                if key in out['sizes']:
                    sz = smodel(out['sizes'][key])
                    terms.append(coq(C('chk_size', mode, c, Raw('root'), sz, vals)))
                    if not case.get('no_hw'):
                        terms.append(coq(C('chk_hw', mode, c, Raw('root'), sz, vals)))
                elif has:
                    terms.append('false')
                for i, K in enumerate(tree['kernels']):
                    if not pool and not any(selected(pipe, c, t) for t in K['temps']): continue
                    ko = out['kernels'][K['name']]
                    pro = [C('PA', s[1], smodel(s[2])) if s[0] == 'a' else C('PP', s[1], smodel(s[2]), smodel(s[3])) for s in ko['pro']]
                    if pool:
                        dummy, final, scale, secs = 'ydstack_l', 'ylstack_l', (1 if pipe == 'poolrhs' else 8), False
                    else:
                        nm = cls_names(c, 'kernel')
                        dummy, final, scale, secs = ('' if pipe == 'raw' else nm[2]), nm[3], 1, pipe == 'ftr'
                    kv = []
                    for j, v in enumerate(case['kvals'][K['name']]):
                        d = dict(v)
                        if dummy: d[dummy] = (4096 + 8 * j) if scale == 8 else 1 + j
                        kv.append(alist(d))
                    terms.append(coq(C('chk_pro', mode, c, Raw('kk%d' % i), pro, dummy, final, scale, secs, kv)))
                    if pipe in ('idx', 'raw'):
                        for t in K['temps']:
                            if not selected(pipe, c, t): continue
                            pr = ko['probes'].get(t['name'])
                            if pr is None:
                                terms.append('false'); continue
                            terms.append(coq(C('chk_probe', Raw('IdxDirect' if pipe == 'idx' else 'IdxRaw'), mode, Raw('kk%d' % i), pro, t['name'],
                                               'jd_' + t['name'], bool(pr[2]), smodel(pr[0]), smodel(pr[1]), kv)))
        if not terms: return None
        return '(%s (%s))' % (tree_lets(tree), ' && '.join(terms))

    # -- oracle
    def oracle(self, case, out):
        if '__exception__' in out:
            return 'harness/implementation raised %s: %s' % (out['__exception__'], out.get('msg'))
        if 'error' in out:
            if case.get('expect_error'): return None
            return 'the transformation raised %s: %s' % (out['error'], out.get('msg', '')[:160])
        pipe = case['pipe']
        if case.get('tie_only'): return None
        if pipe in ('hoist', 'hoistalloc'):
            r = check_hoist(case, out)
        else:
            r = check_protocol(case, out) or check_storage(case, out)
        if r: return r
        gf = out.get('gf')
        if gf and any(gf.get(k) == 'timeout' for k in ('orig', 'trans', 'instr')):
            gf = None          # compiler/run timed out on the shared machine: inconclusive, not a verdict
        if gf:
            if not gf['orig_ok']: return 'harness: original tree does not build/run: %s' % gf['orig'][:200]
            if not gf['trans_ok']: return 'transformed tree (%s) fails to build or run: %s' % (pipe, gf['trans'][:300])
            if gf['trans'] != gf['orig']: return 'transformed tree (%s) prints %r, the original %r' % (pipe, gf['trans'][:120], gf['orig'][:120])
            if 'instr_ok' in gf:
                if not gf['instr_ok']: return 'instrumented transformed tree fails: %s' % gf.get('instr', '')[:200]
                m = self._check_marks(case, out, gf['marks'])
                if m: return m
        return None

    def _check_marks(self, case, out, marks):
        """the stack pointer values printed by the running transformed program stay below what the driver allocated"""
        pipe = case['pipe']
        relax = set(case.get('relax', []))
        if pipe in ('pool', 'poolrhs', 'poolnc'):
            base = size = None
            for m in marks:
                if m[0] == '@BASE': base, size = int(m[1]), int(m[2])
                elif m[0] == '@HW' and base is not None:
                    lim = base + (size * 8 if pipe != 'poolrhs' else size)
                    if int(m[1]) > lim: return 'running program: stack pointer %s beyond base+size %d (ISTSZ=%d)' % (m[1], lim, size)
        elif pipe in ('ftr', 'idx'):
            size = {}
            for m in marks:
                if m[0].startswith('@SIZE'): size[m[0][5:]] = int(m[1])
                elif m[0].startswith('@HW'):
                    c = m[0][3:]
                    if c in size and int(m[1]) - 1 > size[c] and 'bound' not in relax:
                        return 'running program: stack-used %s beyond the size %d of stack %s' % (m[1], size[c], c)
        elif pipe == 'raw':
            for m in marks:
                if m[0].startswith('@REM') and int(m[1]) < 0:
                    return 'running program: kernel uses %d columns more than it was given (%s)' % (-int(m[1]), m)
        return None

    def nontrivial_key(self, case, out):
        tree = case['tree']
        if isinstance(out, dict) and 'error' in out: return None
        if any(K['calls'] and K['temps'] for K in tree['kernels']):
            return json.dumps([case['pipe'], tree], sort_keys=True)
        return None

    def search(self, rng, bad_cases):
        for c in bad_cases[:6]:
            for _ in range(6):
                d = dict(c); d['vals'] = gen_vals(rng, 4); d.pop('_origin', None); d['gf'] = True
                yield d

    def show_model(self, case, out):
        tree, pipe = case['tree'], case['pipe']
        if pipe in ('hoist', 'hoistalloc'):
            return ['(%s (hoist_driver root))' % tree_lets(tree)]
        mode = MODE[pipe]
        return ['(%s (map (fun c => stack_size %s c root) [0;1;2]))' % (tree_lets(tree), mode)]

PROP = C38
