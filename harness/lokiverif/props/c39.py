"""C39 — ParametriseTransformation preserves behaviour for matching inputs; the entry guard fires otherwise.

Cases are call trees (driver -> kernels -> nested kernels) written as Fortran files into a scratch directory and
processed by the REAL Scheduler + ParametriseTransformation.  Tie: the Gallina model (M_C39: dictionary flow through
trafo_data + per-routine rewrite) must reproduce every transformed routine (signature, constants, guards, body, call
argument lists) and the dictionary each routine was processed with; the model's output executed by the Coq MiniF
interpreter must give the observation the reference interpreter gives.  Oracle: reference interpreter (and gfortran)
on the original vs the transformed tree for matching inputs, the guard for non-matching inputs, arity of every call."""
import os, shutil, tempfile, itertools
from ..framework import Property
from ..coqlit import coq, C, Nat, Some, Raw
from .. import minif as MF
from .. import bridge_expr as B

BOUND = 4
SIZE_NAMES = ['n', 'm', 'nl', 'ks']
FLAG_NAMES = ['f', 'g', 'sw']
ARR_NAMES = ['a', 'b', 'c']
IO_NAMES = ['r', 't']

# ------------------------------------------------------------------------------------------ Fortran text
def unit_src(u):
    lines = ['subroutine %s(%s)' % (u['name'], ', '.join(u['args'])), '  implicit none']
    for grp in u['decls']:
        x = grp[0]
        if x in u['arrays']:
            lo, hi = u['arrays'][x][0]
            it = ', intent(%s)' % u['intents'][x] if x in u['intents'] else ''
            lines.append('  integer%s :: %s(%d:%d)' % (it, x, lo, hi))
        else:
            it = ', intent(%s)' % u['intents'][x] if x in u['intents'] else ''
            lines.append('  integer%s :: %s' % (it, ', '.join(grp)))
    lines += MF.fstmts(u['body'])
    lines.append('end subroutine %s' % u['name'])
    return '\n'.join(lines) + '\n'

def main_src(drv, stores, observed):
    """main program: for each store initialise the driver's arguments, call it, print a marker and the observed values"""
    lines = ['program lv_main', '  implicit none']
    for x in drv['args']:
        if x in drv['arrays']:
            lo, hi = drv['arrays'][x][0]
            lines.append('  integer :: %s(%d:%d)' % (x, lo, hi))
        else:
            lines.append('  integer :: %s' % x)
    for store in stores:
        for x in drv['args']:
            v = store[x]
            if isinstance(v, dict):
                for idx, val in sorted(v.items()):
                    lines.append('  %s(%s) = %d' % (x, ', '.join(str(i) for i in idx), val))
            else:
                lines.append('  %s = %d' % (x, v))
        lines.append('  call %s(%s)' % (drv['name'], ', '.join(drv['args'])))
        lines.append("  print '(A)', 'LVRUN'")
        for x in observed:
            if x in drv['arrays']:
                lo, hi = drv['arrays'][x][0]
                for i in range(lo, hi + 1):
                    lines.append("  print '(I0)', %s(%d)" % (x, i))
            else:
                lines.append("  print '(I0)', %s" % x)
    lines.append('end program lv_main')
    return '\n'.join(lines) + '\n'

# ------------------------------------------------------------------------------------------ stores
def store_in(js):
    return {k: ({tuple(i): v for i, v in val} if isinstance(val, list) else val) for k, val in js.items()}

def store_out(st):
    return {k: ([[list(i), v] for i, v in sorted(val.items())] if isinstance(val, dict) else val) for k, val in st.items()}

# ------------------------------------------------------------------------------------------ Loki IR -> JSON
def conv(nodes):
    """like minif.from_loki, plus the statements an abort callback produces (canonical marker skips)"""
    from loki import ir
    out = []
    for n in nodes:
        if isinstance(n, ir.GenericStmt):
            t = ' '.join(n.text.lower().split())
            if t.startswith('print'): out.append(['skip', 'print'])
            elif t.startswith('error stop'): out.append(['skip', 'error stop'])
            elif t.startswith('stop'): out.append(['skip', 'stop'])
            else: raise MF.Unsupported('generic: ' + t[:30])
        elif isinstance(n, ir.Conditional):
            out.append(['if', B.structure(n.condition), conv(n.body), conv(n.else_body or ())])
        elif isinstance(n, ir.Loop):
            b = n.bounds
            out.append(['do', n.variable.name.lower(), B.structure(b.start), B.structure(b.stop),
                        None if b.step is None else B.structure(b.step), conv(n.body)])
        elif isinstance(n, ir.WhileLoop):
            out.append(['while', B.structure(n.condition), conv(n.body)])
        elif isinstance(n, ir.Section):
            out += conv(n.body)
        else:
            out += MF.from_loki((n,))
    return out

def conv_routine(r, expr_consts=False):
    from loki import ir
    from loki.ir import FindNodes
    from loki.expression import symbols as sym
    params = [[a.name.lower(), bool(isinstance(a, sym.Array))] for a in r.arguments]
    decls, consts = [], []
    for d in FindNodes(ir.VariableDeclaration).visit(r.spec):
        for s in d.symbols:
            if isinstance(s, sym.Array):
                continue
            if s.type.parameter:
                ini = s.type.initial
                if expr_consts:
                    consts.append([s.name.lower(), B.structure(ini)])
                    continue
                if not isinstance(ini, sym.IntLiteral): raise MF.Unsupported('constant initialiser %r' % (ini,))
                consts.append([s.name.lower(), int(ini.value)])
            else:
                decls.append(s.name.lower())
    return {'name': r.name.lower(), 'params': params, 'decls': decls, 'consts': consts, 'body': conv(r.body.body)}

def calls_in(ss):
    for s in ss:
        if s[0] == 'call': yield s
        elif s[0] == 'do': yield from calls_in(s[5])
        elif s[0] == 'while': yield from calls_in(s[2])
        elif s[0] == 'if':
            yield from calls_in(s[2]); yield from calls_in(s[3])

def assigned_in(ss):
    for s in ss:
        if s[0] == 'assign': yield s[1]
        elif s[0] == 'do':
            yield s[1]; yield from assigned_in(s[5])
        elif s[0] == 'while': yield from assigned_in(s[2])
        elif s[0] == 'if':
            yield from assigned_in(s[2]); yield from assigned_in(s[3])

# ------------------------------------------------------------------------------------------ abort callbacks
def _cb_error_stop(**kw):
    from loki import ir
    return (ir.GenericStmt(text='error stop "%s"' % kw.get('msg')),)

def _cb_warn(**kw):
    from loki import ir
    return (ir.GenericStmt(text='print *, "This is just a warning: %s"' % kw.get('msg')),)

ABORTS = {'default': [['skip', 'print'], ['skip', 'stop']], 'error_stop': [['skip', 'error stop']], 'warn': [['skip', 'print']]}
STOPS = {'default': True, 'error_stop': True, 'warn': False}

# ------------------------------------------------------------------------------------------ python mirror of the class
def py_lookup(D, x):
    for k, v in D:
        if k == x: return v
    return None

def py_induced(D, params, args):
    out = []
    for k, v in D:
        d = None
        for p, a in zip(params, args):
            if a == ['var', k]: d = p
        if d is not None:
            for e in out:
                if e[0] == d:
                    e[1] = v; break
            else:
                out.append([d, v])
    return out

def py_assign(units, entries, D0):
    """mirror of M_C39.assign_dicts on the parsed original units (processing order)"""
    byname = {}
    for u in units: byname.setdefault(u['name'], u)
    st, res = {}, []
    for u in units:
        e = u['name'] in entries
        D = [list(kv) for kv in D0] if e else [list(kv) for kv in st.get(u['name'], [])]
        res.append((u, e, D))
        if D:
            for c in calls_in(u['body']):
                g = byname.get(c[1])
                if g is not None:
                    st[c[1]] = py_induced(D, [p[0] for p in g['params']], c[2])
    return res

def py_uniform(units, entries, D0):
    A = py_assign(units, entries, D0)
    first = {}
    for u, e, D in A: first.setdefault(u['name'], (u, e, D))
    def call_ok(Dc, Dg, params, args):
        if len(params) != len(args): return False
        for (d, isarr), a in zip(params, args):
            if a[0] == 'var' and py_lookup(Dc, a[1]) is not None:
                if isarr or py_lookup(Dg, d) != py_lookup(Dc, a[1]): return False
            elif py_lookup(Dg, d) is not None:
                return False
        return True
    for u, e, D in A:
        scal = [p[0] for p in u['params'] if not p[1]]
        for k, _ in D:
            if k not in scal or k not in u['decls']: return False
        if any(py_lookup(D, x) is not None for x in assigned_in(u['body'])): return False
        for c in calls_in(u['body']):
            if c[1] not in first: return False
            ug, eg, Dg = first[c[1]]
            if eg or not call_ok(D, Dg, ug['params'], c[2]): return False
    return True

# ------------------------------------------------------------------------------------------ generator
class Gen:
    def __init__(self, rng):
        self.rng = rng

    def expr(self, d, env, sizes_ok=True):
        """integer expression over the readable scalars / arrays of env"""
        rng = self.rng
        r = rng.random()
        if d <= 0 or r < 0.3:
            c = rng.random()
            if c < 0.25: return ['int', rng.randint(0, 5)]
            if (c < 0.8 or not env['arrays']) and (env['read'] + env['free']): return ['var', rng.choice(env['read'] + env['free'])]
            if not env['arrays']: return ['int', rng.randint(0, 5)]
            return ['call', rng.choice(env['arrays']), self.index(env)]
        if r < 0.55: return ['sum', False, self.expr(d - 1, env), self.expr(d - 1, env)]
        if r < 0.68: return ['sum', False, self.expr(d - 1, env), ['prod', False, ['py', -1], self.expr(d - 1, env)]]
        if r < 0.82: return ['prod', False, self.expr(d - 1, env), self.expr(d - 1, env)]
        if r < 0.9:
            f = rng.choice(['mod', 'min', 'max', 'abs'])
            if f == 'abs': return ['call', 'abs', self.expr(d - 1, env)]
            if f == 'mod': return ['call', 'mod', self.expr(d - 1, env), ['int', rng.randint(2, 4)]]
            return ['call', f, self.expr(d - 1, env), self.expr(d - 1, env)]
        den = self.expr(d - 1, env)
        return ['quot', False, self.expr(d - 1, env), ['sum', True, ['prod', False, den, den], ['int', 1]]]

    def index(self, env):
        """an index guaranteed within 1..BOUND"""
        rng = self.rng
        c = rng.random()
        if env['free'] and c < 0.45: return ['var', rng.choice(env['free'])]
        if env['sizes'] and c < 0.7: return ['var', rng.choice(env['sizes'])]
        if c < 0.85 or not env['read']: return ['int', rng.randint(1, BOUND)]
        return ['sum', False, ['call', 'mod', ['call', 'abs', ['var', rng.choice(env['read'])]], ['int', BOUND]], ['int', 1]]

    def cond(self, env):
        rng = self.rng
        if env['flags'] and rng.random() < 0.6:
            c = ['cmp', rng.choice(['>', '==', '/=', '<', '>=', '<=']).replace('/=', '!='), ['var', rng.choice(env['flags'])], ['int', rng.randint(-1, 1)]]
            if rng.random() < 0.3 and env['sizes']:
                c = [rng.choice(['and', 'or']), c, ['cmp', rng.choice(['>', '<', '==']), ['var', rng.choice(env['sizes'])], ['int', rng.randint(1, 3)]]]
            elif rng.random() < 0.15:
                c = ['not', c]
            return c
        return ['cmp', rng.choice(['<', '<=', '>', '>=', '==', '!=']), self.expr(1, env), self.expr(1, env)]

    def stmts(self, d, n, env, calls):
        """n plain statements, with the pending call statements of `calls` sprinkled in (possibly nested)"""
        rng = self.rng
        out = []
        for _ in range(n):
            r = rng.random()
            if d > 0 and r < 0.28 and len(env['free']) < 2:
                v = env['loopvars'][len(env['free'])]
                sub = dict(env, free=env['free'] + [v])
                c = rng.random()
                if env['sizes'] and c < 0.55:
                    hi = ['var', rng.choice(env['sizes'])]
                    if rng.random() < 0.2: hi = ['call', 'min', hi, ['int', rng.randint(2, 3)]]
                    lo, st = ['int', 1], (None if rng.random() < 0.8 else ['int', 2])
                    if rng.random() < 0.2: lo, hi, st = hi, ['int', 1], ['int', -1]
                else:
                    lo, hi, st = ['int', 1], ['int', rng.randint(1, BOUND)], None
                body = self.stmts(d - 1, rng.randint(1, 2), sub, [calls.pop()] if calls and rng.random() < 0.35 else [])
                out.append(['do', v, lo, hi, st, body])
            elif d > 0 and r < 0.5:
                tb = self.stmts(d - 1, rng.randint(1, 2), env, [calls.pop()] if calls and rng.random() < 0.35 else [])
                eb = self.stmts(d - 1, rng.randint(0, 1), env, [calls.pop()] if calls and rng.random() < 0.15 else [])
                out.append(['if', self.cond(env), tb, eb])
            elif env['arrays'] and r < 0.75:
                out.append(['store', rng.choice(env['arrays']), [self.index(env)], self.expr(2, env)])
            elif env['write']:
                out.append(['assign', rng.choice(env['write']), self.expr(2, env)])
            if calls and rng.random() < 0.5:
                out.append(calls.pop())
        return out

    def signature(self, name, nsz, nfl, narr, nio, shuffle=True):
        rng = self.rng
        sizes = rng.sample(SIZE_NAMES, nsz); flags = rng.sample(FLAG_NAMES, nfl)
        arrs = ARR_NAMES[:narr] if rng.random() < 0.6 else rng.sample(ARR_NAMES, narr)
        ios = rng.sample(IO_NAMES, nio)
        args = sizes + flags + arrs + ios
        if shuffle: rng.shuffle(args)
        return {'name': name, 'args': args, 'sizes': sizes, 'flags': flags, 'arrs': arrs, 'ios': ios}

    def unit(self, sig, callees, uniform=True, ncalls=None):
        """callees: list of signatures this unit calls"""
        rng = self.rng
        need = max([len(cs['ios']) for cs in callees] + [0])
        locs = ['i', 'j'] + (['u'] if (rng.random() < 0.6 or len(sig['ios']) < need) else [])
        env = {'read': sig['sizes'] + sig['flags'] + sig['ios'] + (['u'] if 'u' in locs else []),
               'write': sig['ios'] + (['u'] if 'u' in locs else []),
               'sizes': sig['sizes'], 'flags': sig['flags'], 'arrays': sig['arrs'], 'free': [], 'loopvars': ['i', 'j']}
        calls = []
        for cs in callees:
            fixed = None
            for _ in range(ncalls if ncalls is not None else rng.choice([1, 1, 2])):
                if fixed is None or not uniform:
                    fixed = {}
                    pool_s, pool_f = list(sig['sizes']), list(sig['flags'])
                    rng.shuffle(pool_s); rng.shuffle(pool_f)
                    for d in cs['sizes']:
                        c = rng.random()
                        if pool_s and c < 0.8: fixed[d] = ['var', pool_s.pop()]
                        elif sig['sizes'] and c < 0.9: fixed[d] = ['call', 'min', ['var', rng.choice(sig['sizes'])], ['int', rng.randint(2, 3)]]
                        else: fixed[d] = ['int', rng.randint(1, BOUND)]
                    for d in cs['flags']:
                        c = rng.random()
                        if pool_f and c < 0.75: fixed[d] = ['var', pool_f.pop()]
                        elif sig['flags'] and c < 0.87: fixed[d] = ['sum', False, ['var', rng.choice(sig['flags'])], ['int', 1]]
                        else: fixed[d] = ['int', rng.randint(-1, 2)]
                arrs = rng.sample(sig['arrs'], len(cs['arrs']))
                ios = rng.sample(env['write'], len(cs['ios']))
                act = dict(fixed)
                act.update(zip(cs['arrs'], [['var', a] for a in arrs]))
                act.update(zip(cs['ios'], [['var', x] for x in ios]))
                calls.append(['call', cs['name'], [act[d] for d in cs['args']]])
        rng.shuffle(calls)
        if 'u' in locs:
            others = [x for x in env['read'] if x != 'u']
            pre = [['assign', 'u', self.expr(1, {**env, 'read': others})]] if others else [['assign', 'u', ['int', 1]]]
        else:
            pre = []
        body = pre + self.stmts(2, rng.randint(2, 4), env, calls)
        body += calls          # whatever was not placed yet
        ins = sig['sizes'] + sig['flags']
        decls = []
        if len(ins) >= 2 and rng.random() < 0.4:
            decls.append(list(ins))
        else:
            decls += [[x] for x in ins]
        decls += [[a] for a in sig['arrs']] + [[x] for x in sig['ios']]
        if rng.random() < 0.5: rng.shuffle(decls)
        decls += [[x] for x in locs]
        intents = {x: 'in' for x in ins}
        intents.update({x: 'inout' for x in sig['arrs'] + sig['ios']})
        return {'name': sig['name'], 'args': sig['args'], 'decls': decls, 'intents': intents,
                'arrays': {a: [[1, BOUND]] for a in sig['arrs']}, 'body': body,
                'sizes': sig['sizes'], 'flags': sig['flags'], 'ios': sig['ios']}

    def store(self, drv, fixed=None, mismatch=()):
        rng = self.rng
        st = {}
        for x in drv['args']:
            if x in drv['arrays']:
                st[x] = {(i,): rng.randint(-3, 5) for i in range(1, BOUND + 1)}
            elif x in drv['sizes']: st[x] = rng.randint(1, BOUND)
            elif x in drv['flags']: st[x] = rng.randint(-1, 2)
            else: st[x] = rng.randint(-3, 5)
        for k, v in (fixed or []):
            if k in st: st[k] = v
        for k in mismatch:
            if k in st:
                cur = st[k]
                st[k] = rng.choice([v for v in (range(1, BOUND + 1) if k in drv['sizes'] else range(-1, 3)) if v != cur])
        return st

    def tree(self, shape, uniform=True):
        """shape: 'flat' (driver -> 1..3 kernels), 'deep' (some kernels call a nested kernel), 'shared' (a nested kernel with two callers)"""
        rng = self.rng
        nk = rng.randint(1, 3)
        dsig = self.signature('drv', rng.randint(1, 2), rng.randint(0, 2), rng.randint(1, 2), rng.randint(1, 2))
        ksigs = []
        for i in range(nk):
            ksigs.append(self.signature('k%d' % (i + 1), rng.randint(0, min(2, len(dsig['sizes']))), rng.randint(0, 2),
                                        rng.randint(1, len(dsig['arrs'])), rng.randint(0, 1)))
        nested = []
        calls_of = {s['name']: [] for s in ksigs}
        dcalls = list(ksigs)
        if shape in ('deep', 'shared'):
            for j in range(rng.randint(1, 2)):
                parent = rng.choice(ksigs)
                ns = self.signature('q%d' % (j + 1), rng.randint(0, len(parent['sizes'])), rng.randint(0, len(parent['flags'])),
                                    rng.randint(1, len(parent['arrs'])), rng.randint(0, len(parent['ios'])))
                nested.append(ns); calls_of[parent['name']].append(ns)
                if shape == 'shared':
                    cands = [s for s in ksigs if s is not parent and len(s['arrs']) >= len(ns['arrs']) and len(s['ios']) + 1 >= len(ns['ios'])]
                    if cands and rng.random() < 0.6:
                        calls_of[rng.choice(cands)['name']].append(ns)
                    elif len(dsig['arrs']) >= len(ns['arrs']):
                        dcalls.append(ns)
        units = [self.unit(dsig, dcalls, uniform)]
        for s in ksigs: units.append(self.unit(s, calls_of[s['name']], uniform))
        for s in nested: units.append(self.unit(s, [], uniform))
        return units

def pick_dic2p(rng, drv, nkeys=None):
    cands = drv['sizes'] + drv['flags']
    rng.shuffle(cands)
    n = nkeys or rng.choice([1, 1, 2])
    keys = cands[:n]
    out = []
    for k in keys:
        if k in drv['sizes']: out.append([k, rng.randint(1, BOUND)])
        else: out.append([k, rng.randint(-1, 2)])
    return out

# ------------------------------------------------------------------------------------------ fixed witnesses
def _u(name, args, decls, arrays, body, sizes=(), flags=(), ios=()):
    intents = {x: 'in' for x in list(sizes) + list(flags)}
    intents.update({x: 'inout' for x in list(arrays) + list(ios)})
    return {'name': name, 'args': list(args), 'decls': [list(d) for d in decls], 'intents': intents,
            'arrays': {a: [[1, BOUND]] for a in arrays}, 'body': body, 'sizes': list(sizes), 'flags': list(flags), 'ios': list(ios)}

def V(x): return ['var', x]
def I(v): return ['int', v]
A_ALL = [[[1], 1], [[2], 2], [[3], 3], [[4], 4]]

W_SWAPPED = {   # F1: same kernel called with the parametrised variables at swapped positions: silently wrong values
    'kind': 'finding', 'driver': 'drv', 'dic2p': [['n', 3], ['f', 1]], 'replace': False, 'abort': 'default', 'entry_points': False,
    'units': [_u('drv', ['n', 'f', 'a'], [['n', 'f'], ['a']], ['a'],
                 [['call', 'k', [V('n'), V('f'), V('a')]], ['call', 'k', [V('f'), V('n'), V('a')]]], sizes=['n'], flags=['f']),
              _u('k', ['x', 'y', 'a'], [['x', 'y'], ['a']], ['a'],
                 [['store', 'a', [V('x')], ['sum', False, ['call', 'a', V('x')], ['prod', False, I(10), V('y')]]]], sizes=['x', 'y'])],
    'stores': [{'n': 3, 'f': 1, 'a': A_ALL}], 'gf': True}
W_NONUNIFORM = {  # F2: kernel called once with the parametrised variable and once with another variable: wrong arity
    'kind': 'finding', 'driver': 'drv', 'dic2p': [['n', 3]], 'replace': False, 'abort': 'default', 'entry_points': False,
    'units': [_u('drv', ['n', 'm', 'a'], [['n', 'm'], ['a']], ['a'],
                 [['call', 'k', [V('n'), V('a')]], ['call', 'k', [V('m'), V('a')]]], sizes=['n', 'm']),
              _u('k', ['x', 'a'], [['x'], ['a']], ['a'],
                 [['store', 'a', [V('x')], ['sum', False, ['call', 'a', V('x')], V('x')]]], sizes=['x'])],
    'stores': [{'n': 3, 'm': 2, 'a': A_ALL}], 'gf': False}
W_REPEATED = {    # F3: the parametrised variable passed twice in one call: both actuals removed, one dummy kept
    'kind': 'finding', 'driver': 'drv', 'dic2p': [['n', 3]], 'replace': False, 'abort': 'default', 'entry_points': False,
    'units': [_u('drv', ['n', 'a'], [['n'], ['a']], ['a'], [['call', 'k2', [V('n'), V('n'), V('a')]]], sizes=['n']),
              _u('k2', ['x', 'y', 'a'], [['x', 'y'], ['a']], ['a'],
                 [['store', 'a', [V('x')], ['sum', False, ['call', 'a', V('y')], V('x')]]], sizes=['x', 'y'])],
    'stores': [{'n': 3, 'a': A_ALL}], 'gf': False}
W_TWO_PARENTS = {  # F4: nested kernel reached from the driver with an ordinary variable and from a kernel with the parametrised one
    'kind': 'finding', 'driver': 'drv', 'dic2p': [['n', 3]], 'replace': True, 'abort': 'default', 'entry_points': False,
    'units': [_u('drv', ['n', 'a', 'r'], [['n'], ['a'], ['r']], ['a'],
                 [['call', 'k1', [V('n'), V('a'), V('r')]], ['call', 'k3', [V('a'), V('r')]]], sizes=['n'], ios=['r']),
              _u('k1', ['m', 'a', 'r'], [['m'], ['a'], ['r']], ['a'], [['call', 'k3', [V('a'), V('m')]]], sizes=['m'], ios=['r']),
              _u('k3', ['a', 'q'], [['a'], ['q']], ['a'], [['store', 'a', [I(1)], V('q')]], sizes=['q'])],
    'stores': [{'n': 3, 'r': 2, 'a': A_ALL}], 'gf': False}
WITNESSES = [W_SWAPPED, W_NONUNIFORM, W_REPEATED, W_TWO_PARENTS]

# ------------------------------------------------------------------------------------------ declare_fixed_value_scalars_as_constants
EXT_UNIT = {'name': 'ext', 'params': [['q', False], ['a', True]], 'decls': ['q'], 'consts': [],
            'body': [['store', 'a', [['int', 1]], ['sum', False, ['call', 'a', ['int', 1]], ['var', 'q']]]]}
EXT_SRC = """subroutine ext(q, a)
  implicit none
  integer, intent(in) :: q
  integer, intent(inout) :: a(1:4)
  a(1) = a(1) + q
end subroutine ext
"""

def written_in(ss):
    for s in ss:
        if s[0] == 'assign': yield s[1]
        elif s[0] == 'do':
            yield s[1]; yield from written_in(s[5])
        elif s[0] == 'while': yield from written_in(s[2])
        elif s[0] == 'if':
            yield from written_in(s[2]); yield from written_in(s[3])

def gen_dfv(rng):
    """one routine whose locals are initialised by literals / literal sums and products, in the ways the function
    distinguishes (single vs repeated assignment, argument of a call or of an intrinsic, nested constant expression)"""
    g = Gen(rng)
    sig = {'name': 's', 'args': ['n', 'f', 'a', 'r'], 'sizes': ['n'], 'flags': ['f'], 'arrs': ['a'], 'ios': ['r']}
    locs = ['u', 'w', 'x', 'y', 'z', 'p', 'q']
    k = rng.randint(3, 6)
    used = rng.sample(locs, k)
    inits, extra, post = [], [], []
    use_ext = False
    roles = {}
    for v in used:
        role = rng.choice(['lit', 'lit', 'prod', 'psum', 'nested', 'twice', 'icall', 'callarg', 'index', 'nonconst'])
        roles[v] = role
        if role in ('lit', 'twice', 'icall', 'callarg'): rhs = ['int', rng.randint(0, 5)]
        elif role == 'index': rhs = ['int', rng.randint(1, BOUND)]
        elif role == 'nonconst': rhs = ['sum', False, ['var', rng.choice(['n', 'f'])], ['int', rng.randint(0, 3)]]
        elif role == 'prod': rhs = ['prod', False, ['int', rng.randint(1, 3)], ['int', rng.randint(1, 3)]]
        elif role == 'psum': rhs = ['sum', True, ['int', rng.randint(0, 3)], ['int', rng.randint(0, 3)]]
        else: rhs = ['sum', False, ['sum', True, ['int', rng.randint(0, 3)], ['int', 1]], ['int', rng.randint(0, 3)]]
        inits.append(['assign', v, rhs])
        if role == 'twice': post.append(['assign', v, ['sum', False, ['var', v], ['int', 1]]])
        if role == 'icall': post.append(['assign', 'r', ['sum', False, ['var', 'r'], ['call', 'min', ['var', v], ['int', 3]]]])
        if role == 'callarg':
            post.append(['call', 'ext', [['var', v], ['var', 'a']]]); use_ext = True
        if role == 'index': post.append(['store', 'a', [['var', v]], ['sum', False, ['call', 'a', ['var', v]], ['int', 1]]])
    rng.shuffle(inits)
    # one initialisation may sit inside a loop body, before its use in the same iteration (and is not read before the loop)
    v0 = inits.pop() if inits and rng.random() < 0.3 else None
    readable = [v for v in used if v0 is None or v != v0[1]]
    env = {'read': ['n', 'f', 'r'] + readable, 'write': ['r'], 'sizes': ['n'], 'flags': ['f'], 'arrays': ['a'], 'free': [], 'loopvars': ['i', 'j']}
    body = g.stmts(2, rng.randint(2, 4), env, [])
    rng.shuffle(post)
    if v0 is not None:
        body.append(['do', 'i', ['int', 1], ['var', 'n'], None, [v0, ['store', 'a', [['var', 'i']], ['sum', False, ['call', 'a', ['var', 'i']], ['var', v0[1]]]]]])
    body = inits + body + post
    decls = [['n'], ['f'], ['a'], ['r']]
    ls = ['i', 'j'] + used
    if rng.random() < 0.5: decls.append(ls)
    else: decls += [[x] for x in ls]
    unit = {'name': 's', 'args': sig['args'], 'decls': decls, 'intents': {'n': 'in', 'f': 'in', 'a': 'inout', 'r': 'inout'},
            'arrays': {'a': [[1, BOUND]]}, 'body': body, 'sizes': ['n'], 'flags': ['f'], 'ios': ['r']}
    stores = [store_out(g.store(unit)) for _ in range(2)]
    return {'kind': 'dfv', 'unit': unit, 'ext': use_ext, 'stores': stores, 'gf': False}

W_DFV_DOVAR = {   # F22: a loop variable initialised once by a literal becomes a PARAMETER that the DO statement writes
    'kind': 'finding-dfv', 'ext': False, 'gf': False,
    'unit': {'name': 's', 'args': ['n', 'a'], 'decls': [['n'], ['a'], ['i']], 'intents': {'n': 'in', 'a': 'inout'},
             'arrays': {'a': [[1, BOUND]]}, 'sizes': ['n'], 'flags': [], 'ios': [],
             'body': [['assign', 'i', ['int', 0]],
                      ['do', 'i', ['int', 1], ['var', 'n'], None, [['store', 'a', [['var', 'i']], ['sum', False, ['call', 'a', ['var', 'i']], ['int', 1]]]]]]},
    'stores': [{'n': 3, 'a': A_ALL}]}

# ------------------------------------------------------------------------------------------ the property
class C39(Property):
    id = 'C39'
    imports = ['Base.Expr', 'Base.MiniF', 'models.M_C39']
    theorem_file = 'theories/props/T_C39.v'
    parallel = True
    shard = 24
    rule = ('generated call trees: driver with 1-2 integer size and 0-2 flag dummies (intent(in)), 1-2 arrays (1:4), 1-2 inout scalars, '
            '1-3 kernels each called once or twice (inside loops/conditionals too), optional nested kernels (also shared between two callers); '
            'bodies use the size/flag dummies in loop bounds, conditions, indices and arithmetic; actuals are plain variables, literals or '
            'expressions; dic2p of 1-2 driver dummies, with/without replace_by_value, default abort / error stop / warn-only callback, '
            'role-driver or entry_points; written as files, processed by the real Scheduler + ParametriseTransformation; several stores per '
            'tree (matching and non-matching); a case is non-trivial when at least one kernel loses a dummy; distinct = distinct '
            '(tree, dic2p, options); plus a small tie-only stream of non-uniform trees and edge configurations (absent key, all keys); '
            'second stream (kind dfv): one routine whose locals are initialised by literals, literal products / parenthesised sums, nested '
            'constant expressions, assigned twice, passed to a CALL or an intrinsic, used as index, initialised inside a loop body; '
            'declare_fixed_value_scalars_as_constants applied to the parsed routine; non-trivial when at least one constant is declared')
    modelled_not_verified = [
        'Fortran PARAMETER declarations are modelled as initial assignments of the procedure body (MiniF has no declarations)',
        'STOP / ERROR STOP / PRINT of the abort branch are marker statements; the theorems state which guard branch executes',
        'CALL is copy-in/copy-out (equal to by-reference for the generated non-aliased calls; gfortran confirms on the sampled cases)',
        'the order in which the Scheduler processes routines is taken from the run (callers before callees)',
        'the original routines are taken as parsed by the Loki frontend (bridge Loki IR -> MiniF JSON is shared harness code)',
        'declare_fixed_value_scalars_as_constants: the theorem covers bodies without CALL; bodies with CALL only by the differential runs',
    ]

    # ---------------------------------------------------------------- generation
    def generate(self, rng, tier):
        g = Gen(rng)
        n = 70 if tier == 'quick' else 700
        gf_every = 18 if tier == 'quick' else 3
        yield dict(W_SWAPPED, kind='witness-tie', tie_only=True)
        yield dict(W_NONUNIFORM, kind='witness-tie', tie_only=True)
        yield dict(W_REPEATED, kind='witness-tie', tie_only=True)
        yield dict(W_TWO_PARENTS, kind='witness-tie', tie_only=True)
        yield dict(W_DFV_DOVAR, kind='dfv-witness-tie', tie_only=True)
        nd = 30 if tier == 'quick' else 400
        for i in range(nd):
            c = gen_dfv(rng)
            c['gf'] = (i % (15 if tier == 'quick' else 4) == 0)
            yield c
        cnt = 0
        tries = 0
        while cnt < n and tries < 20 * n:
            tries += 1
            r = rng.random()
            shape = 'flat' if r < 0.4 else ('deep' if r < 0.75 else 'shared')
            nonuni = rng.random() < 0.12
            units = g.tree(shape, uniform=not nonuni)
            drv = units[0]
            e = rng.random()
            if e < 0.06:
                dic = pick_dic2p(rng, drv) + [['zz', 7]]; kind = 'edge-absent-key'
            elif e < 0.12:
                dic = pick_dic2p(rng, drv, nkeys=len(drv['sizes'] + drv['flags'])); kind = 'edge-all-keys'
            else:
                dic = pick_dic2p(rng, drv); kind = shape
            case = {'kind': kind, 'units': units, 'driver': 'drv', 'dic2p': dic, 'replace': rng.random() < 0.5,
                    'abort': rng.choice(['default', 'default', 'error_stop', 'warn']), 'entry_points': rng.random() < 0.2}
            stores = [g.store(drv, fixed=dic), g.store(drv, fixed=dic)]
            keys = [k for k, _ in dic if k in drv['args']]
            if keys:
                stores.append(g.store(drv, fixed=dic, mismatch=[rng.choice(keys)]))
                if len(keys) > 1 and rng.random() < 0.5:
                    stores.append(g.store(drv, fixed=dic, mismatch=[keys[-1]]))
            case['stores'] = [store_out(s) for s in stores]
            case['gf'] = (cnt % gf_every == 0)
            # class membership is decided from the input alone (python mirror of the model's propagation, cross-checked in Coq)
            try:
                pu = [self._unit_as_parsed(u) for u in units]
                inclass = py_uniform(pu, ['drv'], [kv for kv in dic])
            except Exception:
                inclass = False
            if kind == 'edge-absent-key':
                case['tie_only'] = not py_uniform(pu, ['drv'], [kv for kv in dic if kv[0] != 'zz'])
            else:
                case['tie_only'] = not inclass
            if case['tie_only']:
                if not nonuni and rng.random() < 0.7: continue      # keep the out-of-class stream small
                case['kind'] = 'nonuniform-tie-only'
                case['gf'] = False
            cnt += 1
            yield case

    @staticmethod
    def _unit_as_parsed(u):
        decls = [x for grp in u['decls'] for x in grp if x not in u['arrays']]
        return {'name': u['name'], 'params': [[x, x in u['arrays']] for x in u['args']], 'decls': decls, 'body': u['body']}

    # ---------------------------------------------------------------- implementation
    def run_impl(self, case):
        if 'unit' in case:
            return self._run_dfv(case)
        from pathlib import Path
        from loki import Scheduler, fgen, config as loki_config
        from loki.transformations.parametrise import ParametriseTransformation
        loki_config['regex-frontend-timeout'] = 900      # a loaded machine must not turn into a spurious failure
        log = []
        class Rec(ParametriseTransformation):
            def transform_subroutine(self, routine, **kw):
                item = kw.get('item')
                td = item.trafo_data.get(self._key, {}) if item is not None else {}
                ent = (kw.get('role') == 'driver') if self.entry_points is None else (routine.name.upper() in self.entry_points)
                log.append([routine.name.lower(), [[str(k).lower(), int(v)] for k, v in (self.dic2p if ent else td).items()]])
                return super().transform_subroutine(routine, **kw)
        d = tempfile.mkdtemp(prefix='lv_c39_')
        try:
            srcs = {}
            for u in case['units']:
                srcs[u['name']] = unit_src(u)
                Path(d, u['name'] + '.f90').write_text(srcs[u['name']])
            config = {'default': {'mode': 'idem', 'role': 'kernel', 'expand': True, 'strict': True},
                      'routines': {case['driver']: {'role': 'driver', 'expand': True}}}
            sch = Scheduler(paths=[d], config=config, seed_routines=[case['driver']], xmods=[d])
            orig = {it.local_name.lower(): conv_routine(it.ir) for it in sch.items}
            kw = {'replace_by_value': bool(case['replace'])}
            if case['abort'] == 'error_stop': kw['abort_callback'] = _cb_error_stop
            if case['abort'] == 'warn': kw['abort_callback'] = _cb_warn
            if case['entry_points']: kw['entry_points'] = (case['driver'],)
            try:
                sch.process(transformation=Rec(dic2p=dict((k, v) for k, v in case['dic2p']), **kw))
            except Exception as e:
                return {'error': type(e).__name__, 'msg': str(e)[:200]}
            order = [n for n, _ in log]
            try:
                trans = {it.local_name.lower(): conv_routine(it.ir) for it in sch.items}
            except (MF.Unsupported, B.NotRepresentable) as e:
                return {'error': 'Unsupported', 'msg': str(e)[:200]}
            out = {'order': order, 'used': [dct for _, dct in log], 'orig': [orig[n] for n in order], 'trans': [trans[n] for n in order]}
            # guard messages (checked by the oracle): text of the generic statements inside the entry guards
            from loki import ir
            from loki.ir import FindNodes
            msgs = []
            for it in sch.items:
                for g in FindNodes(ir.GenericStmt).visit(it.ir.body): msgs.append([it.local_name.lower(), g.text])
            out['guard_texts'] = msgs
            out['runs'] = self._interp_runs(case, out)
            out['static'] = self._static(out)
            if case.get('gf'):
                tsrc = [fgen(it.ir) for it in sch.items]
                out['gf'] = self._gf_runs(case, [srcs[n] for n in srcs], tsrc, out)
            return out
        finally:
            shutil.rmtree(d, ignore_errors=True)

    @staticmethod
    def _procs(units, consts=True):
        ps = {}
        for u in units:
            body = ([['assign', k, ['int', v]] for k, v in u['consts']] if consts else []) + u['body']
            ps.setdefault(u['name'], {'params': [(p[0], p[1]) for p in u['params']], 'body': body})
        return ps

    @staticmethod
    def _is_guard(s):
        return s[0] == 'if' and s[2] and all(x[0] == 'skip' and x[1] in ('print', 'stop', 'error stop') for x in s[2]) and not s[3]

    def _observed(self, case):
        drv = case['units'][0]
        keys = [k for k, _ in case['dic2p']]
        return [x for x in drv['args'] if x not in keys and drv['intents'].get(x) != 'in']

    def _interp_runs(self, case, out):
        drvname = case['driver']
        o_units, t_units = out['orig'], out['trans']
        od = [u for u in o_units if u['name'] == drvname][0]
        td = [u for u in t_units if u['name'] == drvname][0]
        obs = self._observed(case)
        res = []
        for js in case['stores']:
            st = store_in(js)
            r = {}
            try:
                so = MF.interp(od['body'], {k: (dict(v) if isinstance(v, dict) else v) for k, v in st.items()}, self._procs(o_units))
                r['orig'] = [so.get(x, 0) if not isinstance(so.get(x), dict) else [so[x].get((i,), 0) for i in range(1, BOUND + 1)] for x in obs]
            except MF.Stuck as e:
                r['orig'] = 'stuck:' + str(e)
            # transformed: dummies keep their positions; the renamed ones receive the value of the original argument
            st2 = {}
            for (po, _), (pt, _) in zip(od['params'], td['params']):
                v = st[po]
                st2[pt] = dict(v) if isinstance(v, dict) else v
            r['init_t'] = store_out(st2)
            fired = None
            for s in td['body']:
                if not self._is_guard(s): break
                if MF._evb(s[1], st2):
                    fired = s; break
            if fired is not None:
                r['trans'] = 'aborted'
                r['abort_body'] = [x[1] for x in fired[2]]
            else:
                try:
                    body = [['assign', k, ['int', v]] for k, v in td['consts']] + td['body']
                    s2 = MF.interp(body, st2, self._procs(t_units))
                    r['trans'] = [s2.get(x, 0) if not isinstance(s2.get(x), dict) else [s2[x].get((i,), 0) for i in range(1, BOUND + 1)] for x in obs]
                except (MF.Stuck, TypeError, AttributeError, KeyError) as e:
                    r['trans'] = 'stuck:' + (str(e) if isinstance(e, MF.Stuck) else type(e).__name__)
            res.append(r)
        return res

    @staticmethod
    def _static(out):
        """arity of every call in the transformed tree against the transformed signatures"""
        sig = {}
        for u in out['trans']: sig.setdefault(u['name'], u['params'])
        bad = []
        for u in out['trans']:
            for c in calls_in(u['body']):
                if c[1] in sig and len(sig[c[1]]) != len(c[2]):
                    bad.append('%s: call %s with %d actuals, %d dummies' % (u['name'], c[1], len(c[2]), len(sig[c[1]])))
        return bad

    def _gf_runs(self, case, osrc, tsrc, out):
        """gfortran: all matching stores in one executable (original and transformed), each non-matching store in its own"""
        drv = case['units'][0]
        obs = self._observed(case)
        dic = case['dic2p']
        stores = [store_in(js) for js in case['stores']]
        def small(i):
            for r in (out['runs'][i]['orig'], out['runs'][i]['trans']):
                if isinstance(r, list):
                    for x in r:
                        for z in (x if isinstance(x, list) else [x]):
                            if abs(z) >= 2 ** 30: return False
            return isinstance(out['runs'][i]['orig'], list)
        idx_m = [i for i, st in enumerate(stores) if all(st[k] == v for k, v in dic if k in st) and small(i)]
        idx_n = [i for i, st in enumerate(stores) if not all(st[k] == v for k, v in dic if k in st) and small(i)][:1]
        res = {'match_idx': idx_m, 'non_idx': idx_n}
        if idx_m:
            main = main_src(drv, [stores[i] for i in idx_m], obs)
            res['match'] = {'orig': list(MF.gfortran_run(osrc, main, timeout=240)), 'trans': list(MF.gfortran_run(tsrc, main, timeout=240))}
        for i in idx_n:
            main = main_src(drv, [stores[i]], obs)
            res['non'] = {'trans': list(MF.gfortran_run(tsrc, main, timeout=240))}
        return res

    # ---------------------------------------------------------------- declare_fixed_value_scalars_as_constants
    def _run_dfv(self, case):
        from loki import Subroutine, fgen
        from loki.frontend import FP
        from loki.transformations.parametrise import declare_fixed_value_scalars_as_constants
        u = case['unit']
        src = unit_src(u)
        r = Subroutine.from_source(src, frontend=FP)
        orig = conv_routine(r)
        try:
            declare_fixed_value_scalars_as_constants(r)
        except Exception as e:
            return {'error': type(e).__name__, 'msg': str(e)[:200]}
        try:
            trans = conv_routine(r, expr_consts=True)
        except (MF.Unsupported, B.NotRepresentable) as e:
            return {'error': 'Unsupported', 'msg': str(e)[:200]}
        trans['consts'] = sorted(trans['consts'])
        out = {'orig': orig, 'trans': trans}
        cn = [k for k, _ in trans['consts']]
        out['written_consts'] = sorted(set(x for x in written_in(trans['body']) if x in cn))
        procs = {'ext': {'params': [('q', False), ('a', True)], 'body': EXT_UNIT['body']}}
        obs = [x for x in u['args'] if u['intents'].get(x) != 'in']
        runs = []
        for js in case['stores']:
            st = store_in(js)
            rr = {}
            for key, body in (('orig', orig['body']), ('trans', [['assign', k, e] for k, e in trans['consts']] + trans['body'])):
                try:
                    s2 = MF.interp(body, {k: (dict(v) if isinstance(v, dict) else v) for k, v in st.items()}, procs)
                    rr[key] = [s2.get(x, 0) if not isinstance(s2.get(x), dict) else [s2[x].get((i,), 0) for i in range(1, BOUND + 1)] for x in obs]
                except (MF.Stuck, TypeError, KeyError) as e:
                    rr[key] = 'stuck:' + str(e)[:60]
            runs.append(rr)
        out['runs'] = runs
        if case.get('gf'):
            stores = [store_in(js) for js in case['stores']]
            main = main_src(u, stores, obs)
            extra = [EXT_SRC] if case.get('ext') else []
            out['gf'] = {'orig': list(MF.gfortran_run([src] + extra, main, timeout=240)),
                         'trans': list(MF.gfortran_run([fgen(r)] + extra, main, timeout=240))}
        return out

    def _dfv_term(self, case, out):
        o, tr = out['orig'], out['trans']
        params = [p[0] for p in o['params']]
        consts = [(k, B.model_of_structure(e)) for k, e in tr['consts']]
        return coq(C('chk_dfv', params, list(o['decls']), MF.stmts_model(o['body']), consts, MF.stmts_model(tr['body']),
                     bool(not out['written_consts'])))

    def _dfv_oracle(self, case, out):
        if 'error' in out:
            return 'declare_fixed_value_scalars_as_constants failed: %s %s' % (out['error'], out.get('msg'))
        if out['written_consts']:
            return 'output is not valid Fortran: constant(s) %s are still written (assignment / DO variable)' % out['written_consts']
        def closed(e):
            return e[0] in ('int', 'py') or (e[0] in ('sum', 'prod') and all(closed(c) for c in e[2:]))
        for k, e in out['trans']['consts']:
            if not closed(e): return 'output is not valid Fortran: constant %s is initialised by the non-constant expression %s' % (k, e)
        for i, rr in enumerate(out['runs']):
            if isinstance(rr['orig'], str): continue
            if rr['trans'] != rr['orig']:
                return 'store %d: original computes %s, with declared constants %s' % (i, rr['orig'], rr['trans'])
        g = out.get('gf')
        if g:
            (ok_o, txt_o), (ok_t, txt_t) = g['orig'], g['trans']
            if not ok_o:
                if txt_o.startswith('compile'): return 'gfortran rejects the generated original: ' + txt_o[:300]
            elif not ok_t:
                if txt_t != 'timeout': return 'gfortran: routine with declared constants fails: %s' % txt_t[:300]
            elif txt_o.split() != txt_t.split():
                return 'gfortran: original prints %s, with declared constants %s' % (txt_o.split(), txt_t.split())
        return None

    # ---------------------------------------------------------------- model tie
    @staticmethod
    def _unit_model(u):
        return C('Build_unit', u['name'], [(p[0], bool(p[1])) for p in u['params']], list(u['decls']), MF.stmts_model(u['body']))

    def model_term(self, case, out):
        if 'error' in out or '__exception__' in out:
            return None
        if 'unit' in case:
            return self._dfv_term(case, out)
        mode = Raw('MReplace' if case['replace'] else 'MDecl')
        abort = MF.stmts_model(ABORTS[case['abort']])
        units = [self._unit_model(u) for u in out['orig']]
        D0 = [(k, int(v)) for k, v in case['dic2p']]
        used = [[(k, int(v)) for k, v in dct] for dct in out['used']]
        outs = [(u['name'], [(p[0], bool(p[1])) for p in u['params']], [(k, int(v)) for k, v in u['consts']], MF.stmts_model(u['body']))
                for u in out['trans']]
        ent = [case['driver']]
        us = Raw('lv_us')
        terms = [coq(C('chk_tree', mode, abort, us, ent, D0, used, outs))]
        expected_class = py_uniform(out['orig'], ent, [list(kv) for kv in case['dic2p']])
        terms.append('Bool.eqb (uniform_calls lv_us %s %s) %s' % (coq(ent), coq(D0), coq(bool(expected_class))))
        # execute the model's output (and the original) in Coq on the first stores and compare with the reference interpreter
        obs = self._observed(case)
        drv = case['units'][0]
        oscal = [x for x in obs if x not in drv['arrays']]
        ocells = [(x, [i]) for x in obs if x in drv['arrays'] for i in range(1, BOUND + 1)]
        for js, r in list(zip(case['stores'], out['runs']))[:2]:
            def flat(v):
                if not isinstance(v, list): return None
                sc = [x for x, name in zip(v, obs) if name not in drv['arrays']]
                ce = [y for x, name in zip(v, obs) if name in drv['arrays'] for y in x]
                return sc + ce
            if isinstance(r.get('trans'), list) and max([abs(z) for z in flat(r['trans'])] + [0]) < 2 ** 40:
                st2 = store_in(r['init_t'])
                sc, cells = MF.store_model(st2)
                terms.append(coq(C('chk_run', mode, abort, us, ent, D0, case['driver'], Nat(60), sc, cells, oscal, ocells, Some(flat(r['trans'])))))
            if isinstance(r.get('orig'), list) and max([abs(z) for z in flat(r['orig'])] + [0]) < 2 ** 40:
                sc, cells = MF.store_model(store_in(js))
                terms.append(coq(C('chk_run_orig', us, ent, D0, case['driver'], Nat(60), sc, cells, oscal, ocells, Some(flat(r['orig'])))))
        return '(let lv_us := %s in %s)' % (coq(units), ' && '.join(terms))

    def show_model(self, case, out):
        if 'error' in out: return []
        if 'unit' in case:
            o = out['orig']
            return ['dfv_transform %s %s %s' % (coq([p[0] for p in o['params']]), coq(list(o['decls'])), coq(MF.stmts_model(o['body'])))]
        mode = 'MReplace' if case['replace'] else 'MDecl'
        units = coq([self._unit_model(u) for u in out['orig']])
        D0 = coq([(k, int(v)) for k, v in case['dic2p']])
        return ['map a_dict (assign_dicts %s %s %s)' % (units, coq([case['driver']]), D0),
                'param_tree %s %s %s %s %s' % (mode, coq(MF.stmts_model(ABORTS[case['abort']])), units, coq([case['driver']]), D0)]

    # ---------------------------------------------------------------- oracle
    def oracle(self, case, out):
        if '__exception__' in out:
            return 'implementation raised %s: %s' % (out['__exception__'], out.get('msg'))
        if case.get('tie_only'):
            return None
        if 'unit' in case:
            return self._dfv_oracle(case, out)
        if 'error' in out:
            return 'transformation failed: %s %s' % (out['error'], out.get('msg'))
        if out['static']:
            return 'transformed tree is not valid Fortran: ' + '; '.join(out['static'][:3])
        dic = case['dic2p']
        drv = case['units'][0]
        for k, v in dic:
            if k in drv['args']:
                texts = [t.lower() for n, t in out['guard_texts'] if n == case['driver']]
                if not any(('variable %s parametrised to value %d,' % (k, v)) in t for t in texts):
                    return 'no guard message naming %s and %d in the entry point' % (k, v)
        for i, (js, r) in enumerate(zip(case['stores'], out['runs'])):
            st = store_in(js)
            match = all(st[k] == v for k, v in dic if k in st)
            if isinstance(r['orig'], str):
                continue     # the generated original is stuck on this store (not expected); nothing to compare
            if match:
                if r['trans'] == 'aborted':
                    return 'store %d has the parametrised values but the guard fires' % i
                if r['trans'] != r['orig']:
                    return 'store %d (matching): original computes %s, transformed %s' % (i, r['orig'], r['trans'])
            else:
                if r['trans'] != 'aborted':
                    return 'store %d has %s but no guard fires' % (i, {k: st[k] for k, v in dic if k in st and st[k] != v})
                want = [x[1] for x in ABORTS[case['abort']]]
                if r.get('abort_body') != want:
                    return 'store %d: guard body is %s, expected %s' % (i, r.get('abort_body'), want)
        g = out.get('gf') or {}
        def infra(txt): return txt == 'timeout' or 'Cannot allocate' in txt or 'No space left' in txt
        if 'match' in g:
            (ok_o, txt_o), (ok_t, txt_t) = g['match']['orig'], g['match']['trans']
            if not ok_o:
                if txt_o.startswith('compile'): return 'gfortran rejects the generated original: ' + txt_o[:300]
            elif not ok_t:
                if not infra(txt_t): return 'gfortran (matching inputs): transformed tree fails: %s' % txt_t[:300]
            else:
                lo, lt = txt_o.split(), txt_t.split()
                if lo != lt: return 'gfortran (matching inputs): original prints %s, transformed %s' % (lo, lt)
                flat = []
                for i in g['match_idx']:
                    flat.append('LVRUN')
                    flat += [str(z) for x in out['runs'][i]['orig'] for z in (x if isinstance(x, list) else [x])]
                if flat != lo: return 'gfortran and the reference interpreter differ on the original: %s vs %s' % (lo, flat)
        if 'non' in g:
            ok_t, txt_t = g['non']['trans']
            if not infra(txt_t):
                if STOPS[case['abort']]:
                    if ok_t or 'received another value' not in txt_t:
                        return 'gfortran (non-matching input): transformed did not stop with the message: %s' % txt_t[:300]
                else:
                    if 'This is just a warning' not in txt_t:
                        return 'gfortran (non-matching input): no warning printed: %s' % txt_t[:300]
        return None

    def nontrivial_key(self, case, out):
        if 'error' in out or '__exception__' in out: return None
        if 'unit' in case:
            if not out['trans']['consts']: return None
            import json, hashlib
            return 'dfv:' + hashlib.sha1(json.dumps(out['trans'], sort_keys=True).encode()).hexdigest()
        lost = sum(1 for o, t in zip(out['orig'], out['trans']) if o['name'] != case['driver'] and len(t['params']) < len(o['params']))
        if lost == 0: return None
        import json, hashlib
        h = hashlib.sha1(json.dumps([out['trans'], case['dic2p'], case['replace'], case['abort']], sort_keys=True).encode()).hexdigest()
        return h

    def search(self, rng, bad_cases):
        g = Gen(rng)
        if any('unit' in c for c in bad_cases):
            for _ in range(40): yield gen_dfv(rng)
        for c in [c for c in bad_cases if 'units' in c][:6]:
            drv = c['units'][0]
            for _ in range(6):
                d = dict(c)
                d['dic2p'] = pick_dic2p(rng, drv)
                d['replace'] = rng.random() < 0.5
                stores = [g.store(drv, fixed=d['dic2p']), g.store(drv, fixed=d['dic2p'])]
                keys = [k for k, _ in d['dic2p']]
                stores.append(g.store(drv, fixed=d['dic2p'], mismatch=[rng.choice(keys)]))
                d['stores'] = [store_out(s) for s in stores]
                d['tie_only'] = not py_uniform([self._unit_as_parsed(u) for u in d['units']], ['drv'], d['dic2p'])
                d['gf'] = False
                yield d

PROP = C39
