"""C25 — renaming, duplicating and removing items keeps the graph consistent.

One case = a generated multi-file Fortran project + a history of 1-4 scheduler processing steps drawn from
DependencyTransformation (suffix), ModuleWrapTransformation, DuplicateKernel (with / without subgraph),
RemoveKernel, run through the real Scheduler.  After the initial discovery and after every step the item cache,
the graph and the call/import/interface names of every graph routine are read off the live objects and compared
with the Coq model `M_C25.chk_history` (which replays the whole history from the project description); the oracle
checks the consistency statements directly on the live objects, lets a recording transformation visit the graph
afterwards, and (thorough tier, and a sample of the quick tier) writes the sources and compiles + links them with
gfortran."""
import os, re, json, copy, shutil, tempfile, subprocess
from pathlib import Path
from ..framework import Property
from ..coqlit import coq, C, Nat, Some, Raw

# ----------------------------------------------------------------------------------------------
# project description -> Fortran (own copy of the C24 writer; data modules hold variables only)
# ----------------------------------------------------------------------------------------------

def _routine_src(r, ind=''):
    L = ['subroutine %s(n, x)' % r['name']]
    for c in r['calls']:
        if c['via'] == 'use':
            L.append('  use %s, only: %s' % (c['mod'], c['name']))
    for m, v in r.get('gvars', []):
        L.append('  use %s, only: %s' % (m, v))
    L += ['  implicit none', '  integer, intent(in) :: n', '  integer, intent(inout) :: x(n)']
    for c in r['calls']:
        if c['via'] == 'intf':
            L += ['  interface', '    subroutine %s(n, x)' % c['name'], '      integer, intent(in) :: n',
                  '      integer, intent(inout) :: x(n)', '    end subroutine %s' % c['name'], '  end interface']
    L.append('  x(1) = x(1) + %d' % r.get('k', 1))
    for c in r['calls']:
        L.append('  call %s(n, x)' % c['name'])
    for m, v in r.get('gvars', []):
        L.append('  x(1) = x(1) + %s' % v)
    L.append('end subroutine %s' % r['name'])
    return '\n'.join(ind + l for l in L)

def file_src(f):
    if f['module']:
        L = ['module %s' % f['module'], '  implicit none']
        for v in f.get('vars', []):
            L.append('  integer :: %s = 2' % v)
        if f['routines']:
            L.append('contains')
            for r in f['routines']:
                L.append(_routine_src(r, '  '))
        L.append('end module %s' % f['module'])
        return '\n'.join(L) + '\n'
    return '\n'.join(_routine_src(r) for r in f['routines']) + '\n'

def write_project(proj, src):
    for f in proj['files']:
        p = Path(src) / f['path']
        p.parent.mkdir(parents=True, exist_ok=True)
        p.write_text(file_src(f))

STEMS = ['kern', 'util', 'comp', 'calc', 'phys', 'rad', 'conv', 'diag']
DIRS = ['', '', 'sub/', 'module/', 'src/deep/']
SUFFIXES = ['.F90', '.F90', '.f90']

def gen_project(rng, nroutines, allow_plain, allow_orphan=True):
    """acyclic call graph over files; every routine but the optional orphan is reachable from `driver`;
    module routines are called through USE, free routines through an INTERFACE block or (allow_plain) implicitly;
    variables live in data modules without routines"""
    used = set()
    def fresh(stem=None):
        while True:
            n = '%s%d' % (stem or rng.choice(STEMS), rng.randint(1, 60))
            if n not in used:
                used.add(n); return n
    files = []
    drv = {'name': 'driver', 'calls': [], 'gvars': [], 'k': 1}
    files.append({'path': rng.choice(DIRS) + 'driver' + rng.choice(SUFFIXES), 'module': None, 'routines': [drv], 'vars': []})
    if rng.random() < 0.3:
        files[0]['module'] = 'driver_mod'; files[0]['path'] = rng.choice(DIRS) + 'driver_mod' + rng.choice(SUFFIXES)
    left = nroutines - 1
    while left > 0:
        if rng.random() < 0.55:
            k = min(left, rng.choice([1, 1, 2, 3]))
            rs = [{'name': fresh(), 'calls': [], 'gvars': [], 'k': rng.randint(1, 9)} for _ in range(k)]
            mod = (rs[0]['name'] if rng.random() < 0.7 else fresh('m')) + '_mod'
            stem = mod if rng.random() < 0.7 else fresh('file')
            files.append({'path': rng.choice(DIRS) + stem + rng.choice(SUFFIXES), 'module': mod, 'routines': rs, 'vars': []})
            left -= k
        else:
            r = {'name': fresh(), 'calls': [], 'gvars': [], 'k': rng.randint(1, 9)}
            stem = r['name'] if rng.random() < 0.8 else fresh('file')
            files.append({'path': rng.choice(DIRS) + stem + rng.choice(SUFFIXES), 'module': None, 'routines': [r], 'vars': []})
            left -= 1
    order = [(fi, r) for fi, f in enumerate(files) for r in f['routines']]
    where = {r['name']: files[fi] for fi, r in order}
    def add_call(r, tgt):
        if any(c['name'] == tgt['name'] for c in r['calls']): return
        f = where[tgt['name']]
        if f['module']:
            r['calls'].append({'name': tgt['name'], 'via': 'use', 'mod': f['module']})
        else:
            r['calls'].append({'name': tgt['name'], 'via': rng.choice(['plain', 'intf']) if allow_plain else 'intf', 'mod': None})
    for i, (fi, r) in enumerate(order):
        later = [(fj, t) for fj, t in order[i + 1:] if fj > fi]
        for _ in range(rng.choice([0, 1, 1, 2, 2, 3])):
            if later: add_call(r, rng.choice(later)[1])
    orphan = None
    cands = [r for fi, r in order if files[fi]['module'] and len(files[fi]['routines']) > 1 and fi > 0]
    if cands and rng.random() < 0.3 and allow_orphan: orphan = rng.choice(cands)['name']
    for i, (fi, r) in enumerate(order):
        if i == 0 or r['name'] == orphan: continue
        if not any(any(c['name'] == r['name'] for c in q['calls']) for _, q in order):
            earlier = [(fj, q) for fj, q in order[:i] if fj < fi and q['name'] != orphan]
            add_call(rng.choice(earlier)[1], r)
    # data modules
    for j in range(rng.choice([0, 1, 1, 2])):
        dm = {'path': rng.choice(DIRS) + 'data%d_mod' % j + rng.choice(SUFFIXES), 'module': 'data%d_mod' % j, 'routines': [], 'vars': ['gv%d' % j]}
        files.append(dm)
        for fi, r in order:
            if rng.random() < 0.3: r['gvars'].append([dm['module'], 'gv%d' % j])
    return {'files': files}

DEP_SFX = ['_test', '_x', '_loki']
DUP_SFX = ['_dup', '_d1', '_cp']

def gen_ops(rng, allow_wrap, nmax):
    ops, dep_left, dup_left = [], list(DEP_SFX), list(DUP_SFX)
    rng.shuffle(dep_left); rng.shuffle(dup_left)
    for _ in range(rng.randint(1, nmax)):
        u = rng.random()
        if u < 0.3 and dep_left:
            ops.append({'t': 'dep', 'suffix': dep_left.pop(), 'msuffix': '_mod'})
        elif u < 0.45 and allow_wrap:
            ops.append({'t': 'wrap', 'msuffix': '_mod'})
        elif u < 0.8 and dup_left:
            s = dup_left.pop()
            ops.append({'t': 'dup', 'pick': rng.randrange(1000), 'suffix': s, 'msuffix': rng.choice([None, None, s + 'm']), 'subgraph': rng.random() < 0.4})
        else:
            ops.append({'t': 'rem', 'pick': rng.randrange(1000)})
    return ops

# ----------------------------------------------------------------------------------------------
# running the real scheduler
# ----------------------------------------------------------------------------------------------

CONFIG = {'default': {'mode': 'idem', 'role': 'kernel', 'expand': True, 'strict': False, 'enable_imports': False},
          'routines': {'driver': {'role': 'driver'}}}

def _quiet():
    import loki.logging as ll
    ll.set_log_level(ll.ERROR)

def make_trafo(op):
    from loki.transformations.build_system import DependencyTransformation, ModuleWrapTransformation
    from loki.transformations.dependency import DuplicateKernel, RemoveKernel
    t = op['t']
    if t == 'dep': return DependencyTransformation(suffix=op['suffix'], module_suffix=op['msuffix'])
    if t == 'wrap': return ModuleWrapTransformation(module_suffix=op['msuffix'])
    if t == 'dup': return DuplicateKernel(duplicate_kernels=tuple(op['kernels']), duplicate_suffix=op['suffix'],
                                          duplicate_module_suffix=op.get('msuffix'), duplicate_subgraph=bool(op['subgraph']))
    if t == 'rem': return RemoveKernel(remove_kernels=tuple(op['kernels']))
    raise ValueError(t)

def routine_refs(r):
    from loki.ir import FindNodes, CallStatement, Interface
    from loki.subroutine import Subroutine
    calls = sorted({str(c.name).lower() for c in FindNodes(CallStatement).visit(r.body)})
    imps = sorted([str(i.module).lower(), sorted(str(s).lower() for s in i.symbols)] for i in r.imports)
    intfs = sorted({b.name.lower() for i in FindNodes(Interface).visit(r.spec) for b in i.body if isinstance(b, Subroutine)})
    return [calls, imps, intfs]

def snapshot(sched, src):
    from loki.batch.item import FileItem, ModuleItem, ProcedureItem, ExternalItem
    low = src.lower()
    fac = sched.item_factory
    cache = []
    for k, it in fac.item_cache.items():
        k2, n2 = str(k).replace(low, ''), str(it.name).replace(low, '')
        if isinstance(it, FileItem): cache.append([k2, n2, 0])
        elif isinstance(it, ModuleItem): cache.append([k2, n2, 1])
        elif isinstance(it, ProcedureItem) and n2.startswith('#') and k2.startswith('#'): cache.append([k2, n2, 2])
    nodes = sorted([i.name.lower(), isinstance(i, ExternalItem)] for i in sched.items)
    edges = sorted([a.name.lower(), b.name.lower()] for a, b in sched.dependencies)
    refs = []
    for it in sched.items:
        if isinstance(it, ProcedureItem) and it.ir is not None:
            refs.append([it.name.lower(), routine_refs(it.ir)])
    return {'cache': sorted(cache), 'nodes': nodes, 'edges': edges, 'refs': sorted(refs)}

def direct_checks(sched, src, seed_locals=('driver',)):
    """the consistency statements of the property, checked on the live objects"""
    from loki.batch.item import FileItem, ModuleItem, ProcedureItem, ExternalItem
    from loki.batch import Transformation
    from loki.ir import FindNodes, CallStatement, Interface
    from loki.subroutine import Subroutine
    fac = sched.item_factory
    errs = []
    for k, it in fac.item_cache.items():
        if str(k).lower() != str(it.name).lower():
            errs.append('cache key %s holds item %s' % (k, it.name))
    byname = {str(it.name).lower(): it for it in fac.item_cache.values()}
    # the cache holds surviving items only: every cached module / procedure item still has its program unit
    for k, it in fac.item_cache.items():
        if isinstance(it, (ModuleItem, ProcedureItem)):
            try:
                unit = it.ir
            except Exception:       # pylint: disable=broad-except
                unit = None
            if unit is None:
                errs.append('cached item %s has no program unit in its source any more' % it.name)
            elif isinstance(it, ProcedureItem):
                pn = unit.parent.name.lower() if unit.parent else ''
                if it.local_name != unit.name.lower() or (it.scope_name or '') != pn:
                    errs.append('cached item %s holds routine %s of module %r' % (it.name, unit.name, pn))
    nodes = list(sched.items)
    nodeset = {i.name.lower() for i in nodes}
    for it in nodes:
        if isinstance(it, ExternalItem):
            errs.append('%s is an external (unresolved) node' % it.name); continue
        if byname.get(it.name.lower()) is not it:
            errs.append('graph node %s is not the cached item of that name' % it.name)
    # every seed is a surviving item under its current name, and the scheduler's own seed list names graph nodes
    proc_locals = {i.local_name for i in nodes if isinstance(i, ProcedureItem)}
    for sl in seed_locals:
        if sl.lower() not in proc_locals:
            errs.append('seed routine %s (current name) is not a node of the graph' % sl)
    for sd in sched.seeds:
        sd = str(sd).lower()
        if sd not in nodeset and sd not in proc_locals:
            errs.append('Scheduler.seeds entry %s names no graph node' % sd)
    # no re-discovered original next to its transformed copy: a node's file is not shadowed by a "duplicate of" file item
    fnames = {str(it.name) for it in fac.item_cache.values() if isinstance(it, FileItem)}
    for it in nodes:
        if isinstance(it, (ProcedureItem, ModuleItem)):
            fi = fac.get_file_item_from_source(it.source)
            if fi is not None and ('duplicate of ' + str(fi.name)) in fnames:
                errs.append('graph node %s belongs to the re-discovered original %s although a transformed copy exists'
                            % (it.name, str(fi.name).replace(src.lower(), '')))
    succ = {}
    for a, b in sched.dependencies:
        if a.name.lower() not in nodeset or b.name.lower() not in nodeset:
            errs.append('dangling edge %s -> %s' % (a.name, b.name))
        succ.setdefault(a.name.lower(), []).append(b)
    for it in nodes:
        if not isinstance(it, ProcedureItem): continue
        r = it.ir
        if r is None:
            errs.append('item %s has no program unit in its source' % it.name); continue
        if it.local_name != r.name.lower():
            errs.append('item %s holds routine %s' % (it.name, r.name))
        pn = r.parent.name.lower() if r.parent else ''
        if (it.scope_name or '') != pn:
            errs.append('item %s lives in module %r' % (it.name, pn))
        for c in FindNodes(CallStatement).visit(r.body):
            cn = str(c.name).lower()
            tg = [s for s in succ.get(it.name.lower(), []) if s.local_name == cn]
            if not tg:
                errs.append('call %s in %s has no graph successor' % (cn, it.name)); continue
            t = tg[0]
            if isinstance(t, ExternalItem): continue
            if t.scope_name:
                if not any(str(i.module).lower() == t.scope_name and cn in [str(s).lower() for s in i.symbols] for i in r.imports):
                    errs.append('call %s in %s: %s is not imported from %s' % (cn, it.name, cn, t.scope_name))
        for i in r.imports:
            m = str(i.module).lower()
            mi = byname.get(m)
            if mi is None or not isinstance(mi, ModuleItem):
                errs.append('import of unknown module %s in %s' % (m, it.name)); continue
            if mi.ir is None:
                errs.append('module item %s (imported by %s) has no program unit' % (m, it.name)); continue
            have = {str(s.name).lower() for s in mi.ir.subroutines}
            called = {str(c.name).lower() for c in FindNodes(CallStatement).visit(r.body)}
            for s in i.symbols:
                if str(s).lower() in called and str(s).lower() not in have:
                    errs.append('%s imports the called routine %s from %s which does not define it' % (it.name, s, m))
        for blk in FindNodes(Interface).visit(r.spec):
            for b in blk.body:
                if isinstance(b, Subroutine) and ('#' + b.name.lower()) not in byname:
                    errs.append('interface block in %s declares %s, which no longer exists' % (it.name, b.name))
    class Rec(Transformation):
        def __init__(self): self.seen = []
        def transform_subroutine(self, routine, **kw): self.seen.append(kw['item'].name.lower())
    rec = Rec()
    try:
        sched.process(rec)
        exp = sorted(i.name.lower() for i in sched.items if isinstance(i, ProcedureItem))
        if sorted(rec.seen) != exp:
            errs.append('a later processing visits %s, the surviving procedure items are %s' % (sorted(rec.seen), exp))
    except Exception as e:      # pylint: disable=broad-except
        errs.append('a later processing raises %s: %s' % (type(e).__name__, str(e)[:120]))
    return errs

def compile_link(sched, root, proj):
    """write the processed sources and build them as a build that follows the plan would: generated files instead of the
    originals they replace, the untouched originals (data modules, files that left the call tree) as they are, a main program"""
    from loki.transformations.build_system import FileWriteTransformation
    replaced = set()
    class RecordingFileWrite(FileWriteTransformation):
        def transform_file(self, sourcefile, **kwargs):
            item = kwargs.get('item')
            if item is not None and Path(item.path).exists():
                replaced.add(os.path.realpath(str(item.path)))
            return super().transform_file(sourcefile, **kwargs)
    build = os.path.join(root, 'build'); os.makedirs(build, exist_ok=True)
    sched.build_args['output_dir'] = build
    sched.process(RecordingFileWrite())
    written = [os.path.join(build, f) for f in sorted(os.listdir(build))]
    untouched = []
    for f in proj['files']:
        p = os.path.realpath(os.path.join(root, 'src', f['path']))
        if p not in replaced: untouched.append(p)
    drv = [i for i in sched.items if i.local_name == 'driver'][0]
    use = ('use %s, only: driver\n' % drv.scope_name) if drv.scope_name else ''
    main = os.path.join(build, 'zz_main.F90')
    open(main, 'w').write('program p\n %s integer :: x(3)\n x = 0\n call driver(3, x)\n print *, x(1)\nend program p\n' % use)
    work = os.path.join(root, 'obj'); os.makedirs(work)
    must = set(written + [main])
    pend, objs, libobjs, last, ctr = written + untouched + [main], [], [], {}, 0
    while pend:
        nxt = []
        for f in pend:
            ctr += 1; o = os.path.join(work, '%d.o' % ctr)
            r = subprocess.run(['timeout', '60', 'gfortran', '-c', '-ffree-form', f, '-o', o], cwd=work, capture_output=True, text=True)
            if r.returncode == 0: (objs if f in must else libobjs).append(o)
            else: nxt.append(f); last[f] = r.stderr
        if len(nxt) == len(pend):
            bad = [f for f in nxt if f in must]
            if bad:
                msg = ' '.join(last[bad[0]].replace(root, '').split())
                return 'compilation of %s fails: %s' % ([os.path.basename(p) for p in bad], msg[-260:])
            break       # only untouched originals are left over: they are not part of the processed sources
        pend = nxt
    # the untouched originals form a library: only the members the processed sources still need are linked
    lib = []
    if libobjs:
        subprocess.run(['ar', 'rcs', 'libuntouched.a'] + libobjs, cwd=work, capture_output=True, text=True)
        lib = ['libuntouched.a']
    r = subprocess.run(['timeout', '60', 'gfortran'] + objs + lib + ['-o', 'a.out'], cwd=work, capture_output=True, text=True)
    if r.returncode:
        return 'linking fails: ' + ' '.join(r.stderr.replace(root, '').split())[-260:]
    r = subprocess.run(['timeout', '20', './a.out'], cwd=work, capture_output=True, text=True)
    if r.returncode:
        return 'the linked program fails'
    return None

def resolve_op(op, sched, later, single=False):
    """turn a `pick` into a concrete kernel name of the current graph (deterministic for a given case)"""
    from loki.batch.item import ProcedureItem
    op = dict(op)
    if 'pick' not in op: return op
    procs = [i for i in sched.items if isinstance(i, ProcedureItem) and i.local_name != 'driver']
    succ = {}
    for a, b in sched.dependencies: succ.setdefault(a.name, []).append(b)
    def below(i, seen=None):
        seen = seen if seen is not None else {}
        for s in succ.get(i.name, []):
            if isinstance(s, ProcedureItem) and s.name not in seen:
                seen[s.name] = s; below(s, seen)
        return list(seen.values())
    if op['t'] == 'rem':
        cands = [i for i in procs if not i.scope_name]                       # class: free routines only
        if 'wrap' in later:
            # class: the call of a kernel declared through an INTERFACE block is not removed before a module wrap
            # (the leftover interface becomes a USE of a module that leaves the graph, finding F-C25-4)
            from loki.ir import FindNodes, Interface
            from loki.subroutine import Subroutine
            declared = {b.name.lower() for p in sched.items if isinstance(p, ProcedureItem) and p.ir is not None
                        for blk in FindNodes(Interface).visit(p.ir.spec) for b in blk.body if isinstance(b, Subroutine)}
            cands = [i for i in cands if i.local_name not in declared]
    else:
        cands = procs
        if 'wrap' in later:                                                   # class: no implicit-interface call before a wrap
            cands = [i for i in cands if i.scope_name and (not op['subgraph'] or all(d.scope_name for d in below(i)))]
        if single:
            # compiled cases: the cloned file holds nothing but the cloned routine
            alone = lambda i: (not i.scope_name) or len(i.ir.parent.subroutines) == 1
            cands = [i for i in cands if alone(i) and (not op['subgraph'] or all(alone(d) for d in below(i)))]
        if 'dep' in later:
            # class: a routine with INTERFACE blocks is not cloned before a suffixing step (the clone shares the
            # interface bodies with the original and they are renamed once per holder, finding F-C25-3)
            from loki.ir import FindNodes, Interface
            has_intf = lambda i: bool(FindNodes(Interface).visit(i.ir.spec))
            cands = [i for i in cands if not has_intf(i) and (not op['subgraph'] or not any(has_intf(d) for d in below(i)))]
    cands = sorted(i.local_name for i in cands)
    if not cands: return None
    p = op.pop('pick')
    op['kernels'] = [cands[p % len(cands)]]
    return op

def run_history(case):
    from loki.batch import Scheduler, SchedulerConfig
    from loki.batch.item import ExternalItem
    _quiet()
    root = os.path.realpath(tempfile.mkdtemp(prefix='lv_c25_'))
    try:
        src = os.path.join(root, 'src'); os.makedirs(src)
        write_project(case['proj'], src)
        seeds = list(case.get('seeds') or ['driver'])
        # additional seeds are given by their qualified item name (a bare local name would also select the sibling copies
        # inside cloned modules)
        where = {r['name']: (f['module'] or '') for f in case['proj']['files'] for r in f['routines']}
        qualified = [n if n == 'driver' else '%s#%s' % (where[n], n) for n in seeds]
        sched = Scheduler(paths=[src], config=SchedulerConfig.from_dict(copy.deepcopy(CONFIG)), seed_routines=qualified, full_parse=True)
        out = {'snaps': [snapshot(sched, src)], 'ops': [], 'violations': []}
        v = direct_checks(sched, src, seeds)
        if v: out['violations'].append([0, v])
        ops = case['ops']
        for j, op0 in enumerate(ops):
            op = resolve_op(op0, sched, [o['t'] for o in ops[j + 1:]], single=bool(case.get('compile')))
            if op is None: continue
            try:
                sched.process(make_trafo(op))
            except Exception as e:       # pylint: disable=broad-except
                out['ops'].append(op)
                out['violations'].append([len(out['ops']), ['processing raises %s: %s' % (type(e).__name__, str(e)[:160])]])
                out['raised'] = True
                return out
            out['ops'].append(op)
            out['snaps'].append(snapshot(sched, src))
            if op['t'] == 'dep':      # ground truth: a suffixing step renames every kernel entry point
                seeds = [n if n == 'driver' else n + op['suffix'] for n in seeds]
            v = direct_checks(sched, src, seeds)
            if v:
                out['violations'].append([len(out['ops']), v]); return out
        if case.get('compile'):
            e = compile_link(sched, root, case['proj'])
            out['compiled'] = e is None
            if e: out['violations'].append([len(out['ops']), [e]])
        return out
    finally:
        shutil.rmtree(root, ignore_errors=True)

# ----------------------------------------------------------------------------------------------
# model input
# ----------------------------------------------------------------------------------------------

def routine_model(r):
    imps = [(c['mod'], [c['name']]) for c in r['calls'] if c['via'] == 'use'] + [(m, [v]) for m, v in r.get('gvars', [])]
    return C('mk_routine', r['name'], [c['name'] for c in r['calls']], imps, [c['name'] for c in r['calls'] if c['via'] == 'intf'])

def disk_model(proj):
    out = []
    for f in proj['files']:
        us = [C('TMod', f['module'], [routine_model(r) for r in f['routines']])] if f['module'] else [C('TFree', routine_model(r)) for r in f['routines']]
        out.append(C('mk_source', '/' + f['path'].lower(), us))
    return out

def seed_model(proj, seeds=None):
    where = {r['name']: (f['module'] or '') for f in proj['files'] for r in f['routines']}
    return [C('NProc', where[n], n) for n in (seeds or ['driver'])]

def op_model(op):
    t = op['t']
    if t == 'dep': return C('ODep', op['suffix'], op['msuffix'])
    if t == 'wrap': return C('OWrap', op['msuffix'])
    if t == 'dup': return C('ODup', op['kernels'][0], op['suffix'], op.get('msuffix') or op['suffix'], bool(op['subgraph']))
    return C('ORem', op['kernels'][0])

def obs_model(s):
    return C('mk_obs', [(k, n, Nat(t)) for k, n, t in s['cache']], [(n, bool(e)) for n, e in s['nodes']],
             [(a, b) for a, b in s['edges']],
             [(n, (r[0], [(m, list(sy)) for m, sy in r[1]], r[2])) for n, r in s['refs']])

class C25(Property):
    id = 'C25'
    imports = ['models.M_C25']
    theorem_file = 'theories/props/T_C25.v'
    parallel = True
    shard = 25
    rule = ('history: seeded random Fortran project (4-9 routines in 1-3-routine modules and free files, sub-directories, file stem '
            'different from the unit name, driver free or in driver_mod, calls through USE / INTERFACE block / implicit interface, an '
            'unreferenced module routine, 0-2 data modules imported by several routines) x a history of 1-4 processing steps of '
            'DependencyTransformation (distinct suffixes), ModuleWrapTransformation, DuplicateKernel (kernel picked from the live graph, '
            'suffix / module suffix, with and without subgraph), RemoveKernel (a free kernel of the live graph), all through '
            'Scheduler.process; after every step cache keys / item names / kinds, graph nodes, edges and the call, import and interface '
            'names of every graph routine are compared with the model, the consistency statements are checked on the live objects and a '
            'recording transformation visits the graph; compile = the written sources are compiled and linked with gfortran; '
            'non-trivial = at least one step changes the set of cache keys or graph nodes; distinct = distinct (project, resolved history)')
    modelled_not_verified = [
        'the model is a function of the project DESCRIPTION (calls, imports, interface blocks per routine) and the resolved history; that '
        'Loki\'s frontend reads the same description off the written Fortran is checked by the comparison of the initial state',
        'procedure items of module routines that are not graph nodes (created on demand in the cache) are outside the compared cache '
        'contents; their keys are still checked against their names by the oracle',
        'steps outside the modelled class return None in the model (implicit-interface calls before a module wrap, a suffix applied twice, '
        'callees that are not kernels, name collisions); the generator stays inside, the witnesses of the real behaviour outside are '
        'known findings',
        'that the worklist fuel of the graph closure suffices is not proved: the model returns None when it does not, and every run checks it never does',
        'traversal order of the scheduler (networkx topological order) is not modelled: histories whose result depends on it are outside the class',
        'SeparateModesKernel / multi-pipeline mode, ignore/disable/block lists, type-bound procedures and C-style header includes are not covered',
    ]

    def generate(self, rng, tier):
        n = 300 if tier == 'quick' else 600
        for i in range(n):
            allow_plain = rng.random() < 0.5
            # compiled cases: every routine of a written file is a graph item (no unreferenced module routine, clones only of
            # single-routine modules): routines outside the graph are not maintained by the transformations (finding F-C25-8)
            comp = (i % 2 == 0) if tier != 'quick' else (i % 5 == 0)
            proj = gen_project(rng, rng.randint(4, 9), allow_plain, allow_orphan=not comp)
            ops = gen_ops(rng, allow_wrap=not allow_plain, nmax=3 if tier == 'quick' else 4)
            # library-style entry points: 0-2 kernel-role routines are seeds next to the driver (Scheduler.seeds must follow
            # their renaming element by element)
            seeds = ['driver']
            kernels = [r['name'] for f in proj['files'] for r in f['routines'] if r['name'] != 'driver']
            if kernels and rng.random() < 0.6:
                seeds += rng.sample(kernels, min(len(kernels), rng.choice([1, 2, 2])))
            yield {'kind': 'history', 'proj': proj, 'ops': ops, 'compile': comp, 'seeds': seeds}

    def run_impl(self, case):
        return run_history(case)

    def model_term(self, case, out):
        if '__exception__' in out:
            raise ValueError('harness/implementation raised %s: %s' % (out['__exception__'], out.get('msg')))
        ops = out['ops'][:len(out['snaps']) - 1]
        return coq(C('chk_history_full', disk_model(case['proj']), seed_model(case['proj'], case.get('seeds')), [op_model(o) for o in ops],
                     obs_model(out['snaps'][0]), [obs_model(s) for s in out['snaps'][1:]]))

    def oracle(self, case, out):
        if '__exception__' in out:
            return 'harness/implementation raised %s: %s' % (out['__exception__'], out.get('msg'))
        if out['violations']:
            j, v = out['violations'][0]
            hist = [{k: o[k] for k in o if k != 'pick'} for o in out['ops'][:j]]
            return 'after %s: %s' % (json.dumps(hist), '; '.join(v[:3]))
        return None

    def nontrivial_key(self, case, out):
        if 'snaps' not in out or len(out['snaps']) < 2: return None
        s0, s1 = out['snaps'][0], out['snaps'][-1]
        if s0['cache'] != s1['cache'] or s0['nodes'] != s1['nodes']:
            return json.dumps([case['proj'], out['ops']], sort_keys=True)
        return None

    def show_model(self, case, out):
        if 'snaps' not in out: return []
        disk, seed = coq(disk_model(case['proj'])), coq(seed_model(case['proj'], case.get('seeds')))
        ops = coq([op_model(o) for o in out['ops'][:len(out['snaps']) - 1]])
        f = ('(fun st => (top_cache st, map node_obs (st_nodes st), map (fun e => (nname (fst e), nname (snd e))) (st_edges st), '
             'map (fun p => (fst p, snd p, proc_ir st (fst p) (snd p))) (proc_nodes st)))')
        return ['match init %s %s with Some s0 => (%s s0, match run %s %s s0 %s with Some l => Some (map %s l) | None => None end) | None => (%s (mk_state [] [] [] [] [] []), None) end'
                % (disk, seed, f, disk, seed, ops, f, f)]

    def search(self, rng, bad_cases):
        # shorter histories around a disagreeing case
        for c in bad_cases:
            for k in range(1, len(c['ops'])):
                d = copy.deepcopy(c); d.pop('_origin', None); d['ops'] = d['ops'][:k]; yield d

PROP = C25
