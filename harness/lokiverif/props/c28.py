"""C28 — inlining preserves program behaviour (loki/transformations/inline).

Cases are caller/callee pairs in JSON (MiniF statements, see minif.py) extended by
  ['call', f, [actual..]]   actual = expression | ['sec', array, [['fix', E] | ['rng', lo|None, hi|None]]] | ['kw', dummy, actual]
  ['pragma', text]          printed as !$text
  ['return']                RETURN (reference interpreter only; not representable in the Coq core)
They are printed to Fortran, parsed with the real frontend, the parsed bodies are read back (model input), the REAL
inlining utility is applied and the resulting body is read back (model output / oracle input)."""
import os, re, copy, json, random, itertools
from ..framework import Property
from ..coqlit import coq, C, Nat, Some, Raw
from .. import minif as M
from .. import bridge_expr as B
from ..evalz import tdiv

# ------------------------------------------------------------------------------------------ printing
def factual(a):
    if a[0] == 'kw': return '%s=%s' % (a[1], factual(a[2]))
    if a[0] == 'sec':
        ds = []
        for d in a[2]:
            if d[0] == 'fix': ds.append(M.fexpr(d[1]))
            else: ds.append('%s:%s' % ('' if d[1] is None else d[1], '' if d[2] is None else d[2]))
        return '%s(%s)' % (a[1], ', '.join(ds))
    return M.fexpr(a)

def fstmts(ss, ind=2):
    out, pad = [], ' ' * ind
    for s in ss:
        k = s[0]
        if k == 'call': out.append('%scall %s(%s)' % (pad, s[1], ', '.join(factual(a) for a in s[2])))
        elif k == 'pragma': out.append('%s!$%s' % (pad, s[1]))
        elif k == 'return': out.append(pad + 'return')
        elif k == 'do':
            hdr = '%sdo %s = %s, %s' % (pad, s[1], M.fexpr(s[2]), M.fexpr(s[3]))
            if s[4] is not None: hdr += ', %s' % M.fexpr(s[4])
            out.append(hdr); out += fstmts(s[5], ind + 2); out.append(pad + 'end do')
        elif k == 'while':
            out.append('%sdo while (%s)' % (pad, M.fexpr(s[1]))); out += fstmts(s[2], ind + 2); out.append(pad + 'end do')
        elif k == 'if':
            out.append('%sif (%s) then' % (pad, M.fexpr(s[1]))); out += fstmts(s[2], ind + 2)
            if s[3]:
                out.append(pad + 'else'); out += fstmts(s[3], ind + 2)
            out.append(pad + 'end if')
        else: out += M.fstmts([s], ind)
    return out

def unit_src(u, contains=(), uses=(), stmtfuncs=()):
    """Fortran text of a unit.  u['kind'] in ('subroutine' (default), 'function'); u['optional']: optional dummies"""
    kind = u.get('kind', 'subroutine')
    args = u.get('args', [])
    lines = ['%s %s(%s)' % (kind, u['name'], ', '.join(args))]
    for use in uses: lines.append('  use %s, only: %s' % (use[0], ', '.join(use[1])))
    lines.append('  implicit none')
    intents = u.get('intents', {})
    for x in u.get('scalars', []):
        it = ', intent(%s)' % intents[x] if x in args and x in intents else ''
        lines.append('  integer%s :: %s' % (it, x))
    for a, dims in u.get('arrays', {}).items():
        it = ', intent(%s)' % intents[a] if a in args and a in intents else ''
        lines.append('  integer%s :: %s(%s)' % (it, a, ', '.join('%s:%s' % (l, h) for l, h in dims)))
    if kind == 'function': lines.append('  integer :: %s' % u['name'])
    for sf in stmtfuncs: lines.append('  %s(%s) = %s' % (sf['name'], ', '.join(sf['params']), M.fexpr(sf['body'])))
    lines += fstmts(u['body'])
    if u.get('upcase'):
        # Fortran identifiers are case-insensitive: print the listed names in upper case in THIS unit only
        import re
        pat = re.compile(r'\b(%s)\b' % '|'.join(re.escape(x) for x in u['upcase']))
        lines = lines[:1] + [pat.sub(lambda m_: m_.group(1).upper(), l) for l in lines[1:]]
    if contains:
        lines.append('contains')
        for c in contains: lines += ['  ' + l for l in unit_src(c).split('\n')]
    lines.append('end %s %s' % (kind, u['name']))
    return '\n'.join(lines)

# ------------------------------------------------------------------------------------------ Loki IR -> JSON
class Unsupported(Exception):
    pass

def _actual(a):
    from loki.expression import symbols as sym
    if isinstance(a, sym.Array) and a.dimensions and any(isinstance(d, sym.RangeIndex) for d in a.dimensions):
        ds = []
        for d in a.dimensions:
            if isinstance(d, sym.RangeIndex):
                def lit(x):
                    if x is None: return None
                    v = B.structure(x)
                    if v[0] in ('int', 'py'): return v[1]
                    if v[0] == 'prod' and len(v) == 4 and v[2] == ['py', -1] and v[3][0] == 'int': return -v[3][1]
                    raise Unsupported('non-literal section bound')
                ds.append(['rng', lit(d.lower), lit(d.upper)])
            else: ds.append(['fix', B.structure(d)])
        return ['sec', a.name.lower(), ds]
    return B.structure(a)

def from_loki(nodes, dummies=None):
    """Loki IR nodes -> JSON statements; keyword arguments of calls are made positional using `dummies`
    ({procedure name: [dummy names]}, from the generated case, NOT from Loki's arg_map)"""
    from loki import ir
    from loki.expression import symbols as sym
    out = []
    for n in nodes:
        if isinstance(n, (ir.Comment, ir.CommentBlock, ir.Pragma, ir.VariableDeclaration, ir.ProcedureDeclaration, ir.Import)):
            continue
        if isinstance(n, ir.Section):
            out += from_loki(n.body, dummies); continue
        if isinstance(n, ir.Assignment):
            lhs = n.lhs
            if not isinstance(lhs, (sym.Scalar, sym.Array, sym.DeferredTypeSymbol)): raise Unsupported('lhs ' + type(lhs).__name__)
            if isinstance(lhs, sym.Array) and lhs.dimensions:
                out.append(['store', lhs.name.lower(), [B.structure(d) for d in lhs.dimensions], B.structure(n.rhs)])
            else:
                out.append(['assign', lhs.name.lower(), B.structure(n.rhs)])
        elif isinstance(n, ir.Loop):
            b = n.bounds
            if not hasattr(n.variable, 'name'): raise Unsupported('loop variable')
            out.append(['do', n.variable.name.lower(), B.structure(b.start), B.structure(b.stop),
                        None if b.step is None else B.structure(b.step), from_loki(n.body, dummies)])
        elif isinstance(n, ir.WhileLoop):
            out.append(['while', B.structure(n.condition), from_loki(n.body, dummies)])
        elif isinstance(n, ir.Conditional):
            if n.inline:
                out.append(['if', B.structure(n.condition), from_loki(n.body, dummies), []])
            else:
                out.append(['if', B.structure(n.condition), from_loki(n.body, dummies), from_loki(n.else_body or (), dummies)])
        elif isinstance(n, ir.CallStatement):
            name = str(n.name).lower()
            args = [_actual(a) for a in n.arguments]
            if n.kwarguments:
                ds = (dummies or {}).get(name)
                if ds is None: raise Unsupported('kwargs in call')
                kw = {k.lower(): _actual(v) for k, v in n.kwarguments}
                for d in ds[len(args):]:
                    if d not in kw: raise Unsupported('missing actual')
                    args.append(kw[d])
            out.append(['call', name, args])
        elif type(n).__name__ == 'ReturnStmt':
            out.append(['return'])
        elif type(n).__name__ in ('Intrinsic', 'GenericStmt'):
            t = (getattr(n, 'text', '') or '').strip().lower()
            if t == 'return': out.append(['return'])
            elif t.startswith('implicit'): continue
            else: raise Unsupported('intrinsic ' + t)
        else:
            raise Unsupported(type(n).__name__)
    return out

def has_kind(ss, kinds):
    for s in ss:
        if s[0] in kinds: return True
        if s[0] == 'do' and has_kind(s[5], kinds): return True
        if s[0] == 'while' and has_kind(s[2], kinds): return True
        if s[0] == 'if' and (has_kind(s[2], kinds) or has_kind(s[3], kinds)): return True
    return False

# ------------------------------------------------------------------------------------------ reference interpreter
class Stuck(Exception):
    pass
class _Return(Exception):
    pass

class Box:
    __slots__ = ('v',)
    def __init__(self, v=0): self.v = v
    def get(self): return self.v
    def set(self, v): self.v = v

class Arr:
    """view on the cells of a caller array: index map f (callee subscripts -> actual subscripts)"""
    def __init__(self, cells, f=None): self.cells, self.f = cells, f
    def key(self, idx): return tuple(idx) if self.f is None else self.f(tuple(idx))
    def get(self, idx): return self.cells.get(self.key(idx), 0)
    def set(self, idx, v): self.cells[self.key(idx)] = v

class ElemBox:
    def __init__(self, arr, idx): self.arr, self.idx = arr, idx
    def get(self): return self.arr.get(self.idx)
    def set(self, v): self.arr.set(self.idx, v)

class RefInterp:
    """Fortran argument association by reference; expression actuals are evaluated once into a temporary.
    procs: {name: unit JSON (+ 'lbs': {array: [lower bounds]})}; the caller's declared lower bounds in `lbs`."""
    def __init__(self, procs, budget=100000):
        self.procs, self.budget = procs, budget

    def ev(self, s, env):
        k = s[0]
        if k in ('py', 'int'): return s[1]
        if k == 'var':
            b = env.get(s[1])
            if b is None:
                b = env[s[1]] = Box(0)
            if isinstance(b, Arr): raise Stuck('array as scalar')
            return b.get()
        if k == 'sum': return sum(self.ev(c, env) for c in s[2:])
        if k == 'prod':
            r = 1
            for c in s[2:]: r *= self.ev(c, env)
            return r
        if k == 'quot':
            a, b = self.ev(s[2], env), self.ev(s[3], env)
            if b == 0: raise Stuck('div0')
            return tdiv(a, b)
        if k == 'pow':
            a, n = self.ev(s[2], env), self.ev(s[3], env)
            if n >= 0: return a ** n
            if a == 0: raise Stuck('0**neg')
            return tdiv(1, a ** (-n))
        if k == 'call':
            f = s[1]
            if f in self.procs and self.procs[f].get('kind') == 'function':
                return self.call(f, list(s[2:]), env, function=True)
            args = [self.ev(c, env) for c in s[2:]]
            if f == 'mod':
                if args[1] == 0: raise Stuck('mod0')
                return args[0] - args[1] * tdiv(args[0], args[1])
            if f == 'modulo':
                if args[1] == 0: raise Stuck('mod0')
                return args[0] % args[1]
            if f == 'abs': return abs(args[0])
            if f == 'min': return min(args)
            if f == 'max': return max(args)
            a = env.get(f)
            if a is None: a = env[f] = Arr({})
            if not isinstance(a, Arr): raise Stuck('scalar as array')
            return a.get(args)
        raise Stuck('int expr ' + k)

    def evb(self, s, env):
        k = s[0]
        if k == 'log': return s[1]
        if k == 'cmp':
            l, r = self.ev(s[2], env), self.ev(s[3], env)
            return {'==': l == r, '!=': l != r, '<': l < r, '<=': l <= r, '>': l > r, '>=': l >= r}[s[1]]
        if k == 'and': return all([self.evb(c, env) for c in s[1:]])
        if k == 'or': return any([self.evb(c, env) for c in s[1:]])
        if k == 'not': return not self.evb(s[1], env)
        raise Stuck('logical expr ' + k)

    def call(self, f, actuals, env, function=False):
        p = self.procs.get(f)
        if p is None: raise Stuck('unknown procedure ' + f)
        params = p['args']
        if len(actuals) != len(params): raise Stuck('arity')
        cenv = dict(env) if p.get('host') else {}
        if p.get('host'): cenv[f] = Box(0)
        lbs_c = dict(env.get('__lbs__', {}), **p.get('lbs', {})) if p.get('host') else p.get('lbs', {})
        for d, a in zip(params, actuals):
            if d in p.get('arrays', {}):
                Ld = lbs_c[d]
                if a[0] == 'var':
                    src = env.get(a[1])
                    if src is None: src = env[a[1]] = Arr({})
                    if not isinstance(src, Arr): raise Stuck('scalar passed for array')
                    Lv = env['__lbs__'].get(a[1])
                    if Lv is None: raise Stuck('bounds of ' + a[1])
                    offs = [lv - ld for lv, ld in zip(Lv, Ld)]
                    cenv[d] = Arr(src.cells, (lambda src, offs: lambda idx: src.key([i + o for i, o in zip(idx, offs)]))(src, offs))
                elif a[0] == 'sec':
                    src = env.get(a[1])
                    if src is None: src = env[a[1]] = Arr({})
                    Lv = env['__lbs__'][a[1]]
                    tmpl, r = [], 0
                    for p_, dm in enumerate(a[2]):
                        if dm[0] == 'fix': tmpl.append(('fix', self.ev(dm[1], env)))
                        else:
                            lo = Lv[p_] if dm[1] is None else dm[1]
                            tmpl.append(('off', lo - Ld[r], r)); r += 1
                    cenv[d] = Arr(src.cells, (lambda src, tmpl: lambda idx: src.key([t[1] if t[0] == 'fix' else idx[t[2]] + t[1] for t in tmpl]))(src, tmpl))
                else: raise Stuck('array actual')
            else:
                if a[0] == 'var':
                    b = env.get(a[1])
                    if b is None: b = env[a[1]] = Box(0)
                    if isinstance(b, Arr): raise Stuck('array passed for scalar')
                    cenv[d] = b
                elif a[0] == 'call' and a[1] not in M.INTRINSICS and not (a[1] in self.procs):
                    arr = env.get(a[1])
                    if arr is None: arr = env[a[1]] = Arr({})
                    cenv[d] = ElemBox(arr, [self.ev(i, env) for i in a[2:]])
                else:
                    cenv[d] = Box(self.ev(a, env))
        cenv['__lbs__'] = dict(lbs_c)
        for a in p.get('arrays', {}):
            if a not in params: cenv[a] = Arr({})
        try:
            self.run(p['body'], cenv)
        except _Return:
            pass
        if function: return cenv.get(f, Box(0)).get()
        return None

    def run(self, ss, env):
        for s in ss:
            self.budget -= 1
            if self.budget < 0: raise Stuck('budget')
            k = s[0]
            if k == 'assign':
                v = self.ev(s[2], env)
                b = env.get(s[1])
                if b is None: b = env[s[1]] = Box(0)
                if isinstance(b, Arr): raise Stuck('array as scalar')
                b.set(v)
            elif k == 'store':
                idx = [self.ev(i, env) for i in s[2]]; v = self.ev(s[3], env)
                a = env.get(s[1])
                if a is None: a = env[s[1]] = Arr({})
                if not isinstance(a, Arr): raise Stuck('scalar as array')
                a.set(idx, v)
            elif k == 'do':
                a, b = self.ev(s[2], env), self.ev(s[3], env)
                d = 1 if s[4] is None else self.ev(s[4], env)
                if d == 0: raise Stuck('zero step')
                n = max(0, tdiv(b - a + d, d))
                var = env.get(s[1])
                if var is None: var = env[s[1]] = Box(0)
                i = a
                for _ in range(n):
                    var.set(i); self.run(s[5], env); i += d
                var.set(i)
            elif k == 'while':
                while self.evb(s[1], env):
                    self.budget -= 1
                    if self.budget < 0: raise Stuck('budget')
                    self.run(s[2], env)
            elif k == 'if':
                self.run(s[2] if self.evb(s[1], env) else s[3], env)
            elif k == 'call': self.call(s[1], s[2], env)
            elif k == 'return': raise _Return()
            elif k in ('skip', 'pragma'): pass
            else: raise ValueError(s)

def run_ref(body, store, lbs, procs, budget=100000):
    """run `body` from the python store {'x': 3, 'a': {(1,): 2}}; returns the final store in the same format"""
    env = {'__lbs__': dict(lbs)}
    for k, v in store.items():
        env[k] = Arr(dict(v)) if isinstance(v, dict) else Box(v)
    it = RefInterp(procs, budget)
    try:
        it.run(body, env)
    except _Return:
        pass
    out = {}
    for k, v in env.items():
        if k == '__lbs__': continue
        out[k] = dict(v.cells) if isinstance(v, Arr) else v.get()
    return out

# ------------------------------------------------------------------------------------------ running the real code
def lbs_of_unit(u):
    return {a: [int(l) for l, h in dims] for a, dims in u.get('arrays', {}).items()}

def _varnames(routine):
    return [v.name.lower() for v in routine.variables]

def _undeclared(routine):
    """names used in the body that are neither declared nor imported (the transformed routine would not compile)"""
    from loki.ir import FindVariables, FindInlineCalls
    from loki.expression import symbols as sym
    known = set(_varnames(routine))
    for im in routine.imports:
        for s in im.symbols or (): known.add(s.name.lower())
    bad = set()
    for v in FindVariables().visit(routine.body):
        if isinstance(v, sym.ProcedureSymbol): continue
        n = v.name.lower()
        if '%' in n: n = n.split('%')[0]
        if n not in known: bad.add(n)
    return sorted(bad)

def _procs_from(callees, bodies):
    procs = {}
    for c, b in zip(callees, bodies):
        p = dict(c); p['body'] = b; p['lbs'] = lbs_of_unit(c)
        procs[c['name']] = p
    return procs

def run_sub(case):
    from loki import Subroutine, fgen
    from loki.frontend import FP
    from loki.transformations.inline import inline_internal_procedures, inline_marked_subroutines
    caller, callees = case['caller'], case['callees']
    dummies = {c['name']: c['args'] for c in callees}
    if case['mode'] == 'internal':
        src = unit_src(caller, contains=callees)
        routine = Subroutine.from_source(src, frontend=FP)
        members = {m.name.lower(): m for m in routine.members}
        cal = [members[c['name']] for c in callees]
    else:
        cal = [Subroutine.from_source(unit_src(c), frontend=FP) for c in callees]
        routine = Subroutine.from_source(unit_src(caller), frontend=FP)
        routine.enrich(cal)
    out = {'pre': from_loki(routine.body.body, dummies), 'callee_bodies': [from_loki(c.body.body, dummies) for c in cal],
           'vars_pre': _varnames(routine)}
    try:
        if case['mode'] == 'internal': inline_internal_procedures(routine)
        else: inline_marked_subroutines(routine)
    except RecursionError:
        raise
    except Exception as e:
        out['error'] = type(e).__name__; return out
    try:
        out['post'] = from_loki(routine.body.body, dummies)
    except (Unsupported, AttributeError) as e:
        out['error'] = 'not-a-statement: %s' % e; out['fgen'] = fgen(routine); return out
    out['vars_post'] = _varnames(routine)
    out['newvars'] = [v for v in out['vars_post'] if v not in out['vars_pre']]
    out['undeclared'] = _undeclared(routine)
    out['fgen'] = fgen(routine)
    return out

def run_fn(case):
    from loki import Subroutine, Module, fgen
    from loki.frontend import FP
    from loki.transformations.inline import inline_internal_procedures, inline_elemental_functions
    caller, g = case['caller'], case['callees'][0]
    dummies = {}
    if case['mode'] == 'member':
        routine = Subroutine.from_source(unit_src(caller, contains=[g]), frontend=FP)
        fn = [m for m in routine.members if m.name.lower() == g['name']][0]
    else:
        msrc = 'module fmod\n  implicit none\ncontains\n' + '\n'.join('  ' + l for l in unit_src(g).replace('function %s(' % g['name'], 'elemental function %s(' % g['name'], 1).split('\n')) + '\nend module fmod'
        mod = Module.from_source(msrc, frontend=FP)
        routine = Subroutine.from_source(unit_src(caller, uses=[('fmod', [g['name']])]), frontend=FP, definitions=[mod])
        fn = mod.subroutines[0]
    out = {'pre': from_loki(routine.body.body, dummies), 'callee_bodies': [from_loki(fn.body.body, dummies)],
           'vars_pre': _varnames(routine)}
    try:
        if case['mode'] == 'member': inline_internal_procedures(routine)
        else: inline_elemental_functions(routine)
    except RecursionError:
        raise
    except Exception as e:
        out['error'] = type(e).__name__; return out
    out['post'] = from_loki(routine.body.body, dummies)
    out['vars_post'] = _varnames(routine)
    out['newvars'] = [v for v in out['vars_post'] if v not in out['vars_pre']]
    out['undeclared'] = _undeclared(routine)
    out['fgen'] = fgen(routine)
    return out

def run_sf(case):
    from loki import Subroutine, fgen
    from loki.frontend import FP
    from loki.ir import FindNodes, StatementFunction
    from loki.transformations.inline import inline_statement_functions
    caller = case['caller']
    routine = Subroutine.from_source(unit_src(caller, stmtfuncs=case['stmtfuncs']), frontend=FP)
    defs = []
    for sf in FindNodes(StatementFunction).visit(routine.spec):
        defs.append({'name': sf.variable.name.lower(), 'params': [a.name.lower() for a in sf.arguments], 'body': B.structure(sf.rhs)})
    out = {'pre': from_loki(routine.body.body), 'defs': defs, 'vars_pre': _varnames(routine)}
    try:
        inline_statement_functions(routine)
    except RecursionError:
        raise
    except Exception as e:
        out['error'] = type(e).__name__; return out
    out['post'] = from_loki(routine.body.body)
    out['undeclared'] = _undeclared(routine)
    out['fgen'] = fgen(routine)
    return out

def const_module_src(consts):
    lines = ['module cmod', '  implicit none']
    for c in consts: lines.append('  integer, parameter :: %s = %s' % (c['name'], M.fexpr(c['init'])))
    lines.append('end module cmod')
    return '\n'.join(lines)

def run_const(case):
    from loki import Subroutine, Module, fgen
    from loki.frontend import FP
    from loki.transformations.inline import inline_constant_parameters
    caller = case['caller']
    mod = Module.from_source(const_module_src(case['consts']), frontend=FP)
    routine = Subroutine.from_source(unit_src(caller, uses=[('cmod', case['used'])]), frontend=FP, definitions=[mod])
    cmap = []
    for v in mod.variables:
        if v.type.parameter and v.type.initial is not None: cmap.append([v.name.lower(), B.structure(v.type.initial)])
    out = {'pre': from_loki(routine.body.body), 'cmap': cmap, 'vars_pre': _varnames(routine)}
    try:
        inline_constant_parameters(routine)
    except RecursionError:
        raise
    except Exception as e:
        out['error'] = type(e).__name__; return out
    out['post'] = from_loki(routine.body.body)
    out['undeclared'] = _undeclared(routine)
    out['fgen'] = fgen(routine)
    return out

# ------------------------------------------------------------------------------------------ Coq literals
def callee_model(c, body):
    args = c['args']
    arrays = c.get('arrays', {})
    params = [(d, d in arrays) for d in args]
    locals_ = [x for x in c.get('scalars', []) if x not in args]
    larrs = [a for a in arrays if a not in args]
    lbs = [(a, [int(l) for l, h in arrays[a]]) for a in arrays if a in args]
    return C('Build_callee', c['name'], params, locals_, larrs, lbs, M.stmts_model(body))

def lbc_model(caller):
    return [(a, [int(l) for l, h in dims]) for a, dims in caller.get('arrays', {}).items()]

def actual_model(a):
    if a[0] == 'sec':
        ds = []
        for d in a[2]:
            if d[0] == 'fix': ds.append(C('SdFix', B.model_of_structure(d[1])))
            else: ds.append(C('SdRange', None if d[1] is None else Some(int(d[1]))))
        return C('ASec', a[1], ds)
    return C('AExp', B.model_of_structure(a))

def has_sec(ss):
    for s in ss:
        if s[0] == 'call' and any(a[0] == 'sec' for a in s[2]): return True
        if s[0] == 'do' and has_sec(s[5]): return True
        if s[0] == 'while' and has_sec(s[2]): return True
        if s[0] == 'if' and (has_sec(s[2]) or has_sec(s[3])): return True
    return False

# ------------------------------------------------------------------------------------------ stores / comparison
def case_stores(case, n=4):
    rng = random.Random('c28-store/%s' % case.get('seed', 0))
    caller = case['caller']
    arrays = {a: [[int(l), int(h)] for l, h in dims] for a, dims in caller.get('arrays', {}).items()}
    scal = list(caller.get('scalars', []))
    return [M.gen_store(rng, scal, arrays) for _ in range(n)]

def _norm_store(st, names):
    out = {}
    for k in names:
        v = st.get(k, 0)
        out[k] = {i: x for i, x in v.items() if x != 0} if isinstance(v, dict) else v
    return out

def compare_runs(case, out, procs_pre, procs_post, extra_store=None, observe=None):
    """reference interpreter on the parsed original vs the transformed body, on several stores"""
    caller = case['caller']
    lbs = lbs_of_unit(caller)
    names = observe or (list(caller.get('scalars', [])) + list(caller.get('arrays', {})))
    done = 0
    for st in case_stores(case):
        if extra_store: st = dict(st, **extra_store)
        try:
            a = run_ref(out['pre'], copy.deepcopy(st), lbs, procs_pre)
        except Stuck:
            continue
        done += 1
        try:
            b = run_ref(out['post'], copy.deepcopy(st), lbs, procs_post)
        except Stuck as e:
            return 'transformed code fails (%s) where the original runs; store %s' % (e, _fmt_store(st))
        na, nb = _norm_store(a, names), _norm_store(b, names)
        if na != nb:
            diff = [k for k in names if na[k] != nb[k]]
            return 'different result for %s: original %s, inlined %s; initial store %s' % (
                diff, {k: na[k] for k in diff}, {k: nb[k] for k in diff}, _fmt_store(st))
    return None

def _fmt_store(st):
    return {k: ({','.join(map(str, i)): x for i, x in v.items()} if isinstance(v, dict) else v) for k, v in st.items()}

def gfortran_compare(case, out, orig_sources, extra_sources=()):
    """compile and run the original and fgen(transformed) with gfortran on two stores"""
    caller = case['caller']
    args = caller['args']
    if 'fgen' not in out: return None
    for st in case_stores(case, 2):
        st = {k: v for k, v in st.items() if k in args}
        spec = M.observe_spec(st)
        main = M.main_program(caller, st, spec)
        ok1, r1 = M.gfortran_run(list(orig_sources), main)
        if not ok1:
            if r1.startswith('compile'): return 'harness: original does not compile: ' + r1[-300:]
            continue           # run-time error in the original (e.g. division by zero): no statement
        ok2, r2 = M.gfortran_run(list(extra_sources) + [out['fgen']], main)
        if not ok2: return 'gfortran: transformed routine fails (%s) where the original runs' % r2[-400:].strip()
        if r1 != r2:
            return 'gfortran: outputs differ: original %s, inlined %s; store %s' % (r1.split(), r2.split(), _fmt_store(st))
    return None

# ------------------------------------------------------------------------------------------ generators
V = lambda n: ['var', n]
I = lambda n: ['int', n]

def evars(e, acc=None, arrs=None):
    """scalar variable names (acc) and array / function names (arrs) of an expression structure or actual"""
    acc = set() if acc is None else acc
    arrs = set() if arrs is None else arrs
    k = e[0]
    if k == 'var': acc.add(e[1])
    elif k in ('sum', 'prod', 'quot', 'pow'):
        for c in e[2:]: evars(c, acc, arrs)
    elif k == 'cmp':
        evars(e[2], acc, arrs); evars(e[3], acc, arrs)
    elif k in ('and', 'or', 'not'):
        for c in e[1:]: evars(c, acc, arrs)
    elif k == 'call':
        if e[1] not in M.INTRINSICS: arrs.add(e[1])
        for c in e[2:]: evars(c, acc, arrs)
    elif k == 'sec':
        arrs.add(e[1])
        for d in e[2]:
            if d[0] == 'fix': evars(d[1], acc, arrs)
    elif k == 'kw': evars(e[2], acc, arrs)
    return acc, arrs

def gen_stmts(rng, rs, ws, arrs, warrs, loopvars, depth=2, n=4, opts=None):
    """statements that read scalars `rs` (+ loop variables in scope) and arrays `arrs` {name: [(lo, hi)..]}, assign only
    scalars `ws` and arrays `warrs`; all subscripts are linear and within the declared bounds; divisors are non-zero"""
    o = {'if': 0.22, 'do': 0.28, 'store': 0.25, 'quot': 0.12, 'neg_step': 0.15, 'leafcall': None}
    o.update(opts or {})
    def idx1(lo, hi, loops):
        ch = rng.random()
        cands = []
        for (v, a, b) in loops:
            for c in (0, 1, -1):
                if lo <= a + c and b + c <= hi: cands.append((v, c))
        if cands and ch < 0.7:
            v, c = rng.choice(cands)
            if c == 0: return V(v)
            if c > 0: return ['sum', False, V(v), I(c)]
            return ['sum', False, V(v), ['prod', False, ['py', -1], I(-c)]]
        return I(rng.randint(lo, hi))
    def idx(a, loops): return [idx1(lo, hi, loops) for lo, hi in arrs[a]]
    def ex(d, loops):
        r = rng.random()
        names = list(rs) + [l[0] for l in loops]
        if d <= 0 or r < 0.3:
            c = rng.random()
            if o['leafcall'] and c < 0.25: return o['leafcall'](loops)
            if c < 0.3 or not names: return I(rng.randint(0, 5))
            if c < 0.8 or not arrs: return V(rng.choice(names))
            a = rng.choice(sorted(arrs)); return ['call', a] + idx(a, loops)
        if r < 0.55: return ['sum', False, ex(d - 1, loops), ex(d - 1, loops)]
        if r < 0.7: return ['sum', False, ex(d - 1, loops), ['prod', False, ['py', -1], ex(d - 1, loops)]]
        if r < 0.9 or rng.random() > o['quot']: return ['prod', False, ex(d - 1, loops), ex(d - 1, loops)]
        den = ex(d - 1, loops)
        return ['quot', False, ex(d - 1, loops), ['sum', True, ['prod', False, den, den], I(1)]]
    def cond(loops): return ['cmp', rng.choice(['<', '<=', '>', '>=', '==', '!=']), ex(1, loops), ex(1, loops)]
    def stmts(d, k, loops):
        out = []
        for _ in range(k):
            r = rng.random()
            if d > 0 and r < o['do'] and len(loops) < len(loopvars):
                v = loopvars[len(loops)]
                if warrs and rng.random() < 0.7:
                    a = rng.choice(sorted(warrs)); lo, hi = arrs[a][0]
                else: lo, hi = 1, rng.randint(1, 3)
                if rng.random() < 0.4 and hi - lo >= 1: hi -= 1
                if rng.random() < o['neg_step']:
                    hdr = (I(hi), I(lo), ['prod', False, ['py', -1], I(1)])
                else:
                    hdr = (I(lo), I(hi), None if rng.random() < 0.8 else I(1))
                out.append(['do', v, hdr[0], hdr[1], hdr[2], stmts(d - 1, rng.randint(1, 2), loops + [(v, lo, hi)])])
            elif d > 0 and r < o['do'] + o['if']:
                out.append(['if', cond(loops), stmts(d - 1, rng.randint(1, 2), loops), stmts(d - 1, rng.randint(0, 1), loops)])
            elif warrs and r < o['do'] + o['if'] + o['store']:
                a = rng.choice(sorted(warrs)); out.append(['store', a, idx(a, loops), ex(2, loops)])
            elif ws:
                out.append(['assign', rng.choice(ws), ex(2, loops)])
            elif warrs:
                a = rng.choice(sorted(warrs)); out.append(['store', a, idx(a, loops), ex(2, loops)])
        return out
    return stmts(depth, n, []), ex

CALLER_SC = ['x', 'y', 'z', 'n', 't', 'u', 'i', 'j']
CALLER_ARGS = ['x', 'y', 'z', 'n', 'a', 'b', 'c']

def base_caller():
    return {'name': 'caller', 'args': list(CALLER_ARGS), 'scalars': list(CALLER_SC),
            'arrays': {'a': [[1, 4]], 'b': [[1, 4]], 'c': [[0, 3]]},
            'intents': {k: 'inout' for k in CALLER_ARGS}, 'body': []}

def caller_filler(rng, k):
    if k <= 0: return []
    ss, _ = gen_stmts(rng, ['x', 'y', 'z', 'n', 't', 'u'], ['x', 'y', 'z', 't', 'u'], {'a': [(1, 4)], 'b': [(1, 4)], 'c': [(0, 3)]},
                      ['a', 'b', 'c'], ['i', 'j'], depth=1, n=k)
    return ss

def gen_callee(rng, name, taken=()):
    """a callee in the modelled class: read-only and written scalar dummies, array dummies, locals assigned before use"""
    spool = [s for s in ['p', 'q', 'r', 'x', 'y', 't', 'k', 'n', 'z'] if s not in taken]
    apool = ['v', 'w', 'a', 'b']
    rng.shuffle(spool); rng.shuffle(apool)
    ns = rng.randint(1, 3); na = rng.choice([0, 0, 1, 1, 2])
    sd = spool[:ns]; ad = apool[:na]
    roles = {d: rng.choice('rw') for d in sd}
    if all(r == 'r' for r in roles.values()) and na == 0: roles[sd[0]] = 'w'
    aroles = {d: rng.choice('rw') for d in ad}
    lpool = [s for s in ['s', 't', 'u', 'x', 'k', 'h'] if s not in sd]
    rng.shuffle(lpool)
    locs = lpool[:rng.randint(0, 2)]
    loopv = [v for v in rng.choice([['i', 'j'], ['i', 'l'], ['kk', 'l']]) if v not in sd and v not in locs]
    bounds = {}
    for d in ad:
        lo = rng.choice([1, 1, 0, 2]); bounds[d] = [[lo, lo + 3]]
    args = sd + ad
    rng.shuffle(args)
    rs = list(sd)
    init = []
    for l in locs:
        _, ex = gen_stmts(rng, rs, [], {d: [tuple(bounds[d][0])] for d in ad}, [], [], 0, 0)
        init.append(['assign', l, ex(1, [])]); rs = rs + [l]
    ws = [d for d in sd if roles[d] == 'w'] + locs
    warrs = [d for d in ad if aroles[d] == 'w']
    body, _ = gen_stmts(rng, rs, ws, {d: [tuple(bounds[d][0])] for d in ad}, warrs, loopv, depth=2, n=rng.randint(1, 4))
    used_loops = [v for v in loopv if has_loopvar(body, v)]
    u = {'name': name, 'args': args, 'scalars': sd + locs + used_loops, 'arrays': {d: bounds[d] for d in ad},
         'intents': dict([(d, 'inout' if roles[d] == 'w' else 'in') for d in sd] + [(d, 'inout' if aroles[d] == 'w' else 'in') for d in ad]),
         'body': init + body}
    if rng.random() < 0.45:
        cand = locs + used_loops
        up = [v for v in cand if rng.random() < 0.7]
        if up: u['upcase'] = up
    # a dummy declared 'w' may end up unwritten; recompute
    wset = written_scalars(u['body'])
    for d in sd: u['intents'][d] = 'inout' if d in wset else 'in'
    wa = written_arrays(u['body'])
    for d in ad: u['intents'][d] = 'inout' if d in wa else 'in'
    return u

def has_loopvar(ss, v):
    for s in ss:
        if s[0] == 'do' and (s[1] == v or has_loopvar(s[5], v)): return True
        if s[0] == 'while' and has_loopvar(s[2], v): return True
        if s[0] == 'if' and (has_loopvar(s[2], v) or has_loopvar(s[3], v)): return True
    return False

def written_scalars(ss, acc=None):
    acc = set() if acc is None else acc
    for s in ss:
        if s[0] == 'assign': acc.add(s[1])
        elif s[0] == 'do': acc.add(s[1]); written_scalars(s[5], acc)
        elif s[0] == 'while': written_scalars(s[2], acc)
        elif s[0] == 'if': written_scalars(s[2], acc); written_scalars(s[3], acc)
    return acc

def written_arrays(ss, acc=None):
    acc = set() if acc is None else acc
    for s in ss:
        if s[0] == 'store': acc.add(s[1])
        elif s[0] == 'do': written_arrays(s[5], acc)
        elif s[0] == 'while': written_arrays(s[2], acc)
        elif s[0] == 'if': written_arrays(s[2], acc); written_arrays(s[3], acc)
    return acc

def gen_actuals(rng, ce, loopvar=None, mode='in'):
    """actual arguments for one call; mode 'in': inside the modelled class; 'f10': an expression actual reads a variable the
    callee writes; returns None if no choice is possible"""
    sd = [d for d in ce['args'] if d not in ce['arrays']]
    ad = [d for d in ce['args'] if d in ce['arrays']]
    wsd = [d for d in sd if ce['intents'][d] == 'inout']
    wad = [d for d in ad if ce['intents'][d] == 'inout']
    cand_w = ['x', 'y', 'z', 't', 'u']; rng.shuffle(cand_w)
    if len(wsd) > len(cand_w): return None
    act = {}
    for d, v in zip(wsd, cand_w): act[d] = V(v)
    wvars = set(v[1] for v in act.values())
    arrs = ['a', 'b', 'c']; rng.shuffle(arrs)
    for d, a in zip(wad, arrs): act[d] = V(a)
    warr = set(act[d][1] for d in wad)
    free_arr = [a for a in ['a', 'b', 'c'] if a not in warr]
    for d in ad:
        if d in act: continue
        if not free_arr: return None
        act[d] = V(rng.choice(free_arr))
    dnames = set(ce['args'])
    rvars = [v for v in ['x', 'y', 'z', 'n', 't', 'u'] + ([loopvar] if loopvar else []) if v not in wvars]
    for d in sd:
        if d in act: continue
        r = rng.random()
        pool = rvars if mode != 'f10' or not wvars else sorted(wvars)
        if not pool: return None
        if mode == 'f10' and wvars:
            act[d] = ['sum', False, V(rng.choice(pool)), I(rng.randint(1, 3))]; mode = 'in'
        elif r < 0.45: act[d] = V(rng.choice(pool))
        elif r < 0.6: act[d] = I(rng.randint(0, 4))
        elif r < 0.75 and free_arr:
            a = rng.choice(free_arr); lo = 0 if a == 'c' else 1
            act[d] = ['call', a, I(rng.randint(lo, lo + 3)) if not loopvar or rng.random() < 0.5 else V(loopvar)]
            if act[d][2][0] == 'var' and a == 'c': act[d][2] = ['sum', False, V(loopvar), ['prod', False, ['py', -1], I(1)]]
        else:
            k = rng.random()
            x1, x2 = V(rng.choice(pool)), V(rng.choice(pool))
            act[d] = ['sum', False, x1, I(rng.randint(1, 3))] if k < 0.4 else (['prod', False, I(2), x1] if k < 0.6 else ['sum', False, x1, ['prod', False, ['py', -1], x2]])
    # no capture: a name in an actual that is also a dummy must be mapped to itself
    for d, a in act.items():
        sv_, av_ = evars(a)
        plain = a[0] == 'var'
        for nm in sv_ | av_:
            if nm in dnames and act.get(nm) != V(nm):
                if plain and not ad: continue
                return None
    return [act[d] for d in ce['args']]

def with_keywords(rng, ce, actuals):
    if rng.random() > 0.3 or len(actuals) < 2: return actuals
    k = rng.randint(0, len(actuals) - 1)
    rest = [['kw', d, a] for d, a in zip(ce['args'][k:], actuals[k:])]
    rng.shuffle(rest)
    return actuals[:k] + rest

def gen_sub_case(rng, n, tier, mode=None):
    mode = mode or rng.choice(['internal', 'internal', 'marked'])
    for _ in range(50):
        caller = base_caller()
        f = gen_callee(rng, 'f')
        callees = [f]
        wrap = rng.random()
        loopvar = 'i' if wrap > 0.8 else None
        acts = gen_actuals(rng, f, loopvar)
        if acts is None: continue
        kw = with_keywords if mode == 'internal' else (lambda r, c, a: a)     # keywords need an explicit interface
        call = ['call', 'f', kw(rng, f, acts)]
        mark = [['pragma', 'loki inline']] if mode == 'marked' else []
        if wrap < 0.6: mid = mark + [call]
        elif wrap <= 0.8: mid = [['if', ['cmp', rng.choice(['<', '>', '!=']), V(rng.choice(['x', 'y', 'n'])), I(rng.randint(0, 2))], mark + [call], []]]
        else: mid = [['do', 'i', I(1), I(2), None, mark + [call]]]
        body = [['assign', 't', I(rng.randint(0, 3))], ['assign', 'u', I(rng.randint(0, 3))]] + caller_filler(rng, rng.randint(0, 2)) + mid
        if rng.random() < 0.3:
            acts2 = gen_actuals(rng, f, None)
            if acts2 is not None: body += caller_filler(rng, rng.randint(0, 1)) + mark + [['call', 'f', acts2]]
        if rng.random() < 0.25:
            g = gen_callee(rng, 'g')
            acts3 = gen_actuals(rng, g, None)
            if acts3 is not None:
                callees.append(g); body += mark + [['call', 'g', kw(rng, g, acts3)]]
        body += caller_filler(rng, rng.randint(0, 2))
        caller['body'] = body
        if rng.random() < 0.2 and not any(c.get('upcase') for c in callees):
            caller['upcase'] = [v for v in ['t', 'u', 'i', 'x'] if rng.random() < 0.6] or ['t']
        return {'kind': 'sub-' + mode, 'mode': mode, 'cls': 'in', 'caller': caller, 'callees': callees, 'seed': n,
                'gf': n % (3 if tier == 'thorough' else 16) == 0}
    raise RuntimeError('generator failed')

def gen_edge_case(rng, n):
    """outside the class (tie only): F10-like expression actuals; an expression bound to a written dummy"""
    for _ in range(80):
        caller = base_caller()
        f = gen_callee(rng, 'f')
        sd = [d for d in f['args'] if d not in f['arrays']]
        if rng.random() < 0.7:
            acts = gen_actuals(rng, f, None, mode='f10')
            if acts is None or not any(a[0] == 'sum' for a in acts): continue
            kind = 'edge-expr-actual'
        else:
            acts = gen_actuals(rng, f, None)
            wsd = [d for d in sd if f['intents'][d] == 'inout']
            if acts is None or not wsd: continue
            k = f['args'].index(rng.choice(wsd))
            if acts[k][1] in f['args']: continue          # no capture (F10c) in the edge stream either
            acts[k] = ['sum', False, acts[k], I(1)]
            kind = 'edge-expr-lhs'
        caller['body'] = [['assign', 't', I(1)], ['assign', 'u', I(2)], ['call', 'f', acts]] + caller_filler(rng, 1)
        return {'kind': kind, 'mode': 'internal', 'cls': 'edge', 'caller': caller, 'callees': [f], 'seed': n, 'gf': False}
    raise RuntimeError('generator failed')

# ---- array sections / lower-bound offsets -------------------------------------------------------------
def loki_offsets(Lv, Ld, dims):
    """python mirror of M_C28.loki_tmpl (only used to classify generated cases)"""
    def off(i):
        d = dims[i] if i < len(dims) else ['fix', None]
        lv = Lv[i] if i < len(Lv) else 1
        ld = Ld[i] if i < len(Ld) else 1
        if d[0] == 'rng' and d[1] is not None and d[1] != 0: return d[1] - ld
        return lv - ld
    out, r = [], 0
    for d in dims:
        if d[0] == 'fix': out.append(None)
        else: out.append(off(r)); r += 1
    return out

def true_offsets(Lv, Ld, dims):
    out, r = [], 0
    for p, d in enumerate(dims):
        if d[0] == 'fix': out.append(None)
        else:
            out.append((Lv[p] if d[1] is None else d[1]) - Ld[r]); r += 1
    return out

def gen_dims_case(rng, n, tier, want_in=True):
    for _ in range(200):
        L1, L2, Lc = rng.choice([1, 0, 1, -1, 2]), rng.choice([1, 0, 1, 2]), rng.choice([1, 0, -2, 1])
        caller = {'name': 'caller', 'args': ['x', 'y', 'n', 'm', 'c'], 'scalars': ['x', 'y', 'n', 't', 'jj', 'i'],
                  'arrays': {'m': [[L1, L1 + 3], [L2, L2 + 2]], 'c': [[Lc, Lc + 5]]},
                  'intents': {k: 'inout' for k in ['x', 'y', 'n', 'm', 'c']}, 'body': []}
        rank = rng.choice([1, 1, 1, 2])
        Ld = [rng.choice([1, 1, 0, 2]) for _ in range(rank)]
        if rank == 1:
            form = rng.choice(['c-sec', 'c-sec', 'c-lo', 'c-whole', 'm-col', 'm-col-sec', 'm-row'])
            if form == 'c-sec':
                lo = rng.randint(Lc, Lc + 2); size = 4; act = ['sec', 'c', [['rng', lo, lo + 3]]]
            elif form == 'c-lo':
                lo = rng.randint(Lc, Lc + 2); size = 4; act = ['sec', 'c', [['rng', lo, None]]]
            elif form == 'c-whole':
                size = 6; act = V('c')
            elif form == 'm-col':
                size = 4; act = ['sec', 'm', [['rng', None, None], ['fix', rng.choice([I(L2 + 1), V('jj')])]]]
            elif form == 'm-col-sec':
                lo = rng.randint(L1, L1 + 1); size = 3; act = ['sec', 'm', [['rng', lo, lo + 2], ['fix', I(L2)]]]
            else:
                size = 3; act = ['sec', 'm', [['fix', rng.choice([I(L1 + 2), V('jj')])], ['rng', None, None]]]
            bounds = [[Ld[0], Ld[0] + size - 1]]
        else:
            form = rng.choice(['m-whole', 'm-sec'])
            if form == 'm-whole': act = V('m'); bounds = [[Ld[0], Ld[0] + 3], [Ld[1], Ld[1] + 2]]
            else:
                lo = rng.randint(L1, L1 + 1); act = ['sec', 'm', [['rng', lo, lo + 2], ['rng', None, None]]]
                bounds = [[Ld[0], Ld[0] + 2], [Ld[1], Ld[1] + 2]]
        arrname = act[1]
        Lv = [l for l, h in caller['arrays'][arrname]]
        dims = act[2] if act[0] == 'sec' else [['rng', None, None]] * len(Lv)
        inclass = loki_offsets(Lv, Ld, dims) == true_offsets(Lv, Ld, dims)
        if inclass != want_in: continue
        body, _ = gen_stmts(rng, ['p'], ['q', 's'], {'v': [tuple(b) for b in bounds]}, ['v'], ['k', 'l'], depth=2, n=rng.randint(2, 4),
                            opts={'store': 0.5, 'if': 0.1})
        f = {'name': 'f', 'args': ['p', 'v', 'q'], 'scalars': ['p', 'q', 's'] + [v for v in ['k', 'l'] if has_loopvar(body, v)],
             'arrays': {'v': bounds}, 'intents': {'p': 'in', 'v': 'inout', 'q': 'inout'},
             'body': [['assign', 's', V('p')]] + body}
        pre = [['assign', 'jj', I(rng.randint(L2, L2 + 2) if form in ('m-col',) else rng.randint(L1, L1 + 3))], ['assign', 't', I(1)]]
        call = ['call', 'f', [rng.choice([V('n'), ['sum', False, V('n'), I(1)], I(2)]), act, V(rng.choice(['x', 'y']))]]
        post = [['assign', 't', ['sum', False, V('t'), V('x')]]]
        caller['body'] = pre + [call] + post
        return {'kind': 'dims-' + form + ('' if inclass else '-edge'), 'mode': 'internal', 'cls': 'in' if inclass else 'edge', 'caller': caller,
                'callees': [f], 'seed': n, 'gf': inclass and n % (2 if tier == 'thorough' else 8) == 0, 'ncall': len(pre)}
    return None

# ---- statement functions, constants, functions ---------------------------------------------------------
def gen_sf_case(rng, n, tier, pq=False):
    """pq: the caller also uses the statement-function dummies p, q as ordinary variables (legal; Loki then drops their
    declarations, F10h, so only the behaviour is compared for these cases)"""
    caller = {'name': 'caller', 'args': ['x', 'y', 'z', 'a'], 'scalars': ['x', 'y', 'z', 't', 'i', 'p', 'q', 'sf1', 'sf2'],
              'arrays': {'a': [[1, 4]]}, 'intents': {k: 'inout' for k in ['x', 'y', 'z', 'a']}, 'body': []}
    _, ex0 = gen_stmts(rng, ['p', 'q'] + (['z'] if rng.random() < 0.3 else []), [], {}, [], [], 0, 0, opts={'quot': 0.3})
    b0 = ex0(2, [])
    if b0[0] in ('var', 'int'): b0 = ['sum', False, b0, I(rng.randint(1, 3))]      # a bare variable as body crashes Loki (finding)
    sf1 = {'name': 'sf1', 'params': ['p', 'q'], 'body': b0}
    sfs = [sf1]
    pn = rng.choice(['p', 'q'])          # the parameter of sf2 may have the name of a parameter of sf1 (simultaneous substitution)
    def leaf1(loops):
        _, e = gen_stmts(rng, [pn], [], {}, [], [], 0, 0)
        return ['call', 'sf1', e(1, []), e(1, [])]
    if rng.random() < 0.5:
        _, ex1 = gen_stmts(rng, [pn], [], {}, [], [], 0, 0, opts={'leafcall': leaf1})
        b = ex1(2, [])
        if b[0] in ('call', 'var', 'int'): b = ['sum', False, b, I(1)]
        sfs.append({'name': 'sf2', 'params': [pn], 'body': b})
    names = [s['name'] for s in sfs]
    def leaf(loops):
        nm = rng.choice(names)
        _, e = gen_stmts(rng, ['x', 'y', 'z', 't'] + (['p', 'q', 'q'] if pq else []) + [l[0] for l in loops], [], {'a': [(1, 4)]}, [], [], 0, 0)
        k = 2 if nm == 'sf1' else 1
        args = [e(1, loops) for _ in range(k)]
        if rng.random() < 0.2: args[0] = ['call', 'sf1', V('y'), args[0]]
        return ['call', nm] + args
    body, _ = gen_stmts(rng, ['x', 'y', 'z', 't'], ['x', 'y', 'z', 't'], {'a': [(1, 4)]}, ['a'], ['i'], depth=2, n=rng.randint(2, 4),
                        opts={'leafcall': leaf})
    caller['body'] = [['assign', 't', I(rng.randint(0, 3))]] + ([['assign', 'p', I(rng.randint(-2, 3))], ['assign', 'q', I(rng.randint(-2, 3))]] if pq else []) + body
    if 'sf2' not in names: caller['scalars'].remove('sf2')
    if pq:
        return {'kind': 'stmtfunc-pq', 'cls': 'in', 'nodecl': True, 'caller': caller, 'stmtfuncs': sfs, 'seed': n, 'gf': False}
    return {'kind': 'stmtfunc', 'cls': 'in', 'caller': caller, 'stmtfuncs': sfs, 'seed': n, 'gf': n % (3 if tier == 'thorough' else 12) == 0}

def gen_const_case(rng, n, tier):
    nc = rng.randint(1, 3)
    consts = []
    for k in range(nc):
        r = rng.random()
        init = I(rng.randint(0, 4)) if r < 0.7 else ['sum', False, I(rng.randint(0, 3)), I(rng.randint(1, 2))]
        consts.append({'name': 'kc%d' % (k + 1), 'init': init})
    cn = [c['name'] for c in consts]
    caller = {'name': 'caller', 'args': ['x', 'y', 'z', 'a'], 'scalars': ['x', 'y', 'z', 't', 'i'],
              'arrays': {'a': [[0, 6]]}, 'intents': {k: 'inout' for k in ['x', 'y', 'z', 'a']}, 'body': []}
    body, _ = gen_stmts(rng, ['x', 'y', 'z', 't'] + cn + cn, ['x', 'y', 'z', 't'], {'a': [(1, 4)]}, ['a'], ['i'], depth=2, n=rng.randint(2, 5))
    if rng.random() < 0.5:
        body.append(['store', 'a', [V(rng.choice(cn))], V(rng.choice(cn))])
    if rng.random() < 0.4:
        body.append(['do', 'i', I(0), V(rng.choice(cn)), None, [['assign', 'y', ['sum', False, V('y'), V('i')]]]])
    caller['body'] = [['assign', 't', I(1)]] + body
    used = set()
    for s in [json.dumps(caller['body'])]:
        for c in cn:
            if '"%s"' % c in s: used.add(c)
    if not used:
        caller['body'].append(['assign', 'x', V(cn[0])]); used.add(cn[0])
    return {'kind': 'const', 'cls': 'in', 'caller': caller, 'consts': consts, 'used': sorted(used), 'seed': n,
            'gf': n % (3 if tier == 'thorough' else 12) == 0}

def gen_fn_case(rng, n, tier):
    mode = rng.choice(['member', 'member', 'elemental'])
    caller = {'name': 'caller', 'args': ['x', 'y', 'z', 'a'], 'scalars': ['x', 'y', 'z', 't', 'u', 'i'],
              'arrays': {'a': [[1, 4]]}, 'intents': {k: 'inout' for k in ['x', 'y', 'z', 'a']}, 'body': []}
    sd = rng.sample(['p', 'q', 'pp'], rng.randint(1, 2))     # disjoint from caller names: actuals are expressions (capture, F10c)
    locs = rng.sample([l for l in ['s', 't', 'u', 'h'] if l not in sd], rng.randint(0, 2))
    rs = list(sd); init = []
    for l in locs:
        _, e = gen_stmts(rng, rs, [], {}, [], [], 0, 0)
        init.append(['assign', l, e(1, [])]); rs.append(l)
    mid, ex = gen_stmts(rng, rs, locs, {}, [], ['k'], depth=1, n=rng.randint(0, 2) if locs else 0)
    g = {'name': 'g', 'kind': 'function', 'args': sd, 'scalars': sd + locs + (['k'] if has_loopvar(mid, 'k') else []), 'arrays': {},
         'intents': {d: 'in' for d in sd}, 'body': init + mid + [['assign', 'g', ex(2, [])]]}
    if locs and rng.random() < 0.4: g['upcase'] = [v for v in locs if rng.random() < 0.7] or [locs[0]]
    def gcall(loops):
        _, e = gen_stmts(rng, ['x', 'y', 'z', 't'] + [l[0] for l in loops], [], {'a': [(1, 4)]}, [], [], 0, 0)
        return ['call', 'g'] + [e(1, loops) for _ in sd]
    body = [['assign', 't', I(rng.randint(0, 3))], ['assign', 'u', I(1)]]
    for _ in range(rng.randint(1, 3)):
        r = rng.random()
        _, e = gen_stmts(rng, ['x', 'y', 'z', 't', 'u'], [], {'a': [(1, 4)]}, [], [], 0, 0)
        one = rng.choice([gcall([]), ['sum', False, gcall([]), e(1, [])], ['prod', False, I(2), gcall([])], ['sum', False, e(1, []), ['prod', False, ['py', -1], gcall([])]]])
        if r < 0.5: body.append(['assign', rng.choice(['x', 'y', 'z', 't']), one])
        elif r < 0.65: body.append(['store', 'a', [I(rng.randint(1, 4))], one])
        elif r < 0.85: body.append(['if', ['cmp', rng.choice(['<', '>']), one, I(rng.randint(0, 4))], [['assign', 'y', ['sum', False, V('y'), I(1)]]], []])
        else: body.append(['do', 'i', I(1), I(3), None, [['assign', 'z', ['sum', False, V('z'), ['call', 'g'] + [V('i') if k == 0 else V('x') for k in range(len(sd))]]]]])
        body += caller_filler2(rng)
    caller['body'] = body
    return {'kind': 'fn-' + mode, 'mode': mode, 'cls': 'in', 'caller': caller, 'callees': [g], 'seed': n, 'gf': n % (3 if tier == 'thorough' else 12) == 0}

def caller_filler2(rng):
    if rng.random() < 0.5: return []
    ss, _ = gen_stmts(rng, ['x', 'y', 'z', 't', 'u'], ['x', 'y', 'z', 't', 'u'], {'a': [(1, 4)]}, ['a'], [], depth=1, n=1, opts={'do': 0})
    return ss

# ------------------------------------------------------------------------------------------ the property
class C28(Property):
    id = 'C28'
    imports = ['Base.Expr', 'Base.MiniF', 'models.M_C28']
    theorem_file = 'theories/props/T_C28.v'
    parallel = True
    shard = 60
    rule = ('seeded caller/callee pairs printed to Fortran and parsed by the real frontend: (sub-internal / sub-marked) callees with read-only and '
            'written scalar dummies, whole-array dummies with equal or shifted lower bounds, locals that clash with caller names (also only up to letter case: mixed-case source spellings), loops, '
            'conditionals, positional and keyword actuals (variables, expressions, array elements), one or two calls and one or two callees, the '
            'call at top level or inside IF/DO; (dims-*) array-section actuals and lower-bound offsets; (stmtfunc) nested statement functions; '
            '(const) module parameters; (fn-*) member and elemental functions, one call per node; (edge-*) a small stream outside the proved class '
            '(model tie only).  A case is non-trivial when the transformation changed the body; distinct = distinct (kind, program).')
    modelled_not_verified = [
        'array-section actuals (m(j,:), c(2:5)): template substitution is modelled and tied, the index arithmetic is proved (dim_map_correct), behavioural equivalence is only tested',
        'function inlining (inline_functions): modelled (and tied) as inlining of the function seen as a subroutine with the result variable as last dummy, prepended to the node; the reading "x = E[g(a)] means call g_sub(a, result_g); x = E[result_g]" is an assumption, behaviour is tested only',
        'whole caller bodies: the theorem (C28_inline_body_tied_preserves) covers one callee, equal declared lower bounds, forward direction; lower-bound offsets are proved for a single call only; the iteration over several callees (inline_all) is tied, not proved',
        'keyword arguments are made positional by the harness; OPTIONAL/PRESENT, derived types, ASSOCIATE, sequence association, import adjustment, declaration hoisting order are not modelled',
        'Fortran front end / fgen round trip, the harness reference interpreter (by-reference argument association) and gfortran are trusted for the oracle only']

    # ---- generation
    def generate(self, rng, tier):
        T = tier == 'thorough'
        n = 0
        plan = [('sub', 500 if T else 160), ('edge', 40 if T else 16), ('dims', 150 if T else 40), ('dims-edge', 30 if T else 8),
                ('sf', 120 if T else 36), ('const', 100 if T else 28), ('fn', 160 if T else 48)]
        for what, cnt in plan:
            for _ in range(cnt):
                n += 1
                sub = random.Random(rng.getrandbits(64))
                seed = sub.getrandbits(32)
                if what == 'sub': c = gen_sub_case(sub, seed, tier)
                elif what == 'edge': c = gen_edge_case(sub, seed)
                elif what == 'dims': c = gen_dims_case(sub, seed, tier, True)
                elif what == 'dims-edge': c = gen_dims_case(sub, seed, tier, False)
                elif what == 'sf': c = gen_sf_case(sub, seed, tier, pq=(n % 3 == 0))
                elif what == 'const': c = gen_const_case(sub, seed, tier)
                else: c = gen_fn_case(sub, seed, tier)
                if c is not None: yield c

    @staticmethod
    def family(case):
        k = case['kind']
        if k.startswith('sub') or k.startswith('edge') or k.startswith('dims'): return 'sub'
        if k.startswith('fn'): return 'fn'
        if k.startswith('stmtfunc'): return 'stmtfunc'
        return k

    # ---- implementation
    def run_impl(self, case):
        fam = self.family(case)
        if fam == 'sub': return run_sub(case)
        if fam == 'fn': return run_fn(case)
        if fam == 'stmtfunc': return run_sf(case)
        if fam == 'const': return run_const(case)
        raise ValueError(case['kind'])

    # ---- model
    def model_term(self, case, out):
        if '__exception__' in out: return None
        fam = self.family(case)
        caller = case['caller']
        if fam in ('sub', 'fn'):
            if any(has_kind(b, ('return',)) for b in out['callee_bodies']) or has_kind(out['pre'], ('return',)): return None
            cvars = out['vars_pre']
            lbc = lbc_model(caller)
            ces = [callee_model(c, b) for c, b in zip(case['callees'], out['callee_bodies'])]
        if fam == 'sub':
            pre = out['pre']
            if has_sec(pre):
                k = case['ncall']
                call = pre[k]
                if 'error' in out: return None
                return coq(C('chk_inline_src', cvars, lbc, ces[0], [actual_model(a) for a in call[2]],
                             M.stmts_model(pre[:k]), M.stmts_model(pre[k + 1:]), M.stmts_model(out['post'])))
            if 'error' in out:
                return coq(C('chk_inline_none', cvars, lbc, ces, M.stmts_model(pre)))
            return coq(C('chk_inline', cvars, lbc, ces, M.stmts_model(pre), M.stmts_model(out['post']), out['newvars']))
        if 'error' in out: return 'false'
        if fam == 'fn':
            return coq(C('chk_fn', cvars, lbc, ces[0], M.stmts_model(out['pre']), M.stmts_model(out['post']), out['newvars']))
        if fam == 'stmtfunc':
            defs = [(d['name'], C('Build_sfdef', d['params'], B.model_of_structure(d['body']))) for d in out['defs']]
            return coq(C('chk_sf', defs, M.stmts_model(out['pre']), M.stmts_model(out['post'])))
        if fam == 'const':
            cmap = [(k, B.model_of_structure(v)) for k, v in out['cmap']]
            return coq(C('chk_const', cmap, M.stmts_model(out['pre']), M.stmts_model(out['post'])))
        return None

    def show_model(self, case, out):
        fam = self.family(case)
        if fam == 'sub' and 'post' in out and not has_sec(out['pre']):
            cvars = out['vars_pre']; lbc = lbc_model(case['caller'])
            ces = [callee_model(c, b) for c, b in zip(case['callees'], out['callee_bodies'])]
            return ['inline_all %s %s %s %s' % (coq(cvars), coq(lbc), coq(ces), coq(M.stmts_model(out['pre'])))]
        return []

    # ---- oracle
    def oracle(self, case, out):
        if '__exception__' in out:
            return 'inlining raised %s: %s' % (out['__exception__'], out.get('msg', '')[:200])
        if case.get('cls') == 'edge': return None
        if 'error' in out: return 'inlining failed / produced a non-statement: %s' % out['error']
        if out.get('undeclared') and not case.get('nodecl'):
            return 'transformed routine uses undeclared names %s (does not compile)' % out['undeclared']
        fam = self.family(case)
        caller = case['caller']
        if fam in ('sub', 'fn'):
            procs = _procs_from(case['callees'], out['callee_bodies'])
            r = compare_runs(case, out, procs, procs)
            if r: return r
            if case.get('gf'):
                srcs = [unit_src(c) for c in case['callees']]
                if fam == 'sub':
                    orig = [unit_src(caller, contains=case['callees'])] if case['mode'] == 'internal' else srcs + [unit_src(caller)]
                    return gfortran_compare(case, out, orig, [] if case['mode'] == 'internal' else srcs)
                g = case['callees'][0]
                if case['mode'] == 'member': return gfortran_compare(case, out, [unit_src(caller, contains=[g])])
                msrc = 'module fmod\n  implicit none\ncontains\n' + unit_src(g).replace('function %s(' % g['name'], 'elemental function %s(' % g['name'], 1) + '\nend module fmod'
                return gfortran_compare(case, out, [msrc, unit_src(caller, uses=[('fmod', [g['name']])])], [msrc])
        if fam == 'stmtfunc':
            procs = {d['name']: {'name': d['name'], 'kind': 'function', 'host': True, 'args': d['params'], 'arrays': {},
                                 'body': [['assign', d['name'], d['body']]]} for d in out['defs']}
            obs = [x for x in caller['scalars'] if x not in procs and x not in ('p', 'q')] + list(caller['arrays'])
            r = compare_runs(case, out, procs, {}, observe=obs)
            if r: return r
            if case.get('gf'): return gfortran_compare(case, out, [unit_src(caller, stmtfuncs=case['stmtfuncs'])])
        if fam == 'const':
            vals = {}
            for k, v in out['cmap']:
                vals[k] = RefInterp({}).ev(v, {n_: Box(x) for n_, x in vals.items()})
            r = compare_runs(case, out, {}, {}, extra_store=vals, observe=list(caller['scalars']) + list(caller['arrays']))
            if r:
                return r
            # the transformed body must not depend on the (removed) imports
            r = self._const_independent(case, out, vals)
            if r: return r
            if case.get('gf'):
                msrc = const_module_src(case['consts'])
                return gfortran_compare(case, out, [msrc, unit_src(caller, uses=[('cmod', case['used'])])], [msrc])
        return None

    def _const_independent(self, case, out, vals):
        caller = case['caller']
        lbs = lbs_of_unit(caller)
        names = list(caller['scalars']) + list(caller['arrays'])
        for st in case_stores(case, 2):
            try:
                a = run_ref(out['pre'], dict(copy.deepcopy(st), **vals), lbs, {})
                b = run_ref(out['post'], copy.deepcopy(st), lbs, {})
            except Stuck:
                continue
            if _norm_store(a, names) != _norm_store(b, names):
                return 'inlined body still depends on a module parameter whose import was removed; store %s' % _fmt_store(st)
        return None

    def nontrivial_key(self, case, out):
        if case.get('cls') == 'edge' or 'post' not in out or out['post'] == out['pre']: return None
        return (case['kind'], json.dumps(out['pre'], sort_keys=True), json.dumps(out.get('callee_bodies', out.get('defs', out.get('cmap'))), sort_keys=True))

    def search(self, rng, bad_cases):
        seen = set()
        for c in bad_cases[:6]:
            fam = c['kind'].split('-')[0]
            if fam in seen: continue
            seen.add(fam)
            for _ in range(60):
                sub = random.Random(rng.getrandbits(64)); seed = sub.getrandbits(32)
                if fam in ('sub', 'edge'): yield gen_sub_case(sub, seed, 'quick', c.get('mode'))
                elif fam == 'dims':
                    d = gen_dims_case(sub, seed, 'quick', True)
                    if d: yield d
                elif fam == 'stmtfunc': yield gen_sf_case(sub, seed, 'quick', pq=(c['kind'] == 'stmtfunc-pq'))
                elif fam == 'const': yield gen_const_case(sub, seed, 'quick')
                elif fam == 'fn': yield gen_fn_case(sub, seed, 'quick')

PROP = C28
