"""C18 — pickling round-trip preserves program units.

Cases (all: ``pickle.loads(pickle.dumps(x))`` of real Loki objects built by the fparser frontend)
-----
* ``pickle``      : in-class units — stand-alone routines and whole modules (parameters, variables, derived types, imports,
                    module procedures calling each other, nested ASSOCIATE blocks) WITHOUT member procedures inside routines.
                    Oracle: ``==``, fgen text, every pointer of the loaded object stays inside the loaded object, parents follow the
                    tree, every IR symbol is attached and reads the same type.  Tie: extracted scope graph of the loaded
                    object == model output on the extracted original.
* ``pickle-edit`` : the same after real transformations that add / remove / rename symbols (then the edited unit is pickled).
* ``pickle-out``  : out-of-class inputs — routines with member procedures (host association), module procedures / members pickled
                    on their own; tie only (the model reproduces what is lost).
* ``pickle-file`` : Sourcefile objects with several units.
The pickle byte protocol itself is not modelled.
"""
import json, pickle
from ..framework import Property
from . import c17
from .c17 import sg, flat, graph_ids, graph_refs, strip_types, all_types, unit_lit, otys_lit, SrcGen, D, CTX0, FOREIGN0, find_unit, unit_paths


def canon_foreign(g):
    """scope objects that are neither in the loaded unit nor known: one label (detached copies)"""
    def f(r):
        return -1 if isinstance(r, int) and FOREIGN0 <= r < D else r
    for x in flat(g):
        x['parent'] = f(x['parent'])
        x['occ'] = [[n, f(r)] for n, r in x['occ']]
        for e in x['tab']:
            if e[2]: e[2] = [e[2][0], f(e[2][1])]
            e[3] = [[n, f(r), fl] for n, r, fl in e[3]]
    return g

def unit_lit18(t):
    """literal of the LOADED unit: explicit options, so that the detached-copy label (-1) is a real id and not 'no scope'"""
    def opt(r):
        return 'None' if r is None else '(Some (%d))' % r
    KIND_C = c17.KIND_C
    if t['kind'] not in KIND_C:
        raise ValueError('scope kind %s is outside the model' % t['kind'])
    def entry(tag, link, trefs):
        if link is None: lk = 'LNone'
        elif link[0] == 'proc': lk = '(LProc (%d))' % link[1]
        else: lk = '(LType (%d))' % link[1]
        trs = ';'.join('Build_tref %s %s %s' % (c17.q(n), opt(r), 'true' if b else 'false') for n, r, b in trefs)
        return '(Build_entry %d %s [%s])' % (tag, lk, trs)
    tab = ';'.join('(%s,%s)' % (c17.q(k), entry(tag, link, trefs)) for k, tag, link, trefs in t['tab'])
    occ = ';'.join('Build_occ %s %s' % (c17.q(n), opt(r)) for n, r in t['occ'])
    ch = ';'.join(unit_lit18(c) for c in t['nodes'] + t['members'])
    return '(Unit %d %s %s %s [%s] [%s] [%s])' % (t['id'], KIND_C[t['kind']], c17.q(t['name']), opt(t['parent']), tab, occ, ch)


class C18(Property):
    id = 'C18'
    imports = ['models.M_C17', 'models.M_C18']
    theorem_file = 'theories/props/T_C18.v'
    parallel = True
    shard = 60
    prelude = 'Open Scope string_scope.'
    rule = ('generated Fortran sources (the C17 grammar: modules with parameters/variables/derived types/imports and module procedures, '
            'stand-alone routines, nested ASSOCIATE, DO/IF, intrinsic and sibling calls; optionally member procedures with host association) '
            'parsed by the fparser frontend; the chosen object (Subroutine / Module / Sourcefile; optionally after 1-4 real transformations '
            'that add, remove, rename or retype symbols) goes through pickle.dumps/loads; the extracted scope graph of the original is the model '
            'input and the extracted graph of the loaded object must equal the model output; non-trivial: at least two scope objects or an '
            'ASSOCIATE/derived type/procedure pointer; distinct = distinct (source, target, edits)')
    modelled_not_verified = [
        'the pickle byte protocol (memoisation of shared objects, reduce/getinitargs machinery of pymbolic) is not modelled: getstate/setstate '
        'describe the object graph that is written and what the __setstate__ hooks rebuild',
        'symbol-table entries are abstracted as in C17 (tag of the canonical attribute text, procedure/typedef pointer, embedded symbols)',
        'expression kinds whose pickling fails outright (Cast) and interface / statement-function scopes are outside the model (known findings)',
    ]

    # -- generation ----------------------------------------------------------------------------------------------------
    def gen_src(self, rng, what, members):
        g = SrcGen(rng, leaky=True, module_is_target=(what == 'module'))
        g.members = members
        g.self_shadow = False     # rescoping mis-attaches self-referencing ASSOCIATE selectors (C17 finding), not a pickling matter
        return g.standalone('s') if what == 'standalone' else g.module('m')[0]

    def generate(self, rng, tier):
        n = 130 if tier == 'quick' else 800
        for i in range(n):
            what = rng.choice(['module', 'module', 'standalone'])
            yield {'kind': 'pickle', 'src': self.gen_src(rng, what, False), 'what': what, 'sel': rng.randrange(1 << 20), 'edits': []}
        for i in range(n // 3):
            what = rng.choice(['module', 'standalone'])
            edits = [[rng.choice(['rename', 'dropvar', 'prepend', 'adddecl', 'dropstmt']), rng.randrange(1 << 20), rng.randrange(1 << 20)]
                     for _ in range(rng.randint(1, 4))]
            yield {'kind': 'pickle-edit', 'src': self.gen_src(rng, what, False), 'what': what, 'sel': rng.randrange(1 << 20), 'edits': edits}
        for i in range(n // 2):
            what = rng.choice(['module', 'standalone', 'routine', 'member'])
            yield {'kind': 'pickle-out', 'src': self.gen_src(rng, what, True), 'what': what, 'sel': rng.randrange(1 << 20), 'edits': []}
        for i in range(n // 4):
            src = self.gen_src(rng, 'module', False).replace('module m', 'module m1') + self.gen_src(rng, 'standalone', False).replace(' s(', ' s1(').replace('subroutine s\n', 'subroutine s1\n')
            if rng.random() < 0.5:
                src += self.gen_src(rng, 'module', False).replace('module m', 'module m2')
            yield {'kind': 'pickle-file', 'src': src, 'what': 'file', 'sel': 0, 'edits': []}

    # -- implementation side ---------------------------------------------------------------------------------------------
    def run_impl(self, case):
        S = sg()
        from loki import Sourcefile
        from loki.frontend import FP
        defs = None
        if case.get('defs'):
            defs = Sourcefile.from_source(case['defs'], frontend=FP).modules
        sf = Sourcefile.from_source(case['src'], frontend=FP, definitions=defs)
        for unit in list(sf.modules) + list(sf.routines):
            unit.rescope_symbols()
        if case['what'] == 'file':
            return self.run_file(case, sf)
        path = c17.C17().pick_target(sf, case['what'], case['sel'])
        u = find_unit(sf, path)
        log = self.apply_edits(case, u)
        lab, types_ = S.Labeler(), {}
        t0 = S.Tree(u)
        for i, o in enumerate(t0.objs): lab.assign(o, i)
        chain = S.chain_of(u)
        for k, o in enumerate(chain): lab.assign(o, CTX0 + k)
        g0 = S.export(t0, lab, types_)
        ctx = S.ctx_export(chain, lab, types_)
        f0 = u.to_fortran()
        blob = pickle.dumps(u)
        v = pickle.loads(blob)
        tv = S.Tree(v)
        for i, o in enumerate(tv.objs): lab.assign(o, D + i)
        gv = canon_foreign(S.export(tv, lab, types_))
        g0b = S.export(S.Tree(u), lab, types_)
        try:
            fv = v.to_fortran()
        except Exception as ex:
            fv = 'raised %s' % type(ex).__name__
        out = {'path': path, 'ctx': ctx, 'orig': g0, 'loaded': gv, 'eq': bool(v == u), 'fgen_same': fv == f0, 'fgen_loaded': None if fv == f0 else fv[:300],
               'orig_same': strip_types(g0b) == strip_types(g0), 'edit_log': log, 'calls': self.call_links(u, v)}
        return out

    @staticmethod
    def call_links(u, v):
        """for every call statement: is the target routine known before / after"""
        S = sg()
        from loki import FindNodes
        out = []
        def walk(x, y):
            cx = FindNodes(S.ir.CallStatement).visit(x.body) if getattr(x, 'body', None) is not None else []
            cy = FindNodes(S.ir.CallStatement).visit(y.body) if getattr(y, 'body', None) is not None else []
            for a, b in zip(cx, cy):
                out.append([str(a.name).lower(), isinstance(a.routine, S.Subroutine), isinstance(b.routine, S.Subroutine)])
            for p, q_ in zip(x.subroutines, y.subroutines): walk(p, q_)
        if isinstance(u, S.ProgramUnit): walk(u, v)
        return out

    def run_file(self, case, sf):
        S = sg()
        f0 = sf.to_fortran()
        sf2 = pickle.loads(pickle.dumps(sf))
        units = list(sf.modules) + list(sf.routines)
        units2 = [sf2[u.name] for u in units]
        trees0 = [S.Tree(u) for u in units]
        trees2 = [S.Tree(u) for u in units2]
        pairs = []
        for k in range(len(units)):
            lab, types_ = S.Labeler(), {}
            for i, o in enumerate(trees0[k].objs): lab.assign(o, i)
            for i, o in enumerate(trees2[k].objs): lab.assign(o, D + i)
            g0 = S.export(trees0[k], lab, types_)
            gv = canon_foreign(S.export(trees2[k], lab, types_))
            pairs.append({'orig': g0, 'loaded': gv, 'eq': bool(units2[k] == units[k])})
        try:
            fv = sf2.to_fortran()
        except Exception as ex:
            fv = 'raised %s' % type(ex).__name__
        return {'pairs': pairs, 'eq': bool(sf2 == sf), 'fgen_same': fv == f0, 'orig_same': sf.to_fortran() == f0, 'edit_log': [], 'calls': []}

    def apply_edits(self, case, u):
        S = sg()
        from loki import FindVariables, SubstituteExpressions, Transformer, FindNodes
        log = []
        for e in case['edits']:
            op, s1, s2 = e
            subs = [o for o in S.Tree(u).objs if isinstance(o, S.Subroutine)]
            if not subs: continue
            r = subs[s1 % len(subs)]
            try:
                if op == 'rename':
                    vs = sorted({str(v.name).lower(): v for v in FindVariables().visit(r.body) if '%' not in str(v.name)
                                 and not isinstance(v, S.sym.ProcedureSymbol) and v.scope is r}.items())
                    if vs:
                        _, v = vs[s2 % len(vs)]
                        new = str(v.name) + '_rn'
                        vmap = {w: w.clone(name=new) for w in FindVariables(unique=False).visit(r.body) if str(w.name).lower() == str(v.name).lower()}
                        r.body = SubstituteExpressions(vmap).visit(r.body)
                        dmap = {w: w.clone(name=new) for w in FindVariables(unique=False).visit(r.spec) if str(w.name).lower() == str(v.name).lower()}
                        r.spec = SubstituteExpressions(dmap).visit(r.spec)
                        if str(v.name).lower() in [a.lower() for a in r._dummies]:
                            r._dummies = tuple(new.lower() if a.lower() == str(v.name).lower() else a for a in r._dummies)
                elif op == 'dropvar':
                    used = {str(v.name).lower() for v in FindVariables().visit(r.body)} | {str(v.name).lower() for d in r.variables for v in FindVariables().visit(getattr(d, 'dimensions', ()) or ())}
                    loc = [v for v in r.variables if v not in r.arguments and str(v.name).lower() not in used]
                    if loc:
                        v = loc[s2 % len(loc)]
                        r.variables = tuple(w for w in r.variables if w is not v)
                elif op == 'prepend':
                    ints = [v for v in r.variables if isinstance(v, S.sym.Scalar) and v.type.dtype == S.BasicType.INTEGER and v.type.intent != 'in' and not v.type.parameter]
                    if ints:
                        v = ints[s2 % len(ints)]
                        r.body.prepend(S.ir.Assignment(lhs=v.clone(), rhs=S.sym.IntLiteral(7)))
                elif op == 'adddecl':
                    name = 'zdecl%d' % (s2 % 97)
                    if name not in r.symbol_attrs:
                        v = S.sym.Variable(name=name, type=S.SymbolAttributes(S.BasicType.REAL), scope=r)
                        r.variables += (v,)
                        r.body.append(S.ir.Assignment(lhs=v.clone(), rhs=S.sym.FloatLiteral('1.0')))
                elif op == 'dropstmt':
                    st = FindNodes((S.ir.Assignment, S.ir.CallStatement)).visit(r.body)
                    if st:
                        r.body = Transformer({st[s2 % len(st)]: None}).visit(r.body)
                log.append({'edit': e, 'ok': True})
            except Exception as ex:
                log.append({'edit': e, 'raised': type(ex).__name__})
        return log

    # -- model side ------------------------------------------------------------------------------------------------------
    def model_term(self, case, out):
        if '__exception__' in out:
            raise ValueError('implementation raised %s: %s' % (out['__exception__'], out.get('msg')))
        if case.get('tie') is False:
            return None
        terms = []
        inclass = 'true' if case['kind'] in ('pickle', 'pickle-edit', 'pickle-file') else 'false'
        for p in (out.get('pairs') or [out]):
            terms.append('(let u := %s in chk_unpickle %d u %s && chk_class_p %s %d u && chk_types %s u %s && chk_types [] (unpickle %d u) %s)'
                         % (unit_lit(p['orig']), D, unit_lit18(p['loaded']), inclass, D, c17.ctx_lit(out.get('ctx', [])),
                            otys_lit(all_types(p['orig'])), D, otys_lit(all_types(p['loaded']))))
        return ' && '.join(terms)

    # -- oracle ------------------------------------------------------------------------------------------------------------
    def oracle(self, case, out):
        if '__exception__' in out:
            return 'implementation raised %s: %s' % (out['__exception__'], (out.get('msg') or '')[:200])
        if not out['fgen_same']:
            return 'the loaded object generates different code: %s' % (out.get('fgen_loaded'),)
        if not out['orig_same']:
            return 'pickling changed the original'
        pairs = out.get('pairs') or [out]
        for p in pairs:
            g0, gv = p['orig'], p['loaded']
            if [x['kind'] for x in flat(g0)] != [x['kind'] for x in flat(gv)]:
                return 'the scope tree of the loaded object has a different shape'
            own0, ownv = set(graph_ids(g0)), set(graph_ids(gv))
            lk = [r for r in graph_refs(gv) if r[3] in own0 or (CTX0 <= r[3] < FOREIGN0)]
            if lk:
                return 'the loaded object refers to scope objects of the original: %s' % (lk[:4],)
            for x in flat(gv):
                if not x['tpar_ok']:
                    return 'symbol table of loaded scope %d does not chain to the table of its parent scope' % x['id']
            if case['kind'] == 'pickle-out':
                continue
            # parents follow the tree (members / contained routines / scoped nodes get their parent back)
            def par_ok(t, par):
                if t['parent'] != par: return 'scope %d (%s %s) has parent %r, the tree says %r' % (t['id'], t['kind'], t['name'], t['parent'], par)
                for ch in t['nodes'] + t['members']:
                    m = par_ok(ch, t['id'])
                    if m: return m
                return None
            m = par_ok(gv, None)
            if m: return 'loaded: ' + m
            bad = [r for r in graph_refs(gv) if r[0] == 'symbol' and r[3] not in ownv]
            if bad:
                return 'symbols of the loaded object are attached outside of it: %s' % (bad[:4],)
            una = [(x['id'], n) for x, x0 in zip(flat(gv), flat(g0)) for (n, r), (n0, r0) in zip(x['occ'], x0['occ']) if r is None and r0 is not None]
            if una:
                return 'symbols that were attached to a scope come back attached to nothing: %s' % (una[:4],)
            if all_types(g0) != all_types(gv):
                nb = sum(1 for a, b in zip(all_types(g0), all_types(gv)) if a != b)
                return 'symbols of the loaded object read other types than the corresponding symbols of the original (%d differ)' % nb
        if case['kind'] != 'pickle-out':
            lost = [c for c in out.get('calls', []) if c[1] and not c[2]]
            if lost:
                return 'call targets known before pickling are unknown afterwards: %s' % (lost[:3],)
            if not out['eq']:
                return 'loaded object != original (==)'
        return None

    def nontrivial_key(self, case, out):
        if '__exception__' in out: return None
        pairs = out.get('pairs') or [out]
        big = any(len(flat(p['orig'])) >= 2 or any(e[2] for x in flat(p['orig']) for e in x['tab']) for p in pairs)
        if not big: return None
        return json.dumps([case['src'], case['what'], case['sel'], case['edits']], sort_keys=True)

    def show_model(self, case, out):
        if 'orig' not in out: return []
        return ['unpickle %d %s' % (D, unit_lit(out['orig']))]

PROP = C18
