"""C20 — recorded source locations match the original text.

Case kinds
----------
* ``span`` / ``find`` / ``cws`` / ``join``           : the span arithmetic of ``Source`` (``clone_with_span``, ``find``,
  ``clone_with_string``) and ``join_source_list`` on random multi-line texts; model tie AND oracle (inputs drawn
  from the class where the code is right); ``find-tie`` / ``cws-tie`` / ``join-tie``: arbitrary inputs, model tie only.
* ``reader``        : ``FortranReader(text)`` on random free-form texts of the class the Coq model of fparser's line
  reader covers (comments, blank lines, ``&`` continuations with interleaved comment lines, ``;``, strings holding
  ``!``/``;``/``&``, pragmas, preprocessor lines): fparser's items, every FortranReader attribute and query method
  vs the model, and a direct oracle.  ``reader-tie``: same, tie only (``!$`` comments inside statements, sub-reader
  queries that end inside the text, spans starting inside a line).
* ``reader-items``  : any text (generated programs, small repository files): the items are taken from the real
  fparser reader and given to the model of FortranReader proper.
* ``frontend``      : generated programs through ``Sourcefile.from_source`` (``fe`` = fp | regex): oracle on every
  IR node that carries ``source`` plus the generator's own record (``stmts``) of the physical lines of every statement
  (a node with exactly these lines must exist; constructs/units must start and end on the recorded lines).
* ``repo-file``     : every Fortran file below $LOKI_VERIF_REPO (except build/), both frontends (skipped when the
  frontend rejects the file).
"""
import os, re, random, collections, json
from ..framework import Property
from ..coqlit import coq, C, Nat, Some, Raw

# ------------------------------------------------------------------------------------------------------
# generator of Fortran programs with layout noise
# ------------------------------------------------------------------------------------------------------
KW_CASE = [str.lower, str.upper, str.title]


class ProgGen:
    """modules / routines / typedefs / interfaces and many statement kinds; random indentation, inline comments,
    continuation lines (optionally with comment lines in between), ';', pragmas, preprocessor lines"""

    def __init__(self, rng, inner_comments=True):
        self.r = rng
        self.inner = inner_comments      # comments on / between the lines of a continued statement
        self.lines = []
        self.kc = rng.choice(KW_CASE)
        self.cont_noise = rng.random() < 0.7
        self.ncont = 0; self.nsemi = 0; self.ninter = 0
        # ground truth: [first line, last line, kind, regex class] of every emitted statement; kind: 'simple' (a node
        # with exactly these lines is expected from the full frontend), 'head' / 'end' (first / last statement of a
        # construct or unit), 'inner' (ELSE, CASE, CONTAINS ...: no node of its own)
        self.stmts = []

    def kw(self, s): return self.kc(s) if self.r.random() < 0.9 else s
    def ind(self, d): return ' ' * (d * self.r.choice([1, 2, 2, 3, 4]) + self.r.choice([0, 0, 0, 1]))

    def comment(self, d):
        return self.ind(d) + '!' + self.r.choice([' note', ' a = b & c', " it's", ' "quoted" text', '', '! double',
                                                   ' end subroutine x', ' call foo(1)', ' x'])

    def pragma(self, d):
        return self.ind(d) + self.r.choice(['!$acc parallel loop', '!$omp parallel do', '!$loki data',
                                            '!$acc end parallel loop', '!$loki end data', '!$OMP BARRIER'])

    def emit(self, d, stmt, splittable=True, kind='simple', rk=None):
        r = self.r
        first = len(self.lines) + 1
        pre = self.ind(d)
        parts = [stmt]
        if splittable and self.cont_noise and r.random() < 0.3:
            cuts, q = [], None
            for i, ch in enumerate(stmt):
                if q:
                    if ch == q: q = None
                elif ch in '\'"': q = ch
                elif ch in ',+' and 3 < i < len(stmt) - 2: cuts.append(i + 1)
            if cuts:
                cs = sorted(r.sample(cuts, r.randint(1, min(3, len(cuts)))))
                parts = [stmt[a:b] for a, b in zip([0] + cs, cs + [len(stmt)])]
        out = []
        for i, p in enumerate(parts):
            line = pre if i == 0 else pre + '   '
            if i > 0 and r.random() < 0.6: line += '& '
            line += p.strip() if i > 0 else p
            if i < len(parts) - 1:
                line += r.choice([' &', '&', '  &']); self.ncont += 1
            if r.random() < 0.15 and (self.inner or i == len(parts) - 1):
                line += r.choice(['  ! inline', ' ! x = "y"', " !don't", ' !'])
            if r.random() < 0.1: line += '  '
            out.append(line)
            if i < len(parts) - 1 and r.random() < 0.3:
                self.ninter += 1
                for _ in range(r.randint(1, 2)):
                    out.append(r.choice([self.comment(d), '', '   ']) if self.inner else r.choice(['', '   ']))
        self.lines += out
        self.stmts.append([first, len(self.lines), kind, rk])

    def raw(self, line, kind='simple', rk=None):
        self.lines.append(line)
        self.stmts.append([len(self.lines), len(self.lines), kind, rk])

    def noise(self, d):
        x = self.r.random()
        if x < 0.12: self.lines.append(self.comment(d))
        elif x < 0.2: self.lines.append(self.r.choice(['', '', '  ']))
        elif x < 0.23:
            self.lines.append(self.comment(d)); self.lines.append(self.comment(d))

    def expr(self, depth=0):
        r = self.r
        x = r.random()
        if depth > 2 or x < 0.35:
            return r.choice(['a', 'b', 'c', 'i', 'j', 'n', 'x(i)', 'y(j)', 'z(i, j)', '1', '2', '10', '3.0', '1.5_8', 't%v', 't%w(i)'])
        if x < 0.7: return '%s %s %s' % (self.expr(depth + 1), r.choice(['+', '-', '*']), self.expr(depth + 1))
        if x < 0.8: return '(%s + %s)' % (self.expr(depth + 1), self.expr(depth + 1))
        if x < 0.9: return '%s(%s, %s)' % (r.choice(['max', 'min', 'mod']), self.expr(depth + 1), self.expr(depth + 1))
        return 'real(%s)' % self.expr(depth + 1)

    def cond(self):
        r = self.r
        c = '%s %s %s' % (self.expr(1), r.choice(['>', '<', '==', '/=', '.gt.', '.le.']), self.expr(1))
        if r.random() < 0.3: c += ' %s %s' % (r.choice(['.and.', '.or.']), 'flag')
        return c

    def lhs(self): return self.r.choice(['a', 'b', 'c', 'x(i)', 'y(j)', 'z(i, j)', 't%v', 't%w(i)'])
    def assign(self): return '%s = %s' % (self.lhs(), self.expr())

    def stmt(self, d, depth):
        r = self.r
        self.noise(d)
        x = r.random()
        if depth >= 3: x = x * 0.5
        if x < 0.26:
            self.emit(d, self.assign())
        elif x < 0.31:
            self.nsemi += 1
            self.emit(d, r.choice(['; ', ';', ' ; ']).join(self.assign() for _ in range(r.randint(2, 3))), splittable=False)
        elif x < 0.39:
            args = ', '.join(self.expr(2) for _ in range(r.randint(0, 5)))
            if r.random() < 0.3: args += (', ' if args else '') + 'opt=%s' % self.expr(2)
            self.emit(d, '%s %s(%s)' % (self.kw('call'), r.choice(['sub1', 'sub2', 't%proc', 'helper']), args), rk='CallStatement')
        elif x < 0.43:
            self.emit(d, '%s (%s) %s' % (self.kw('if'), self.cond(), self.assign()))
        elif x < 0.46:
            self.emit(d, '%s (%s) %s helper(%s)' % (self.kw('if'), self.cond(), self.kw('call'), self.expr(2)))
        elif x < 0.49:
            self.emit(d, self.kw('print') + " *, 'val ! not a comment', %s" % self.expr(2))
        elif x < 0.52:
            self.raw(self.pragma(d), rk='Pragma')
        elif x < 0.55:
            self.emit(d, "s = 'it''s ; here' // \"a ! b\"", splittable=False)
        elif x < 0.58:
            self.emit(d, '%s(p(n), stat=ierr)' % self.kw('allocate'))
            self.emit(d, '%s(p)' % self.kw('deallocate'))
        elif x < 0.68:
            self.emit(d, '%s (%s) %s' % (self.kw('if'), self.cond(), self.kw('then')), kind='head')
            self.block(d + 1, depth + 1)
            for _ in range(r.choice([0, 0, 1, 2])):
                self.emit(d, '%s (%s) %s' % (self.kw(r.choice(['else if', 'elseif'])), self.cond(), self.kw('then')), kind='inner')
                self.block(d + 1, depth + 1)
            if r.random() < 0.5:
                self.emit(d, self.kw('else'), kind='inner'); self.block(d + 1, depth + 1)
            self.emit(d, self.kw(r.choice(['end if', 'endif'])), kind='end')
        elif x < 0.8:
            hdr = '%s %s = %s, %s' % (self.kw('do'), r.choice(['i', 'j']), r.choice(['1', '2', 'n - 1']), r.choice(['n', '10', 'n + 1']))
            if r.random() < 0.2: hdr += ', 2'
            self.emit(d, hdr, kind='head')
            self.block(d + 1, depth + 1)
            self.emit(d, self.kw(r.choice(['end do', 'enddo'])), kind='end')
        elif x < 0.84:
            self.emit(d, '%s (%s)' % (self.kw('do while'), self.cond()), kind='head')
            self.block(d + 1, depth + 1)
            self.emit(d, self.kw('end do'), kind='end')
        elif x < 0.9:
            self.emit(d, '%s (%s)' % (self.kw('select case'), r.choice(['i', 'j', 'n'])), kind='head')
            for k in range(r.randint(1, 3)):
                self.emit(d + 1, '%s (%s)' % (self.kw('case'), r.choice(['%d' % (k + 1), '%d:%d' % (10 * k + 10, 10 * k + 15), '%d, %d' % (100 + k, 200 + k)])), kind='inner')
                self.block(d + 2, depth + 1)
            if r.random() < 0.5:
                self.emit(d + 1, self.kw('case default'), kind='inner'); self.block(d + 2, depth + 1)
            self.emit(d, self.kw('end select'), kind='end')
        elif x < 0.93:
            self.emit(d, '%s (x > 0.0)' % self.kw('where'), kind='head')
            self.emit(d + 1, 'x = x + 1.0')
            if r.random() < 0.5:
                self.emit(d, self.kw('elsewhere'), kind='inner'); self.emit(d + 1, 'x = 0.0')
            self.emit(d, self.kw('end where'), kind='end')
        elif x < 0.95:
            self.raw('#ifdef %s' % r.choice(['FOO', 'BAR']))
            self.emit(d, self.assign())
            if r.random() < 0.5:
                self.raw('#else'); self.emit(d, self.assign())
            self.raw('#endif')
        elif x < 0.96:
            nm = r.choice(['outer', 'lp1'])
            self.emit(d, '%s: %s i = 1, n' % (nm, self.kw('do')), splittable=False, kind='head')
            self.block(d + 1, depth + 1)
            # (EXIT/CYCLE with a construct name make the fparser frontend raise TypeError - not a location matter)
            self.emit(d + 1, '%s (%s) %s' % (self.kw('if'), self.cond(), self.kw(r.choice(['cycle', 'exit']))))
            self.emit(d, '%s %s' % (self.kw('end do'), nm), kind='end')
        elif x < 0.97:
            self.emit(d, '%s (i = 1:n, x(i) > 0.0) y(i) = x(i)' % self.kw('forall'))
            self.emit(d, "%s(*, *) 'out', a, b" % self.kw('write'))
            self.emit(d, "%s(*, '(a, i3)') 'fmt ! x', n" % self.kw('write'))
        elif x < 0.98:
            self.emit(d, '%d %s' % (r.choice([10, 20, 100]), self.kw('continue')), splittable=False)
            self.emit(d, '%s (%s) %s' % (self.kw('if'), self.cond(), self.kw('return')))
        else:
            self.emit(d, '%s (q => t%%v, w => x(i))' % self.kw('associate'), kind='head')
            self.emit(d + 1, 'q = w + 1.0')
            self.block(d + 1, depth + 1)
            self.emit(d, self.kw('end associate'), kind='end')

    def block(self, d, depth):
        for _ in range(self.r.randint(1, 3 if depth < 2 else 2)):
            self.stmt(d, depth)

    def decls(self, d, with_type):
        r = self.r
        # ('real(8)' is avoided: the regex frontend's declaration pattern does not match it - RawSource instead)
        self.emit(d, '%s, %s(%s) :: n' % (self.kw('integer'), self.kw('intent'), self.kw('in')), rk='VariableDeclaration')
        self.noise(d)
        self.emit(d, '%s, %s(%s) :: x(n), y(n), z(n, n)' % (self.kw(r.choice(['real', 'real(kind=8)', 'real(kind=8)'])), self.kw('intent'), self.kw('inout')), rk='VariableDeclaration')
        self.emit(d, '%s :: a, b, c' % self.kw('real'), rk='VariableDeclaration')
        self.noise(d)
        self.emit(d, '%s :: i, j, ierr' % self.kw('integer'), rk='VariableDeclaration')
        self.emit(d, '%s :: flag' % self.kw('logical'), rk='VariableDeclaration')
        self.emit(d, '%s(len=20) :: s' % self.kw('character'), rk='VariableDeclaration')
        self.emit(d, '%s, %s :: p(:)' % (self.kw('real'), self.kw('allocatable')), rk='VariableDeclaration')
        self.emit(d, '%s(%s) :: t' % (self.kw('type'), 'mytype' if with_type else 'othertype'), rk='VariableDeclaration')

    def routine(self, d, name, with_type, function=False):
        r = self.r
        kind = 'function' if function else 'subroutine'
        hdr = '%s %s(n, x, y, z)' % (self.kw(kind), name)
        if function: hdr += ' %s(res)' % self.kw('result')
        self.emit(d, hdr, kind='head', rk=kind.title())
        if r.random() < 0.3: self.lines.append(self.comment(d + 1))
        if not with_type:
            self.emit(d + 1, '%s othermod, %s: othertype, helper' % (self.kw('use'), self.kw('only')), rk='Import')
        self.emit(d + 1, self.kw('implicit none'))
        self.decls(d + 1, with_type)
        if function: self.emit(d + 1, '%s :: res' % self.kw('real'), rk='VariableDeclaration')
        self.noise(d + 1)
        for _ in range(r.randint(1, 5)):
            self.stmt(d + 1, 0)
        if function: self.emit(d + 1, 'res = a')
        self.noise(d + 1)
        if r.random() < 0.25:
            self.emit(d, self.kw('contains'), kind='inner')
            self.emit(d + 1, '%s inner(k)' % self.kw('subroutine'), kind='head', rk='Subroutine')
            self.emit(d + 2, '%s :: k' % self.kw('integer'), rk='VariableDeclaration')
            self.emit(d + 2, 'k = k + 1')
            self.emit(d + 1, '%s inner' % self.kw('end subroutine'), kind='end', rk='Subroutine')
        self.emit(d, '%s %s' % (self.kw('end ' + kind), name if r.random() < 0.8 else ''), kind='end', rk=kind.title())

    def module(self, name):
        r = self.r
        self.emit(0, '%s %s' % (self.kw('module'), name), kind='head', rk='Module')
        if r.random() < 0.5: self.emit(1, '%s othermod, %s: othertype, helper' % (self.kw('use'), self.kw('only')), rk='Import')
        self.emit(1, self.kw('implicit none'))
        self.noise(1)
        self.emit(1, '%s, %s :: nmax = 10' % (self.kw('integer'), self.kw('parameter')), rk='VariableDeclaration')
        self.emit(1, '%s mytype' % self.kw('type'), kind='head', rk='TypeDef')
        self.noise(2)
        self.emit(2, '%s :: v' % self.kw('real'), rk='VariableDeclaration')
        self.emit(2, '%s :: w(nmax)' % self.kw('real'), rk='VariableDeclaration')
        if r.random() < 0.5:
            self.emit(1, self.kw('contains'), kind='inner')
            self.emit(2, '%s :: proc => sub1' % self.kw('procedure'), rk='ProcedureDeclaration')
        self.emit(1, '%s mytype' % self.kw('end type'), kind='end', rk='TypeDef')
        self.noise(1)
        if r.random() < 0.4:
            self.emit(1, '%s gen' % self.kw('interface'), kind='head', rk='Interface')
            self.emit(2, '%s sub1, sub2' % self.kw('module procedure'), rk='ProcedureDeclaration')
            self.emit(1, self.kw('end interface') + (' gen' if r.random() < 0.5 else ''), kind='end', rk='Interface')
        if r.random() < 0.3:
            self.emit(1, self.kw('interface'), kind='head', rk='Interface')
            self.emit(2, '%s ext(k)' % self.kw('subroutine'), kind='head', rk='Subroutine')
            self.emit(3, '%s, %s(%s) :: k' % (self.kw('integer'), self.kw('intent'), self.kw('in')), rk='VariableDeclaration')
            self.emit(2, self.kw('end subroutine') + ' ext', kind='end', rk='Subroutine')
            self.emit(1, self.kw('end interface'), kind='end', rk='Interface')
        self.noise(0)
        self.emit(0, self.kw('contains'), kind='inner')
        self.noise(1)
        self.routine(1, 'sub1', True)
        self.noise(1)
        self.routine(1, 'sub2', True)
        if r.random() < 0.4:
            self.noise(1); self.routine(1, 'fun1', True, function=True)
        self.emit(0, '%s %s' % (self.kw('end module'), name), kind='end', rk='Module')


def gen_program(rng, inner_comments=True):
    g = ProgGen(rng, inner_comments)
    r = rng
    # the first line is never blank: leading blank lines are the known REGEX finding (line numbers shift)
    for _ in range(r.choice([0, 0, 1, 2])): g.lines.append(g.comment(0))
    x = r.random()
    if x < 0.45:
        g.module('mod_' + r.choice(['a', 'b', 'kern']))
    elif x < 0.8:
        g.routine(0, 'driver', False)
        if r.random() < 0.4:
            g.noise(0); g.routine(0, 'second', False)
    else:
        g.module('mod_x'); g.noise(0); g.routine(0, 'driver', False)
    for _ in range(r.choice([0, 0, 1])): g.lines.append(g.comment(0))
    text = '\n'.join(g.lines)
    if r.random() < 0.8: text += '\n'
    return text, g.stmts


# ------------------------------------------------------------------------------------------------------
# generator of texts for the FortranReader tie (class of the Coq model of fparser's line reader)
# ------------------------------------------------------------------------------------------------------
CODE_POOL = [
    'x = 1', 'call foo(a, b)', "y = 'a ! b' // \"c ; d\"", 'if (a > b) then', 'end if', 'integer :: a, b',
    'use mod, only: x', 'subroutine s(a)', 'end subroutine s', 'z = a + b * (c - d)', "s = 'it''s & more'",
    'do i = 1, n', 'end do', 'module m', 'end module m', 'contains', 'real(kind=8), intent(in) :: arr(n, m)',
    'call bar(x, y, z, opt=1)', 'print *, "a!b", \'c;d\'', 'w = "&" // \'!\'', 'type t', 'end type t',
]
CMT_POOL = ['! note', '!', '!! double', "! it's", '! "q', '! a = b & c', '! x ; y', '! end', '!x$']
PRAGMA_POOL = ['!$acc parallel', '!$omp do', '!$loki data', '!$ACC END', '!$ not quite']
# statements for ';' lists: fparser re-formats such lines (lower case outside strings - modelled - and blanks inside
# parentheses - not modelled), so no parentheses here
SEMI_POOL = ['x = 1', "Y = 'a ! B' // \"c ; d\"", 'End If', 'integer :: a, B', 'use mod, only: x', 'z = a + b * c', "s = 'it''s & more'",
             'contains', 'END DO', 'w = "&" // \'!\'', 'X = 1.0E0', 'return']


_NAME_OR_LABEL = re.compile(r"\s*(\w+\s*:|\d+)\s*(\b|(?=&)|\Z)")


def is_free_form(text):
    """fparser guesses the source form from the text: the model only covers free form"""
    from fparser.common.sourceinfo import get_source_info_str
    t = text.strip()
    if not t: return True
    return bool(get_source_info_str(t).is_free)


def gen_reader_text(rng, tie_only=False):
    while True:
        t = _gen_reader_text(rng, tie_only)
        if is_free_form(t): return t


def _gen_reader_text(rng, tie_only=False):
    r = rng
    lines = []
    def ind(): return ' ' * r.choice([0, 0, 1, 2, 4, 7])
    def trail(): return r.choice(['', '', '', ' ', '   '])
    def inline(allow_pragma=False):
        if r.random() < 0.25:
            c = r.choice(CMT_POOL[:7])
            if allow_pragma and r.random() < 0.4: c = r.choice(PRAGMA_POOL)
            return r.choice([' ', '  ', '']) + c
        return ''
    def code():
        if r.random() < 0.2:
            return r.choice(['; ', ';', ' ;; ', ' ; ']).join(r.choice(SEMI_POOL) for _ in range(r.randint(2, 3))) + r.choice(['', '', ';', ' ; '])
        return r.choice(CODE_POOL)
    n = r.randint(1, 14)
    for _ in range(n):
        x = r.random()
        if x < 0.3:
            lines.append(ind() + code() + inline(allow_pragma=True) + trail())      # ('x = 1 !$acc' stays a comment)
        elif x < 0.42:
            lines.append(ind() + r.choice(CMT_POOL) + trail())
        elif x < 0.52:
            lines.append(r.choice(['', '', ' ', '    ']))
        elif x < 0.6:
            lines.append(ind() + r.choice(PRAGMA_POOL) + trail())
        elif x < 0.66:
            lines.append(r.choice(['', '', ' ']) + r.choice(['#ifdef FOO', '#endif', '#define X 1', '#include "a.h"', '#else']))
        else:
            # continued statement: cut anywhere (also inside strings)
            st = code()
            k = r.randint(1, 3)
            cuts = sorted(set(r.randint(1, len(st) - 1) for _ in range(k))) if len(st) > 2 else []
            parts = [st[a:b] for a, b in zip([0] + cuts, cuts + [len(st)])]
            merged = []
            for p_ in parts:      # a blank part would give a line '&' that continues the statement over what follows
                if merged and not p_.strip(): merged[-1] += p_
                else: merged.append(p_)
            parts = merged
            if _NAME_OR_LABEL.match(parts[0] + '&'):
                # fparser would take 'integer :' (cut inside '::') for a construct name: outside the modelled class
                parts = [st]
            q = None
            for i, p in enumerate(parts):
                in_str_start = q is not None
                for ch in p:
                    if q:
                        if ch == q: q = None
                    elif ch in '\'"': q = ch
                in_str_end = q is not None
                last = i == len(parts) - 1
                lead = ind()
                # (a '&' inside the text of a continuation line needs the explicit leading '&': fparser takes a '&' in
                #  column 1 for a leading one and drops column 0 - modelled, but it can leave an unbalanced quote)
                if i > 0 and (in_str_start or '&' in p or r.random() < 0.6):
                    lead += '&' + ('' if in_str_start else r.choice(['', ' ']))
                line = lead + p
                if not last:
                    line += ('' if in_str_end else r.choice(['', ' ', '  '])) + '&'
                if not in_str_end:
                    line += inline(allow_pragma=tie_only)
                line += trail()
                lines.append(line)
                if not last and not in_str_end and r.random() < 0.35:
                    for _ in range(r.randint(1, 2)):
                        y = r.random()
                        if y < 0.5: lines.append(ind() + r.choice(CMT_POOL + (PRAGMA_POOL if tie_only else [])))
                        else: lines.append(r.choice(['', '  ']))
    if r.random() < 0.06:
        lines.append(ind() + 'dangling = 1 &')      # continuation that never continues
        if r.random() < 0.5: lines.append('! after')
    head = r.choice(['', '', '\n', '\n\n  ', ' '])
    tail = r.choice(['', '\n', '\n\n', '  \n'])
    return head + '\n'.join(lines) + tail


# ------------------------------------------------------------------------------------------------------
# real code drivers
# ------------------------------------------------------------------------------------------------------
def _src_json(s):
    if s is None: return None
    return {'l0': s.lines[0], 'l1': s.lines[1], 'str': s.string, 'file': s.file}


def _call(f, *a, **kw):
    """a Source-returning reader method -> JSON (None | source | {'error': name})"""
    try:
        return _src_json(f(*a, **kw))
    except (IndexError, AssertionError) as e:
        return {'error': type(e).__name__}


def _items_json(items):
    from fparser.common.readfortran import Comment as RC
    out = []
    for l in items:
        k = 'KComment' if isinstance(l, RC) else ('KCpp' if type(l).__name__ == 'CppDirective' else 'KLine')
        out.append([k, l.line, l.span[0], l.span[1]])
    return out


def _reader_basic(rd):
    return {
        'nsrc': len(rd.source_lines), 'san': _items_json(rd.sanitized_lines), 'spans': list(rd.sanitized_spans),
        'str': rd.sanitized_string, 'head': _call(rd.source_from_head), 'tail': _call(rd.source_from_tail),
        'ts_f': _call(rd.to_source, include_padding=False), 'ts_t': _call(rd.to_source, include_padding=True),
    }


def run_reader(case):
    from loki.frontend.source import FortranReader
    from fparser.common.readfortran import FortranStringReader
    text = case['text']
    stripped = text.strip()
    items = _items_json(list(FortranStringReader(stripped, ignore_comments=False))) if stripped else []
    rd = FortranReader(text)
    out = {'items': items, 'lines': rd.source_lines}
    out.update(_reader_basic(rd))
    cur = []
    for _ in rd:
        cur.append(_call(rd.source_from_current_line))
    out['cur'] = cur
    spans = list(rd.sanitized_spans)
    qs = []
    for q in case.get('queries', []):
        if q[0] == 'line':
            _, i, j, delta, pad = q
            i = i % len(spans);
            a = spans[i]
            if j is None: b = None
            else:
                j = j % len(spans)
                b = spans[j] - delta
        else:
            _, a, b, pad = q
        res = {'a': a, 'b': b, 'pad': pad, 'src': _call(rd.source_from_sanitized_span, (a, b), include_padding=pad)}
        try:
            sub = rd.reader_from_sanitized_span((a, b), include_padding=pad)
            if sub is None: res['sub'] = None
            else:
                d = _reader_basic(sub)
                d['off'] = sub.line_offset; d['lines'] = sub.source_lines
                ix = rd.get_line_indices_from_span((a, b), include_padding=pad)
                d['ss'], d['se'] = ix[0], ix[1]
                res['sub'] = d
        except IndexError:
            res['sub'] = {'error': 'IndexError'}
        qs.append(res)
    out['queries'] = qs
    return out


def _kids(o):
    from loki import Sourcefile, ProgramUnit
    from loki.ir import nodes as ir
    if isinstance(o, Sourcefile): return [o.ir]
    if isinstance(o, ProgramUnit): return [x for x in o.ir if x is not None]
    out = []
    def fl(x):
        if isinstance(x, (tuple, list)):
            for y in x: fl(y)
        elif isinstance(x, (ir.Node, ProgramUnit)): out.append(x)
    if isinstance(o, ir.Node): fl(o.children)
    return out


def _literals(o):
    from loki.ir import nodes as ir, FindLiterals
    from loki.expression import symbols as sym
    if not isinstance(o, ir.LeafNode): return []
    try:
        return [l for l in FindLiterals().visit(o) if isinstance(l, sym.StringLiteral)]
    except Exception:
        return []


def export_tree(o):
    """[class name, source or None, [children]] (+ string literal values of leaf statements)"""
    s = getattr(o, 'source', None)
    lits = [str(l.value) for l in _literals(o)]
    return [type(o).__name__, _src_json(s) if s is not None else None, [export_tree(k) for k in _kids(o)], lits]


def run_frontend(text, fe):
    from loki import Sourcefile
    from loki.frontend import FP, REGEX
    try:
        sf = Sourcefile.from_source(text, frontend={'fp': FP, 'regex': REGEX}[fe])
    except Exception as e:   # pylint: disable=broad-except
        return {'rejected': type(e).__name__, 'msg': str(e)[:200]}
    return {'tree': export_tree(sf)}


# ------------------------------------------------------------------------------------------------------
# oracles
# ------------------------------------------------------------------------------------------------------
def anchored(sl, seg):
    """string lines `sl` against the file lines `seg` of the recorded range: some offset d with sl lying on
    seg[d:d+len(sl)] (first line: suffix, last line: prefix, middle lines equal; a single line: contained), every
    other line of the range blank (the frontend strips blank lines at both ends of a section's string)"""
    m = len(sl)
    for d in range(0, len(seg) - m + 1):
        if any(x.strip() for x in seg[:d]) or any(x.strip() for x in seg[d + m:]): continue
        w = seg[d:d + m]
        if m == 1: ok = sl[0] in w[0]
        else: ok = w[0].endswith(sl[0]) and w[-1].startswith(sl[-1]) and all(a == b for a, b in zip(sl[1:-1], w[1:-1]))
        if ok: return True
    return False


def check_tree(text, tree, counts):
    """None or the first failure (string); CR of CRLF line ends is ignored on both sides"""
    L = text.replace('\r', '').split('\n')
    n = len(L)
    fails = []
    def rec(t, prng, path):
        name, s, kids, lits = t
        rng = prng
        here = '/'.join(path + [name])
        if s is not None:
            counts[name] = counts.get(name, 0) + 1
            l0, l1 = s['l0'], s['l1']
            if l1 is None:
                fails.append('%s: end line missing %r' % (here, (l0, l1))); l1 = l0
            if not (isinstance(l0, int) and 1 <= l0 <= l1 <= n):
                fails.append('%s: lines %r outside the file (%d lines)' % (here, (l0, l1), n))
            elif s['str'] is None:
                fails.append('%s: lines %r but no string' % (here, (l0, l1)))
            else:
                seg = L[l0 - 1:l1]
                s = dict(s, str=s['str'].replace('\r', ''))
                if s['str'] not in '\n'.join(seg):
                    fails.append('%s: string %r is not contained in lines %d-%d: %r' % (here, s['str'][:60], l0, l1, '\n'.join(seg)[:60]))
                elif not anchored(s['str'].split('\n'), seg):
                    fails.append('%s: string %r does not sit line by line on lines %d-%d' % (here, s['str'][:60], l0, l1))
            if prng is not None and not (prng[0] <= l0 and l1 <= prng[1]):
                fails.append('%s: lines %r not inside the parent\'s %r' % (here, (l0, l1), prng))
            rng = (l0, l1)
            for v in lits:
                if '\n' in v:
                    fails.append('%s: string literal value %r holds continuation text' % (here, v[:40]))
        prev = None
        for k in kids:
            rec(k, rng, path + [name])
            ks = k[1]
            if ks is not None:
                if prev is not None and ks['l0'] < prev:
                    fails.append('%s: child %s starts at line %d before its predecessor (line %d)' % (here, k[0], ks['l0'], prev))
                prev = ks['l0']
    rec(tree, None, [])
    return fails[0] if fails else None


def check_truth(fe, tree, stmts):
    """the generator's own record of where every statement lies against the IR: None or the first failure"""
    nodes = []
    def rec(t):
        if t[1] is not None: nodes.append((t[0], t[1]['l0'], t[1]['l1']))
        for k in t[2]: rec(k)
    rec(tree)
    exact = {(a, b) for _, a, b in nodes}
    for s, e, kind, rk in stmts:
        if fe == 'fp':
            if kind == 'simple' and (s, e) not in exact:
                return 'the statement on lines %d-%d has no IR node with these lines (nodes starting there: %r)' % (s, e, sorted(set((n, a, b) for n, a, b in nodes if a == s))[:4])
            if kind == 'head' and not any(a == s and b >= e for _, a, b in nodes):
                return 'no IR node starts at line %d where a construct/unit begins (lines %d-%d)' % (s, s, e)
            if kind == 'end' and not any(b == e for _, a, b in nodes):
                return 'no IR node ends at line %d where a construct/unit ends' % e
        elif rk is not None:
            if kind == 'simple' and not any(n == rk and (a, b) == (s, e) for n, a, b in nodes):
                return 'the %s statement on lines %d-%d has no %s node with these lines (found: %r)' % (rk, s, e, rk, sorted(set((n, a, b) for n, a, b in nodes if a == s))[:4])
            if kind == 'head' and not any(n == rk and a == s for n, a, b in nodes):
                return 'no %s node starts at line %d' % (rk, s)
            if kind == 'end' and not any(n == rk and b == e for n, a, b in nodes):
                return 'no %s node ends at line %d' % (rk, e)
    return None


def line_of(starts, k):
    """index of the line holding offset k (starts = offsets of line starts)"""
    i = 0
    while i + 1 < len(starts) and starts[i + 1] <= k: i += 1
    return i


# ------------------------------------------------------------------------------------------------------
# Coq literals
# ------------------------------------------------------------------------------------------------------
def m_source(s):
    return C('mk', s['l0'], None if s['l1'] is None else Some(s['l1']), s['str'], None if s.get('file') is None else Some(s['file']))


def m_item(it): return (C(it[0]), it[1], it[2], it[3])


def m_rexp(r, lines, off=0):
    if r is None: return C('RNone')
    if 'error' in r: return C('RIdxErr') if r['error'] == 'IndexError' else C('RAssertErr')
    l0, l1, st = r['l0'], r['l1'], r['str']
    if r.get('file') is not None or l1 is None: raise ValueError('unexpected reader source %r' % (r,))
    if 0 <= l0 - 1 <= l1 <= len(lines) and '\n'.join(lines[l0 - 1:l1]) == st:
        return C('RSrc', l0, l1, C('SLines', l0 - 1, l1))
    return C('RSrc', l0, l1, C('SLit', st))


def m_sub(sub, lines, out):
    if sub is None: return C('SubNone')
    if 'error' in sub: return C('SubIdxErr')
    off = sub['off']
    i, j = off, off + len(sub['lines'])
    if lines[i:j] != sub['lines']:
        raise ValueError('sub-reader source lines are not a slice of the parent\'s')
    if out['san'][sub['ss']:sub['se']] != sub['san']:
        raise ValueError('sub-reader sanitized lines are not the slice %d:%d of the parent\'s' % (sub['ss'], sub['se']))
    k = out['str'].find(sub['str'])
    sstr = C('StrSlice', Nat(k), Nat(k + len(sub['str']))) if k >= 0 and sub['str'] else C('StrLit', sub['str'])
    return C('Sub', off, i, j, sub['ss'], sub['se'], sub['spans'], sstr,
             m_rexp(sub['head'], lines), m_rexp(sub['tail'], lines), m_rexp(sub['ts_t'], lines))


def san_indices(items, san):
    """positions of the sanitized lines in the item list (they are a subsequence of it)"""
    idx, k = [], 0
    for x in san:
        while k < len(items) and items[k] != x: k += 1
        if k >= len(items): raise ValueError('sanitized line %r is not among the reader items' % (x,))
        idx.append(k); k += 1
    return idx


def reader_term(case, out, with_fpread, given_items):
    lines = out['lines']
    parts = []
    if with_fpread:
        parts.append(coq(C('chk_fpread', Raw('t'), Raw('eits'))))
    parts.append(coq(C('chk_reader', Raw('t'), Raw('its'), Raw('eits'), out['nsrc'], [Nat(i) for i in san_indices(out['items'], out['san'])],
                       out['spans'], out['str'],
                       m_rexp(out['head'], lines), m_rexp(out['tail'], lines), m_rexp(out['ts_f'], lines), m_rexp(out['ts_t'], lines),
                       [m_rexp(x, lines) for x in out['cur']])))
    qs = [(q['a'], None if q['b'] is None else Some(q['b']), bool(q['pad']), m_rexp(q['src'], lines), m_sub(q['sub'], lines, out))
          for q in out['queries']]
    if qs:
        parts.append(coq(C('chk_queries', Raw('t'), Raw('its'), qs)))
    return '(let t := %s in let eits : list item4 := %s in let its : option (list item4) := %s in %s)' % (
        coq(case['text']), coq([m_item(x) for x in out['items']]), 'Some eits' if given_items else 'None', ' && '.join(parts))


# ------------------------------------------------------------------------------------------------------
WORDS = ['alpha', 'Beta', 'x1', 'CALL', 'foo(', ')', '=', '+', 'y_2', '1.0E0', "'s'", 'End', 'do', '&', '!c']


def gen_text(rng, maxlines=6):
    r = rng
    lines = []
    for _ in range(r.randint(1, maxlines)):
        k = r.randint(0, 6)
        lines.append(r.choice(['', ' ', '  ']) + r.choice([' ', '  ', ' ']).join(r.choice(WORDS) for _ in range(k)) + r.choice(['', ' ']))
    t = '\n'.join(lines)
    if r.random() < 0.3: t += '\n'
    if r.random() < 0.1: t = '\n' + t
    return t


def gen_unique_text(rng):
    """every token occurs once and no token is a substring of another one: find()'s first occurrences are the only ones"""
    r = rng
    k = r.randint(2, 12)
    ids = r.sample(range(10, 99), k)
    toks = ['%s%d%s' % (r.choice(['v', 'W', 'q', 'Zz']), i, r.choice(['x', 'Y', '_'])) for i in ids]
    t = ''
    for i, tk in enumerate(toks):
        t += tk
        if i < k - 1: t += r.choice([' ', '  ', '\n', ' \n  ', ' '])
    return t, toks


class C20(Property):
    id = 'C20'
    imports = ['models.M_C20']
    theorem_file = 'theories/props/T_C20.v'
    parallel = True
    shard = 60
    modelled_not_verified = [
        "fparser's free-form line reader (third party) is modelled by M_C20.scan/fp_read only on the generator's class "
        '(no tabs, labels, construct names, CR, cpp continuation, leading ";", cpp lines inside a continued statement); '
        'outside it the items are taken from the real reader (reader-items cases)',
        'the frontends themselves (fparser grammar -> IR, the regex patterns) are not modelled: their source annotations are '
        'checked by the direct oracle on generated programs and on every repository file',
        'Source.clone_lines / source_to_lines, str.splitlines on CR/FF/VT, non-ASCII text, negative span indices are outside the model',
        'bisect_left is modelled by its specification on sorted lists (sanitized_spans is proved strictly increasing)',
    ]

    def __init__(self):
        self._node_counts = {}
        self._base_rule = (
            'Source arithmetic: random multi-line texts (blank/indented lines, trailing newline) x random spans (also None end, beyond the end, '
            'reversed), needles that are case/blank variants of substrings or unrelated, ignore_case x ignore_space, source lists with gaps/'
            'touching/overlapping ranges. FortranReader: random free-form texts (code, comment, blank, pragma, cpp lines, ";" lists, '
            'continuations cut anywhere incl. inside strings, with comment/blank lines in between, strings holding !;&, dangling &) x '
            'line-aligned and arbitrary sanitized spans x include_padding; fparser items, sanitized lines/spans/string, head/tail/to_source/'
            'current line/source_from_sanitized_span/reader_from_sanitized_span (and the sub-reader\'s own head/tail/to_source) compared with the model. '
            'Frontends: generated programs (modules, typedefs, interfaces, nested routines, 25 statement kinds, random layout) and every Fortran '
            'file of the repository, FP and REGEX: every IR node with source is checked (range, containment, line-by-line anchoring, nesting, '
            'sibling order). A case is non-trivial when a continuation/multi-line span/unmatched head or tail is involved; distinct = distinct inputs. ')

    @property
    def rule(self):
        if not self._node_counts: return self._base_rule
        tot = sum(self._node_counts.values())
        return self._base_rule + 'IR nodes with source checked in this run: %d = %s' % (
            tot, json.dumps(dict(sorted(self._node_counts.items(), key=lambda kv: -kv[1]))))

    # -------------------------------------------------------------------------------------------- generation
    def repo_files(self):
        repo = os.environ.get('LOKI_VERIF_REPO', '/repo')
        files = []
        for root, dirs, fs in os.walk(repo):
            dirs[:] = sorted(d for d in dirs if d not in ('build', '.git', '__pycache__'))
            for f in sorted(fs):
                if f.lower().endswith(('.f90', '.f', '.h', '.inc')):
                    files.append(os.path.relpath(os.path.join(root, f), repo))
        return files

    def gen_queries(self, rng, tie_only):
        r = rng
        qs = []
        for _ in range(r.randint(2, 5)):
            i = r.randint(0, 12)
            pad = r.random() < 0.4
            if tie_only:
                x = r.random()
                if x < 0.5: qs.append(['line', i, r.choice([None, i + 1, i + 2, i + 3, i]), r.choice([0, 1, 1]), pad])
                else: qs.append(['abs', r.randint(0, 150), r.choice([None, r.randint(0, 200)]), pad])
            else:
                # in class: start at a line start, end None (sub-reader queries that stop inside the text are the known finding)
                qs.append(['line', i, None, 0, pad])
        return qs

    def generate(self, rng, tier):
        quick = tier == 'quick'
        r = rng
        # ---- Source arithmetic
        for _ in range(120 if quick else 1000):
            t = gen_text(r)
            n = len(t)
            a = r.randint(0, n + 1)
            b = r.choice([None, r.randint(a, n + 2), r.randint(a, n + 2), r.randint(0, n)])
            yield {'kind': 'span', 'text': t, 'l0': r.choice([1, 1, 7, 120]), 'a': a, 'b': b, 'file': r.choice([None, 'f.F90'])}
        for _ in range(120 if quick else 1000):
            t, toks = gen_unique_text(r)
            i = r.randrange(len(toks)); j = r.randint(i, len(toks) - 1)
            x = r.random()
            if x < 0.45:      # exact substring (any offsets), maybe other case
                a = r.randint(0, len(t) - 1); b = r.randint(a + 1, len(t))
                needle = t[a:b]
                isp = r.random() < 0.5
            elif x < 0.9:     # token run with other blanks
                needle = r.choice([' ', '  ', '\n', '\t ']).join(toks[i:j + 1])
                if r.random() < 0.3: needle = ' ' + needle + '  '
                isp = True
            else:             # absent
                needle = 'nowhere' + r.choice(['', ' 9']); isp = r.random() < 0.5
            ic = r.random() < 0.6
            if ic and r.random() < 0.7: needle = r.choice([str.upper, str.lower, str.swapcase])(needle)
            yield {'kind': r.choice(['find', 'cws']), 'text': t, 'l0': r.choice([1, 5]), 'needle': needle, 'ic': ic, 'isp': isp}
        for _ in range(100 if quick else 800):
            t = gen_text(r, 4)
            x = r.random()
            if x < 0.5 and t.strip():
                toks = t.split()
                needle = r.choice([' ', '  ', '\n']).join(r.sample(toks, min(len(toks), r.randint(1, 3))))
            elif x < 0.7 and len(t) > 1:
                a = r.randint(0, len(t) - 1); needle = t[a:r.randint(a, len(t))]
            elif x < 0.8: needle = r.choice(['', ' ', '  \n', 'zz', 'foo( )'])
            else: needle = ' '.join(r.choice(WORDS) for _ in range(r.randint(1, 3)))
            if r.random() < 0.4: needle = needle.swapcase()
            yield {'kind': r.choice(['find-tie', 'cws-tie']), 'text': t, 'l0': 3, 'needle': needle, 'ic': r.random() < 0.5, 'isp': r.random() < 0.7}
        for _ in range(100 if quick else 800):
            tie = r.random() < 0.35
            parts, line = [], r.randint(1, 5)
            for _ in range(r.randint(0 if tie else 1, 5)):
                t = gen_text(r, 3)
                l0 = line + r.choice([0, 0, 1, 2, 3])
                if tie and r.random() < 0.3: l0 = max(1, line - r.randint(1, 3))
                l1 = l0 + t.count('\n')
                if tie:
                    l1 = r.choice([l1, l1, None, l1 + 1, l0])
                parts.append({'l0': l0, 'l1': l1, 'str': t, 'file': r.choice([None, 'a.f90'])})
                line = (l1 if l1 is not None else l0 + t.count('\n'))
            yield {'kind': 'join-tie' if tie else 'join', 'parts': parts}
        # ---- FortranReader
        for _ in range(160 if quick else 1500):
            tie = r.random() < 0.35
            yield {'kind': 'reader-tie' if tie else 'reader', 'text': gen_reader_text(r, tie_only=tie), 'queries': self.gen_queries(r, tie)}
        nprog = 40 if quick else 300
        progs = []
        for _ in range(nprog):
            inner = r.random() < 0.5
            progs.append((gen_program(r, inner_comments=inner), inner))
        for (t, _), inner in progs[:12 if quick else 80]:
            ls = t.split('\n')
            if len(ls) > 45:
                a = r.randint(0, len(ls) - 45); t = '\n'.join(ls[a:a + 45])
            yield {'kind': 'reader-items', 'text': t, 'queries': self.gen_queries(r, False)}
        repo = os.environ.get('LOKI_VERIF_REPO', '/repo')
        files = self.repo_files()
        for f in files:
            try: t = open(os.path.join(repo, f)).read()
            except OSError: continue
            if len(t) < 1500 and t.isascii() and not any(ch in t for ch in '\r\x0b\x0c\x1c\x1d\x1e'):   # (model: '\\n' is the only line break)
                yield {'kind': 'reader-items', 'file': f, 'queries': [['line', 0, None, 0, False], ['line', 1, None, 0, True]]}
        # ---- frontends
        for (t, st), inner in progs:
            yield {'kind': 'frontend', 'fe': 'regex', 'text': t, 'stmts': st}
            if not inner:
                yield {'kind': 'frontend', 'fe': 'fp', 'text': t, 'stmts': st}
            else:
                t2, st2 = gen_program(r, inner_comments=False)
                yield {'kind': 'frontend', 'fe': 'fp', 'text': t2, 'stmts': st2}
        for (t, st), inner in progs[:3 if quick else 30]:
            if not inner:
                for fe in ('fp', 'regex'):
                    yield {'kind': 'frontend', 'fe': fe, 'text': t.replace('\n', '\r\n'), 'stmts': st}
        for f in files:
            for fe in ('fp', 'regex'):
                yield {'kind': 'repo-file', 'fe': fe, 'file': f}

    # -------------------------------------------------------------------------------------------- implementation
    def case_text(self, case):
        if 'text' in case: return case['text']
        repo = os.environ.get('LOKI_VERIF_REPO', '/repo')
        return open(os.path.join(repo, case['file'])).read()

    def run_impl(self, case):
        from loki.frontend.source import Source, join_source_list
        k = case['kind']
        if k == 'span':
            t = case['text']
            s = Source(lines=(case['l0'], case['l0'] + t.count('\n')), string=t, file=case['file'])
            return _src_json(s.clone_with_span((case['a'], case['b'])))
        if k in ('find', 'find-tie', 'cws', 'cws-tie'):
            t = case['text']
            s = Source(lines=(case['l0'], case['l0'] + t.count('\n')), string=t, file='x.f90')
            try:
                if k.startswith('find'):
                    a, b = s.find(case['needle'], ignore_case=case['ic'], ignore_space=case['isp'])
                    return {'span': None if a is None else [a, b]}
                return {'src': _src_json(s.clone_with_string(case['needle'], ignore_case=case['ic'], ignore_space=case['isp']))}
            except IndexError:
                return {'error': 'IndexError'}
        if k in ('join', 'join-tie'):
            srcs = [Source(lines=(p['l0'], p['l1']), string=p['str'], file=p['file']) for p in case['parts']]
            try:
                return {'src': _src_json(join_source_list(srcs))}
            except AssertionError:      # Source((a, b)) with b < a after overlapping parts
                return {'error': 'AssertionError'}
        if k in ('reader', 'reader-tie', 'reader-items'):
            c = dict(case); c['text'] = self.case_text(case)
            out = run_reader(c)
            out['text'] = c['text'] if 'file' in case else None
            return out
        if k in ('frontend', 'repo-file'):
            return run_frontend(self.case_text(case), case['fe'])
        raise ValueError(k)

    # -------------------------------------------------------------------------------------------- model
    def model_term(self, case, out):
        k = case['kind']
        if isinstance(out, dict) and '__exception__' in out:
            raise ValueError('implementation raised %s' % out['__exception__'])
        if k == 'span':
            t = case['text']
            src = C('mk', case['l0'], Some(case['l0'] + t.count('\n')), t, None if case['file'] is None else Some(case['file']))
            return coq(C('chk_span', src, Nat(case['a']), None if case['b'] is None else Some(Nat(case['b'])), m_source(out)))
        if k in ('find', 'find-tie'):
            exp = C('FIndexError') if 'error' in out else (C('FNone') if out['span'] is None else C('FSpan', Nat(out['span'][0]), Nat(out['span'][1])))
            return coq(C('chk_find', case['text'], case['needle'], bool(case['ic']), bool(case['isp']), exp))
        if k in ('cws', 'cws-tie'):
            t = case['text']
            src = C('mk', case['l0'], Some(case['l0'] + t.count('\n')), t, Some('x.f90'))
            exp = None if 'error' in out else Some(m_source(out['src']))
            return coq(C('chk_cws', src, case['needle'], bool(case['ic']), bool(case['isp']), exp))
        if k in ('join', 'join-tie'):
            exp = C('JAssertErr') if 'error' in out else (C('JNone') if out['src'] is None else C('JSrc', m_source(out['src'])))
            return coq(C('chk_join', [m_source(p) for p in case['parts']], exp))
        if k in ('reader', 'reader-tie'):
            return reader_term(case, out, with_fpread=True, given_items=False)
        if k == 'reader-items':
            c = case if 'text' in case else dict(case, text=out['text'])
            return reader_term(c, out, with_fpread=False, given_items=True)
        return None

    # -------------------------------------------------------------------------------------------- oracle
    def oracle(self, case, out):
        k = case['kind']
        if isinstance(out, dict) and '__exception__' in out:
            return 'implementation raised %s: %s' % (out['__exception__'], out.get('msg'))
        if k == 'span':
            return self.oracle_span(case['text'], case['l0'], case['a'], case['b'], out)
        if k == 'find':
            if 'error' in out: return 'find raised %s' % out['error']
            return self.oracle_find(case, out['span'])
        if k == 'cws':
            if 'error' in out: return 'clone_with_string raised %s' % out['error']
            return self.oracle_cws(case, out['src'])
        if k == 'join':
            if 'error' in out: return 'join_source_list raised %s' % out['error']
            return self.oracle_join(case['parts'], out['src'])
        if k in ('reader', 'reader-items'):
            return self.oracle_reader(case, out)
        if k == 'frontend':
            if 'rejected' in out:
                return 'the %s frontend raised %s on a generated program: %s' % (case['fe'], out['rejected'], out['msg'])
            f = check_tree(case['text'], out['tree'], {})
            if f is None and 'stmts' in case: f = check_truth(case['fe'], out['tree'], case['stmts'])
            return f
        if k == 'repo-file':
            if 'rejected' in out: return None
            return check_tree(self.case_text(case), out['tree'], {})
        return None

    @staticmethod
    def oracle_span(t, l0, a, b, out):
        n = len(t)
        a2 = min(a, n); b2 = n if b is None else min(max(b, a2), n)
        exp = t[a2:b2]
        if out['str'] != exp:
            return 'clone_with_span(%r) string %r is not the text at the span %r' % ((a, b), out['str'], exp)
        L = t.split('\n')
        starts = [0]
        for x in L[:-1]: starts.append(starts[-1] + len(x) + 1)
        i, j = line_of(starts, a2), line_of(starts, b2)
        if (out['l0'], out['l1']) != (l0 + i, l0 + j):
            return 'clone_with_span(%r) records lines %r, the span lies on lines %r of the text' % ((a, b), (out['l0'], out['l1']), (l0 + i, l0 + j))
        return None

    @staticmethod
    def _norm(s, ic, isp):
        if ic: s = s.lower()
        if isp: s = ''.join(s.split())
        return s

    def oracle_find(self, case, span):
        t, needle, ic, isp = case['text'], case['needle'], case['ic'], case['isp']
        present = self._norm(needle, ic, False) in self._norm(t, ic, False)
        if span is None:
            return 'find(%r) = None although the string occurs in the text' % needle if present else None
        a, b = span
        if not (0 <= a <= b <= len(t)):
            return 'find(%r) returns the span %r (text length %d)' % (needle, span, len(t))
        if self._norm(t[a:b], ic, isp) != self._norm(needle, ic, isp):
            return 'find(%r, ignore_case=%r, ignore_space=%r) returns %r but the text there is %r' % (needle, ic, isp, span, t[a:b])
        return None

    def oracle_cws(self, case, src):
        t, needle, ic, isp, l0 = case['text'], case['needle'], case['ic'], case['isp'], case['l0']
        L = t.split('\n')
        a, b = src['l0'], src['l1']
        if not (l0 <= a <= b <= l0 + len(L) - 1):
            return 'clone_with_string(%r): lines %r outside the source\'s %r' % (needle, (a, b), (l0, l0 + len(L) - 1))
        if self._norm(src['str'], ic, isp) != self._norm(needle, ic, isp):
            return 'clone_with_string(%r): string %r is not the searched one' % (needle, src['str'])
        found = self._norm(needle, ic, isp) in self._norm(t, ic, isp) if not isp else True
        if src['str'] not in '\n'.join(L[a - l0:b - l0 + 1]) and self._norm(needle, ic, False) in self._norm(t, ic, False):
            return 'clone_with_string(%r): string %r is not on the recorded lines %r' % (needle, src['str'], (a, b))
        if src['str'] != needle and not anchored(src['str'].split('\n'), L[a - l0:b - l0 + 1]):
            return 'clone_with_string(%r): %r does not sit on lines %r' % (needle, src['str'], (a, b))
        return None

    @staticmethod
    def oracle_join(parts, src):
        if not parts: return None if src is None else 'join of nothing gives %r' % (src,)
        if (src['l0'], src['l1']) != (parts[0]['l0'], parts[-1]['l1']):
            return 'joined lines %r, parts go from %r to %r' % ((src['l0'], src['l1']), parts[0]['l0'], parts[-1]['l1'])
        sl = src['str'].split('\n')
        if len(sl) != src['l1'] - src['l0'] + 1:
            return 'joined string has %d lines for the range %r' % (len(sl), (src['l0'], src['l1']))
        # every part sits on its own lines of the joined text; lines covered by no part are empty
        covered = set()
        for p in parts:
            pl = p['str'].split('\n')
            seg = sl[p['l0'] - src['l0']:p['l1'] - src['l0'] + 1]
            if not anchored(pl, seg) and not (len(pl) == len(seg) and all(x in y for x, y in zip(pl, seg))):
                return 'part %r (lines %d-%d) is not at these lines of the joined string %r' % (p['str'], p['l0'], p['l1'], src['str'])
            covered |= set(range(p['l0'], p['l1'] + 1))
        for i, x in enumerate(sl):
            if src['l0'] + i not in covered and x != '':
                return 'line %d of the joined string belongs to no part but holds %r' % (src['l0'] + i, x)
        if ''.join(src['str'].split('\n')) != ''.join(''.join(p['str'].split('\n')) for p in parts):
            return 'joined string %r is not the parts in order' % src['str']
        return None

    def oracle_reader(self, case, out):
        lines = out['lines']
        n = len(lines)
        text = self.case_text(case)
        if lines != (text.strip().split('\n') if text.strip() else []):
            return 'source_lines are not the lines of the stripped text'
        san = out['san']
        def consistent(r, what):
            if r is None or 'error' in r: return None
            l0, l1 = r['l0'], r['l1']
            if n == 0 and (l0, l1, r['str']) == (1, 1, ''): return None      # to_source() of an empty reader
            if not (1 <= l0 <= l1 <= n): return '%s: lines %r outside the text (%d lines)' % (what, (l0, l1), n)
            if r['str'] != '\n'.join(lines[l0 - 1:l1]): return '%s: string %r is not the text of lines %d-%d' % (what, r['str'][:50], l0, l1)
            return None
        prev = None
        for k, it in enumerate(san):
            kind, txt, s, e = it
            if not (1 <= s <= e <= n): return 'sanitized line %d has span %r (text has %d lines)' % (k, (s, e), n)
            if prev is not None and not (prev[1] < s or prev == (s, e)):
                return 'sanitized lines %d and %d have overlapping spans %r, %r' % (k - 1, k, prev, (s, e))
            prev = (s, e)
            # the content comes from the physical lines s..e, in order
            raw = '\n'.join(lines[s - 1:e]).lower()       # (fparser lower-cases ';' lists)
            pos = 0
            for ch in ''.join(txt.lower().split()):
                pos = raw.find(ch, pos)
                if pos < 0: return 'sanitized line %d (%r) is not made of the text of lines %d-%d in order' % (k, txt, s, e)
                pos += 1
            if kind == 'KLine':
                first = lines[s - 1].strip()
                if not first or first[0] in '!#': return 'sanitized line %d starts at line %d which holds no statement' % (k, s)
            if kind == 'KComment' and not (s == e and lines[s - 1].lstrip().startswith('!$')):
                return 'sanitized line %d (%r) is a comment kept as pragma, but line %d is not a pragma line of its own: %r' % (k, txt, s, lines[s - 1])
            if kind == 'KCpp' and not lines[s - 1].lstrip().startswith('#'):
                return 'sanitized line %d (%r) is a preprocessor item, but line %d is %r' % (k, txt, s, lines[s - 1])
            f = consistent(out['cur'][k], 'source_from_current_line(%d)' % k)
            if f: return f
            if (out['cur'][k]['l0'], out['cur'][k]['l1']) != (s, e): return 'source_from_current_line(%d) lines differ from the span' % k
        if out['spans'] != [0] + [sum(len(x[1]) + 1 for x in san[:i + 1]) for i in range(len(san))]:
            return 'sanitized_spans are not the line starts of the sanitized string'
        if out['str'] != '\n'.join(x[1] for x in san): return 'sanitized_string is not the joined sanitized lines'
        for nm in ('head', 'tail', 'ts_f', 'ts_t'):
            f = consistent(out[nm], nm)
            if f: return f
        if san:
            h, t = out['head'], out['tail']
            if san[0][2] > 1 and (h is None or (h['l0'], h['l1']) != (1, san[0][2] - 1)): return 'source_from_head does not cover lines 1-%d' % (san[0][2] - 1)
            if san[0][2] == 1 and h is not None: return 'source_from_head is not empty'
            if san[-1][3] < n and (t is None or (t['l0'], t['l1']) != (san[-1][3] + 1, n)): return 'source_from_tail does not cover lines %d-%d' % (san[-1][3] + 1, n)
            if san[-1][3] == n and t is not None: return 'source_from_tail is not empty'
        spans = out['spans']
        for q in out['queries']:
            a, b, pad, r, sub = q['a'], q['b'], q['pad'], q['src'], q['sub']
            what = 'source_from_sanitized_span(%r, include_padding=%r)' % ((a, b), pad)
            f = consistent(r, what)
            if f: return f
            if not san: continue
            # sanitized lines touched by the span
            touched = [i for i in range(len(san)) if spans[i] < (spans[-1] if b is None else b) and a < spans[i + 1] - 1 + (1 if spans[i + 1] - 1 == spans[i] else 0)]
            if b is not None and b <= a: touched = []
            if touched:
                if r is None or 'error' in r: return '%s returns %r although sanitized lines %r are inside' % (what, r, touched)
                lo = min(san[i][2] for i in touched); hi = max(san[i][3] for i in touched)
                if not (r['l0'] <= lo and hi <= r['l1']):
                    return '%s = lines %r does not contain the physical lines %d-%d of the sanitized lines %r' % (what, (r['l0'], r['l1']), lo, hi, touched)
                if not pad and (r['l0'], r['l1']) != (lo, hi):
                    return '%s = lines %r, the sanitized lines %r lie on %d-%d' % (what, (r['l0'], r['l1']), touched, lo, hi)
            if sub is not None and 'error' not in sub:
                if sub['str'].rstrip('\n') != '\n'.join(x[1] for x in sub['san']):
                    return 'reader_from_sanitized_span(%r): sanitized_string %r is not its sanitized lines %r' % ((a, b), sub['str'], [x[1] for x in sub['san']])
                if sub['lines'] != lines[sub['off']:sub['off'] + len(sub['lines'])]:
                    return 'reader_from_sanitized_span(%r): source lines are not lines %d.. of the text' % ((a, b), sub['off'] + 1)
                for nm in ('head', 'tail', 'ts_t'):
                    f = consistent(sub[nm], 'sub-reader %s' % nm)
                    if f: return f
        return None

    # -------------------------------------------------------------------------------------------- evidence
    def nontrivial_key(self, case, out):
        k = case['kind']
        if not isinstance(out, dict) or '__exception__' in out: return None
        if k in ('frontend', 'repo-file'):
            if 'tree' not in out: return None
            counts = {}
            check_tree(self.case_text(case), out['tree'], counts)
            for c, v in counts.items():
                self._node_counts['%s:%s' % (case['fe'], c)] = self._node_counts.get('%s:%s' % (case['fe'], c), 0) + v
            return ('fe', case['fe'], case.get('file') or case['text'])
        if k == 'span':
            return ('span', case['text'], case['a'], case['b']) if out['l1'] != out['l0'] or out['l0'] != case['l0'] else None
        if k in ('find', 'find-tie'):
            return (k, case['text'], case['needle'], case['ic'], case['isp']) if out.get('span') else None
        if k in ('cws', 'cws-tie'):
            return (k, case['text'], case['needle'], case['ic'], case['isp']) if out.get('src') and out['src']['str'] != case['needle'] or '\n' in case['text'] else None
        if k in ('join', 'join-tie'):
            return (k, json.dumps(case['parts'])) if len(case['parts']) > 1 and 'src' in out else None
        if k in ('reader', 'reader-tie', 'reader-items'):
            if any(x[2] != x[3] for x in out['san']) or out['head'] or out['tail']:
                return (k, case.get('file') or case['text'], json.dumps(case.get('queries')))
            return None
        return None

    def show_model(self, case, out):
        k = case['kind']
        if k in ('reader', 'reader-tie'):
            t = coq(case['text'])
            return ['fp_read (text_lines %s)' % t, 'rd_san (reader_of_text %s)' % t, 'rd_spans (reader_of_text %s)' % t, 'rd_str (reader_of_text %s)' % t,
                    'source_from_head (reader_of_text %s)' % t, 'source_from_tail (reader_of_text %s)' % t] + [
                    '(source_from_span (reader_of_text %s) %s %s %s, reader_from_span (reader_of_text %s) %s %s %s)' % (
                        t, coq(q['a']), coq(None if q['b'] is None else Some(q['b'])), coq(bool(q['pad'])),
                        t, coq(q['a']), coq(None if q['b'] is None else Some(q['b'])), coq(bool(q['pad']))) for q in out.get('queries', [])[:3]]
        if k in ('find', 'find-tie'):
            return ['find %s %s %s %s' % (coq(case['text']), coq(case['needle']), coq(bool(case['ic'])), coq(bool(case['isp'])))]
        if k in ('cws', 'cws-tie'):
            t = case['text']
            return ['clone_with_string %s %s %s %s' % (coq(C('mk', case['l0'], Some(case['l0'] + t.count('\n')), t, Some('x.f90'))), coq(case['needle']), coq(bool(case['ic'])), coq(bool(case['isp'])))]
        if k in ('join', 'join-tie'):
            return ['join_source_list_py %s' % coq([m_source(p) for p in case['parts']])]
        if k == 'span':
            t = case['text']
            return ['clone_with_span %s %s %s' % (coq(C('mk', case['l0'], Some(case['l0'] + t.count('\n')), t, None)), coq(Nat(case['a'])), coq(None if case['b'] is None else Some(Nat(case['b']))))]
        return []

    def search(self, rng, bad_cases):
        """after a model/implementation disagreement: fresh oracle-checked inputs"""
        out = []
        r = rng
        for _ in range(150):
            out.append({'kind': 'reader', 'text': gen_reader_text(r), 'queries': self.gen_queries(r, False)})
        for _ in range(100):
            t = gen_text(r); n = len(t); a = r.randint(0, n)
            out.append({'kind': 'span', 'text': t, 'l0': 1, 'a': a, 'b': r.randint(a, n), 'file': None})
        return out


PROP = C20
