"""C13 — symbols are classified by their declared type and share it by scope."""
import itertools
from ..framework import Property
from ..coqlit import coq, C, Nat, Some, Raw

NAMES = ['x', 'X', 'Foo', 'foo', 'tname', 'TName', 'v']
DKINDS = ['proc', 'derived:tname', 'derived:other', 'basic', 'deferred']

def mk_ty(t):
    """JSON ty {'dk':..., 'shape':bool, 'tag':int} -> SymbolAttributes"""
    from loki.types import BasicType, SymbolAttributes, DerivedType, ProcedureType
    from loki.expression import symbols as sym
    if t is None: return None
    dk = t['dk']
    if dk == 'proc': dt = ProcedureType('p')
    elif dk.startswith('derived:'): dt = DerivedType(dk.split(':')[1])
    elif dk == 'basic': dt = BasicType.INTEGER
    else: dt = BasicType.DEFERRED
    kw = {'vtag': t['tag']}
    if t['shape']: kw['shape'] = (sym.IntLiteral(3),)
    return SymbolAttributes(dt, **kw)

def canon_ty(a):
    from loki.types import BasicType, DerivedType, ProcedureType
    if a is None: return None
    dt = a.dtype
    if isinstance(dt, ProcedureType): dk = 'proc'
    elif isinstance(dt, DerivedType): dk = 'derived:' + dt.name
    elif dt == BasicType.DEFERRED: dk = 'deferred'
    else: dk = 'basic'
    return {'dk': dk, 'shape': bool(a.shape), 'tag': int(a.vtag) if a.vtag is not None else 0}

MEMBERS = ['c', 'arr', 'idx', 'proc']
MEMBER_WANT = {'c': 'KScalar', 'arr': 'KArray', 'idx': 'KScalar', 'proc': 'KProc'}
MEMBER_TY = {'c': 'basic', 'arr': 'basic+shape', 'idx': 'basic', 'proc': 'proc'}
MEMBER_MODULE = '''
module c13_types
  implicit none
  type my_t
    real :: c
    real :: arr(3)
    integer :: idx
  contains
    procedure :: proc => my_proc
  end type my_t
contains
  subroutine my_proc(self)
    class(my_t), intent(inout) :: self
    self%c = 1.0
  end subroutine my_proc
end module c13_types
'''

def canon_member_ty(a):
    from loki.types import BasicType, DerivedType, ProcedureType
    if a is None: return None
    dt = a.dtype
    if isinstance(dt, ProcedureType): return 'proc'
    if isinstance(dt, DerivedType): return 'derived'
    if dt == BasicType.DEFERRED: return 'deferred'
    return 'basic+shape' if a.shape else 'basic'

CLS = {'ProcedureSymbol': 'KProc', 'DerivedTypeSymbol': 'KDerivedType', 'Array': 'KArray', 'Scalar': 'KScalar', 'DeferredTypeSymbol': 'KDeferred'}

def ty_model(t):
    if t is None: return None
    dk = t['dk']
    d = C('DProc') if dk == 'proc' else C('DDerived', dk.split(':')[1]) if dk.startswith('derived:') else C('DBasic') if dk == 'basic' else C('DDeferred')
    return C('Build_ty', d, bool(t['shape']), int(t['tag']))

def oty_model(t): return None if t is None else Some(ty_model(t))

def op_model(o):
    k = o[0]
    if k == 'create': return C('OCreate', o[1], None if o[2] is None else Some(Nat(o[2])), oty_model(o[3]), bool(o[4]))
    if k == 'settable': return C('OSetTable', Nat(o[1]), o[2], ty_model(o[3]))
    if k == 'settype': return C('OSetType', Nat(o[1]), oty_model(o[2]))
    if k == 'clone':
        csc = None if o[3] == 'absent' else Some(None if o[3] is None else Some(Nat(o[3])))
        return C('OClone', Nat(o[1]), None if o[2] is None else Some(o[2]), csc, oty_model(o[4]))
    if k == 'rescope': return C('ORescope', Nat(o[1]), Nat(o[2]))
    raise ValueError(o)

class C13(Property):
    id = 'C13'
    imports = ['models.M_C13']
    theorem_file = 'theories/props/T_C13.v'
    rule = ('classification: exhaustive over name spelling x dtype kind {procedure, derived(same name), derived(other), intrinsic, deferred, no type} x shape x '
            'subscripts given; histories: random sequences (<=40 ops) of create/scope-table update/type setter/clone/rescope over 1-3 nested scopes and names in '
            'several spellings; after the whole history every symbol\'s class and .type and every table are compared with the model; a history is non-trivial when it '
            'contains a table or type update after an attached symbol of the same folded name exists; distinct = distinct op lists')
    modelled_not_verified = [
        'derived-type members (parent%member look-up through typedefs) are covered by the direct oracle only (kind `member`), not by the Coq model; case_sensitive symbols are not modelled',
        'SymbolAttributes contents are abstracted to (dtype kind, has shape, a version tag)',
        'weak references to scopes (a collected scope) are outside the model',
    ]

    def generate(self, rng, tier):
        tys = [None] + [{'dk': dk, 'shape': sh, 'tag': 1} for dk in DKINDS for sh in (False, True)]
        for name, t, dims in itertools.product(['tname', 'TNAME', 'x', 'Tname'], tys, [False, True]):
            if dims and t and (t['dk'] == 'proc' or (t['dk'] == 'derived:tname' and name.lower() == 'tname')):
                continue   # ProcedureSymbol/DerivedTypeSymbol constructors take no subscripts
            yield {'kind': 'classify', 'name': name, 'ty': t, 'dims': dims}
        # derived-type members (parent%member look-up through typedefs): oracle-only stream (not in the Coq model)
        nm = 40 if tier == 'quick' else 400
        for _ in range(nm):
            steps = []
            known = rng.random() < 0.3
            for _ in range(rng.randint(2, 7)):
                r = rng.random()
                if r < 0.45:
                    steps.append(['create', rng.choice(MEMBERS), rng.choice(['name', 'parent', 'gdtm']), rng.random() < 0.5])
                elif r < 0.7:
                    steps.append(['typedef', rng.random() < 0.7])
                elif r < 0.8:
                    steps.append(['refresh'])
                else:
                    steps.append(['clone', rng.randrange(8)])
            steps.append(['typedef', True])
            for m in rng.sample(MEMBERS, 2):
                steps.append(['create', m, rng.choice(['name', 'parent', 'gdtm']), rng.random() < 0.5])
            yield {'kind': 'member', 'known0': known, 'steps': steps, 'nested_scope': rng.random() < 0.4}
        n = 250 if tier == 'quick' else 4000
        for _ in range(n):
            ns = rng.randint(1, 3)
            ops, nsym, tag = [], 0, 1
            def rty(allow_none=True):
                nonlocal tag
                if allow_none and rng.random() < 0.2: return None
                tag += 1
                return {'dk': rng.choice(['basic', 'basic', 'deferred', 'derived:other', 'proc']), 'shape': rng.random() < 0.3, 'tag': tag}
            for _ in range(rng.randint(3, 40 if tier != 'quick' else 25)):
                r = rng.random()
                nm = rng.choice(NAMES)
                if nsym == 0 or r < 0.3:
                    ops.append(['create', nm, rng.choice([None] + list(range(ns))), rty(), False]); nsym += 1
                elif r < 0.55:
                    ops.append(['settable', rng.randrange(ns), nm, rty(False)])
                elif r < 0.7:
                    ops.append(['settype', rng.randrange(nsym), rty()])
                elif r < 0.87:
                    ops.append(['clone', rng.randrange(nsym), rng.choice([None, None, nm]), rng.choice(['absent', 'absent', None] + list(range(ns))), rty() if rng.random() < 0.4 else None]); nsym += 1
                else:
                    ops.append(['rescope', rng.randrange(nsym), rng.randrange(ns)]); nsym += 1
            yield {'kind': 'history', 'nscopes': ns, 'ops': ops}

    def run_member(self, case):
        """derived-type members: a%m created by name before/after the typedef of `a` becomes known"""
        from loki import Module, Scope, SymbolAttributes, DerivedType, Variable
        from loki.frontend import FP
        module = Module.from_source(MEMBER_MODULE, frontend=FP)
        typedef = module['my_t']
        outer = Scope()
        scope = Scope(parent=outer) if case['nested_scope'] else outer
        def set_a(known):
            dt = DerivedType(name='my_t', typedef=typedef) if known else DerivedType(name='my_t')
            # the type is recorded in the scope the symbols are attached to (an attached symbol copies an inherited
            # entry into its own scope, so an update of the enclosing scope alone would be shadowed)
            Variable(name='a', scope=scope, type=SymbolAttributes(dt))
        set_a(case['known0'])
        known = case['known0']
        syms, log = [], []
        for st in case['steps']:
            k = st[0]
            if k == 'typedef':
                set_a(st[1]); known = known or st[1]
                if not st[1]: known = False
            elif k == 'refresh':
                _ = Variable(name='a', scope=scope).variable_map
            elif k == 'clone':
                if syms: syms.append(syms[st[1] % len(syms)].clone())
            elif k == 'create':
                a = Variable(name='a', scope=scope)
                m = st[1]
                try:
                    if st[2] == 'name': v = Variable(name='a%' + (m.upper() if st[3] else m), scope=scope)
                    elif st[2] == 'parent': v = Variable(name='a%' + m, scope=scope, parent=a)
                    else:
                        if not known: continue
                        v = a.get_derived_type_member(m)
                except (AssertionError, AttributeError, KeyError) as e:
                    log.append({'m': m, 'how': st[2], 'known': known, 'cls': 'raise:' + type(e).__name__, 'ty': None}); continue
                syms.append(v)
                log.append({'m': m, 'how': st[2], 'known': known, 'cls': CLS[type(v).__name__]})
        # all .type queries afterwards
        final = [{'name': v.name.lower(), 'cls': CLS[type(v).__name__], 'ty': canon_member_ty(v.type)} for v in syms]
        return {'log': log, 'final': final, 'known': known}

    def run_impl(self, case):
        from loki.expression import symbols as sym
        from loki.types import Scope
        if case['kind'] == 'member':
            return self.run_member(case)
        if case['kind'] == 'classify':
            kw = {'name': case['name'], 'type': mk_ty(case['ty'])}
            if case['dims']: kw['dimensions'] = (sym.IntLiteral(1),)
            return {'cls': CLS[type(sym.Variable(**kw)).__name__]}
        scopes = []
        for i in range(case['nscopes']):
            scopes.append(None)
        parent = None
        for i in reversed(range(case['nscopes'])):
            scopes[i] = Scope(parent=parent); parent = scopes[i]
        syms = []
        nops = 0
        for o in case['ops']:
          try:
            k = o[0]
            if k == 'create':
                syms.append(sym.Variable(name=o[1], scope=None if o[2] is None else scopes[o[2]], type=mk_ty(o[3])))
            elif k == 'settable':
                scopes[o[1]].symbol_attrs[o[2]] = mk_ty(o[3])
            elif k == 'settype':
                syms[o[1]].type = mk_ty(o[2])
            elif k == 'clone':
                kw = {}
                if o[2] is not None: kw['name'] = o[2]
                if o[3] != 'absent': kw['scope'] = None if o[3] is None else scopes[o[3]]
                if o[4] is not None: kw['type'] = mk_ty(o[4])
                syms.append(syms[o[1]].clone(**kw))
            elif k == 'rescope':
                syms.append(syms[o[1]].rescope(scopes[o[2]]))
            nops += 1
          except (TypeError, AssertionError):
            # e.g. ProcedureSymbol(dimensions=()) when an Array whose type became a procedure type is rescoped:
            # the history is compared up to the last operation that completed
            break
        out = {'nops': nops, 'syms': [[CLS[type(y).__name__], canon_ty(y.type)] for y in syms],
               'tables': [sorted([k, canon_ty(v)] for k, v in dict.items(s.symbol_attrs)) for s in scopes],
               'attached': [None if y.scope is None else [i for i, s in enumerate(scopes) if s is y.scope][0] for y in syms],
               'names': [y.name for y in syms]}
        return out

    def model_term(self, case, out):
        if case['kind'] == 'member':
            return None
        if 'cls' not in out and 'syms' not in out:
            raise ValueError('implementation raised: %r' % (out,))
        if case['kind'] == 'classify':
            return coq(C('chk_classify', case['name'], oty_model(case['ty']), bool(case['dims']), C(out['cls'])))
        syms = [(C(c), oty_model(t)) for c, t in out['syms']]
        tabs = [[(k, ty_model(v)) for k, v in tab] for tab in out['tables']]
        return coq(C('chk_history', Nat(case['nscopes']), [op_model(o) for o in case['ops'][:out['nops']]], syms, tabs))

    def oracle(self, case, out):
        if '__exception__' in out:
            return 'implementation raised %s: %s' % (out['__exception__'], out.get('msg'))
        if case['kind'] == 'member':
            for e in out['log']:
                if e['cls'].startswith('raise:'):
                    return 'creating a%%%s (%s) raised %s' % (e['m'], e['how'], e['cls'][6:])
                if e['known'] and e['cls'] != MEMBER_WANT[e['m']]:
                    return 'a%%%s created (%s) while the typedef of a is recorded is a %s, the recorded type makes it a %s' % (e['m'], e['how'], e['cls'], MEMBER_WANT[e['m']])
            if out['known']:
                for f in out['final']:
                    if '%' not in f['name']:
                        continue   # created by full name without parent: a free-standing symbol named after the component
                    m = f['name'].split('%')[-1]
                    if f['ty'] != MEMBER_TY[m]:
                        return 'symbol %s attached to the scope reports type %r after the typedef of a was recorded, expected %r' % (f['name'], f['ty'], MEMBER_TY[m])
            return None
        if case['kind'] == 'classify':
            t, dims, name = case['ty'], case['dims'], case['name']
            if t and t['dk'] == 'proc': exp = 'KProc'
            elif t and t['dk'].startswith('derived:') and t['dk'].split(':')[1].lower() == name.lower(): exp = 'KDerivedType'
            elif dims or (t and t['shape']): exp = 'KArray'
            elif t and t['dk'] != 'deferred': exp = 'KScalar'
            else: exp = 'KDeferred'
            return None if out['cls'] == exp else 'Variable(name=%r, type=%r, dims=%r) is a %s, the documented tiers give %s' % (name, t, dims, out['cls'], exp)
        # sharing: attached symbols with the same folded name and scope agree
        seen = {}
        for (c, t), sc, nm in zip(out['syms'], out['attached'], out['names']):
            if sc is None: continue
            k = (sc, nm.lower())
            if k in seen and seen[k] != t:
                return 'two symbols %r attached to scope %d report different types %r / %r' % (nm, sc, seen[k], t)
            seen[k] = t
        # replay with a reference: detached symbols keep the type they were given; attached ones see the scope chain
        ref_tabs = [dict() for _ in range(case['nscopes'])]
        def resolve(i, n):
            for tb in ref_tabs[i:]:
                if n.lower() in tb: return tb[n.lower()]
            return None
        DEF = {'dk': 'deferred', 'shape': False, 'tag': 0}
        ref = []   # (name, scope, local)
        def create(n, sc, t):
            if sc is None:
                ref.append([n, None, t if t is not None else DEF]); return
            t2 = t if t is not None else resolve(sc, n)
            ref_tabs[sc][n.lower()] = t2 if t2 is not None else DEF
            ref.append([n, sc, None])
        def read(y):
            return y[2] if y[1] is None else resolve(y[1], y[0])
        for o in case['ops'][:out['nops']]:
            k = o[0]
            if k == 'create': create(o[1], o[2], o[3])
            elif k == 'settable': ref_tabs[o[1]][o[2].lower()] = o[3]
            elif k == 'settype':
                y = ref[o[1]]
                if y[1] is None: y[2] = o[2]
                else: ref_tabs[y[1]][y[0].lower()] = o[2] if o[2] is not None else DEF
            elif k == 'clone':
                y = ref[o[1]]
                n = o[2] if o[2] is not None else y[0]
                sc = y[1] if o[3] == 'absent' else o[3]
                t = o[4]
                if t is None:
                    if sc is not None and n.lower() in ref_tabs[sc]: t = ref_tabs[sc][n.lower()]
                    else: t = read(y)
                create(n, sc, t)
            elif k == 'rescope':
                y = ref[o[1]]
                t = None
                if read(y) is not None:
                    t = resolve(o[2], y[0])
                if t is None:
                    if y[0].lower() in ref_tabs[o[2]]: t = ref_tabs[o[2]][y[0].lower()]
                    else: t = read(y)
                create(y[0], o[2], t)
        for j, (y, (c, t)) in enumerate(zip(ref, out['syms'])):
            if read(y) != t:
                return 'symbol #%d (%r, scope %r) reports type %r, the scoped-mapping reference gives %r' % (j, y[0], y[1], t, read(y))
        return None

    def nontrivial_key(self, case, out):
        if case['kind'] == 'member': return str(case['steps'])
        if case['kind'] == 'classify': return ('c', case['name'], str(case['ty']), case['dims'])
        ops = case['ops']
        have = set()
        for o in ops:
            if o[0] == 'create' and o[2] is not None: have.add(o[1].lower())
            if o[0] == 'settable' and o[2].lower() in have: return str(ops)
            if o[0] == 'settype' and have: return str(ops)
        return None

    def show_model(self, case, out):
        if case['kind'] == 'classify': return []
        ops = coq([op_model(o) for o in case['ops'][:out.get('nops', len(case['ops']))]])
        return ['observe_syms (run %d%%nat %s)' % (case['nscopes'], ops), 'st_scopes (run %d%%nat %s)' % (case['nscopes'], ops)]

PROP = C13
