"""C43 — lint auto-fix changes only what the fixed rules target.

The REAL path  Sourcefile.from_file -> Linter.check -> Linter.fix (Fixer, Transformer, conservative backend,
Sourcefile.write)  is run on generated Fortran files in scratch directories.  From the ORIGINAL parse a statement
tree is extracted (per node: own source lines, kind, the mapper action the rule's fix gives it, and the text the
structural printer produces for that node in isolation); the Coq model (M_C43.v: mapper + Transformer with
source invalidation + conservative printer) must reproduce the whole rewritten file from that tree (`chk_output`).
The oracle checks the property text on the real output: changed lines belong to reported statements, token lists
inside them agree modulo operator spelling / blanks / letter case, strings and comments survive, re-lint is clean,
(thorough) gfortran output of original and fixed program agree.
"""
import os, re, json, tempfile, shutil, difflib
from pathlib import Path

from ..framework import Property
from ..coqlit import coq, C, Nat, Raw

# ------------------------------------------------------------------------------------------------------------
# rules
# ------------------------------------------------------------------------------------------------------------
def _rules():
    import lint_rules.ifs_coding_standards_2011 as r11
    import lint_rules.debug_rules as dbg

    class Fortran90OperatorsRule(r11.Fortran90OperatorsRule):   # same name: config keys / messages unchanged
        """the shipped rule with the one statement of fixes.d/C43_1.diff applied in a subclass: the shipped
        `fix_subroutine` calls the non-existent `Node.update_metadata` (finding F-C43-1); check() is inherited"""
        @classmethod
        def fix_subroutine(cls, subroutine, rule_report, config):
            mapper = {}
            for report in rule_report.problem_reports:
                new_expr = report.location
                new_expr._update(source=None)           # pylint: disable=protected-access
                mapper[report.location] = new_expr
            return mapper

    return {'f90real': r11.Fortran90OperatorsRule, 'f90': Fortran90OperatorsRule, 'ubound': dbg.DynamicUboundCheckRule}

# node classes for which FortranCodegenConservative returns the source text of a VALID node
VERB = {'Assignment', 'CallStatement', 'Comment', 'CommentBlock', 'VariableDeclaration', 'Import'}
BLOCK = {'Loop': 'BLoop', 'Conditional': 'BCond', 'WhileLoop': 'BOther', 'MaskedStatement': 'BOther', 'MultiConditional': 'BOther'}
MARK = '@@C43M%d@@'

def _gen(depth):
    from loki.backend.fgencon import FortranCodegenConservative
    from loki.backend.style import FortranStyle
    return FortranCodegenConservative(style=FortranStyle(), depth=depth)

def _lines(s):
    return [] if s is None else s.split('\n')

def _is_inline_comment(n):
    if type(n).__name__ != 'Comment' or not n.source or n.source.string is None:
        return False
    pre = n.source.string.split('!', 1)[0] if '!' in n.source.string else ''
    return bool(pre) and not pre.isspace()

def _expand(nodes):
    """a CommentBlock that starts with an in-line comment (comment on a statement line followed by comment or blank
    lines) is printed comment by comment; split it so that the in-line part has no own line"""
    out = []
    for c in (nodes or ()):
        if type(c).__name__ == 'CommentBlock' and c.comments and _is_inline_comment(c.comments[0]):
            out.extend(c.comments)
        else:
            out.append(c)
    return tuple(out)

def _sections(n):
    t = type(n).__name__
    if t in ('Loop', 'WhileLoop'): r = [('body', n.body)]
    elif t == 'Conditional': r = [('body', n.body), ('else_body', n.else_body)]
    elif t == 'MaskedStatement': r = [('bodies', b) for b in n.bodies] + [('default', n.default)]
    elif t == 'MultiConditional': r = [('bodies', b) for b in n.bodies] + [('else_body', n.else_body)]
    else: raise ValueError(t)
    return [(a, _expand(b)) for a, b in r]

def _split_marks(text, nmarks):
    """split generated text at the marker comment lines -> nmarks+1 pieces (lists of lines)"""
    pieces, cur, k = [], [], 0
    for ln in _lines(text):
        if k < nmarks and ln.strip() == '!' + MARK % k:
            pieces.append(cur); cur = []; k += 1
        else:
            cur.append(ln)
    pieces.append(cur)
    if k != nmarks:
        raise ValueError('marker lost in %r' % text)
    return pieces

def _regen_frame(n, depth, is_elseif):
    """text the structural printer gives for the node's own lines: [header, sep_1, .., footer] (lists of lines);
    obtained from the real generator on a source-less copy whose sections are replaced by marker comments"""
    from loki.ir import Comment
    t = type(n).__name__
    mk = lambda i: (Comment(text='!' + MARK % i),)
    kw = {'is_elseif': True} if is_elseif else {}
    if t in ('Loop', 'WhileLoop'):
        return _split_marks(_gen(depth).visit(n.clone(source=None, body=mk(0)), **kw), 1)
    if t == 'Conditional':
        if n.inline:
            txt = _gen(depth).visit(n.clone(source=None, body=mk(0)))
            pre = txt.split('!' + MARK % 0)[0]
            return [[pre], []]
        if n.has_elseif:
            inner = n.else_body[0].clone(source=None, body=mk(1), else_body=(), has_elseif=False)
            p = _split_marks(_gen(depth).visit(n.clone(source=None, body=mk(0), else_body=(inner,)), **kw), 2)
            return [p[0], []]
        if n.else_body:
            return _split_marks(_gen(depth).visit(n.clone(source=None, body=mk(0), else_body=mk(1)), **kw), 2)
        return _split_marks(_gen(depth).visit(n.clone(source=None, body=mk(0), else_body=()), **kw), 1)
    if t == 'MaskedStatement':
        nb = len(n.bodies)
        if n.default:
            return _split_marks(_gen(depth).visit(n.clone(source=None, bodies=tuple(mk(i) for i in range(nb)), default=mk(nb))), nb + 1)
        return _split_marks(_gen(depth).visit(n.clone(source=None, bodies=tuple(mk(i) for i in range(nb)), default=())), nb)
    if t == 'MultiConditional':
        nb = len(n.bodies)
        if n.else_body:
            return _split_marks(_gen(depth).visit(n.clone(source=None, bodies=tuple(mk(i) for i in range(nb)), else_body=mk(nb))), nb + 1)
        return _split_marks(_gen(depth).visit(n.clone(source=None, bodies=tuple(mk(i) for i in range(nb)), else_body=())), nb)
    raise ValueError(t)

class _Tree:
    """statement tree of one parsed file (JSON-serialisable lists), with the node identities kept aside"""
    def __init__(self, L):
        self.L = L            # file lines
        self.byid = {}        # id(loki node) -> json node
        self.owner = {}       # line number -> json node owning that line as an own (frame or leaf) line

    def src(self, n):
        s, e = n.source.lines
        return self.L[s - 1:(e if e else s)]

    def leaf(self, n, depth):
        t = type(n).__name__
        if _is_inline_comment(n):
            j = ['L', 'LInline', 0, [], _lines(_gen(0).visit(n)), n.source.lines[0]]
            self.byid[id(n)] = j
            return j
        if t in VERB:
            regen = _lines(_gen(depth).visit(n.clone(source=None)))
            kind = 'LVerb'
        else:
            regen = _lines(_gen(depth).visit(n))
            kind = 'LRegen'
        j = ['L', kind, 0, self.src(n), regen, n.source.lines[0]]
        for k in range(n.source.lines[0], (n.source.lines[1] or n.source.lines[0]) + 1):
            self.owner[k] = j
        self.byid[id(n)] = j
        return j

    def node(self, n, depth, is_elseif=False):
        """JSON block ['B', kind, action, hdr_src, rhdr, ftr_src, rftr, has_elseif, kids, rhdr_other_role, is_elseif_kid, line]"""
        t = type(n).__name__
        if t not in BLOCK or (t == 'MaskedStatement' and n.inline):
            return self.leaf(n, depth)
        s, e = n.source.lines
        e = e or s
        secs = [tuple(sec or ()) for _, sec in _sections(n)]
        frame = _regen_frame(n, depth, is_elseif)
        if t == 'Conditional' and n.inline:
            j = ['B', 'BInline', 0, self.L[s - 1:e], frame[0], [], [], False, None, frame[0], False, s]
            for k in range(s, e + 1): self.owner[k] = j
            j[8] = [self.node(c, 0) for sec in secs for c in sec]
            self.byid[id(n)] = j
            return j
        elseif = bool(t == 'Conditional' and n.has_elseif)
        rhx = _regen_frame(n, depth, not is_elseif)[0] if t == 'Conditional' else frame[0]
        j = ['B', BLOCK[t], 0, None, frame[0], None, frame[-1], elseif, None, rhx, bool(is_elseif), s]
        kids, pending, hdr, pos = [], [], None, s
        for si, sec in enumerate(secs):
            first = True
            for c in sec:
                if _is_inline_comment(c):
                    lf = self.leaf(c, depth + 2)
                    (pending if c.source.lines[0] >= pos else kids).append(lf)
                    continue
                cs, ce = c.source.lines
                gap = list(range(pos, cs))
                if hdr is None:
                    hdr = gap
                elif gap:
                    rs = frame[si] if (first and 1 <= si < len(frame) - 1) else []
                    kids.append(['L', 'LSep', 0, [self.L[k - 1] for k in gap], rs, gap[0]])
                    for k in gap: self.owner[k] = j
                kids.extend(pending); pending = []
                kids.append(self.node(c, depth if (elseif and si == 1) else depth + 2, is_elseif=(elseif and si == 1)))
                pos = (ce or cs) + 1
                first = False
        if hdr is None:
            hdr = list(range(s, e)) if e > s else [s]
            pos = e if e > s else e + 1
        kids.extend(pending)
        ftr = list(range(pos, e + 1))
        j[3] = [self.L[k - 1] for k in hdr]
        j[5] = [self.L[k - 1] for k in ftr]
        for k in hdr + ftr: self.owner[k] = j
        j[8] = kids
        self.byid[id(n)] = j
        return j

# ------------------------------------------------------------------------------------------------------------
# real run + extraction
# ------------------------------------------------------------------------------------------------------------
def _file_items(sf, tree):
    """top-level items: ['text', lines] | ['routine', hsrc, hregen, kids, fsrc, fregen, line] | ['opaque', src, regen]"""
    from loki import Subroutine, Module
    from loki.frontend.source import SourceStatus
    items, routines = [], []
    for it in sf.ir.body:
        if isinstance(it, Subroutine) and not it.is_function:
            s, e = it.source.lines
            nodes = list(_expand(list(it.docstring) + list(it.spec.body) + list(it.body.body)))
            kids = [tree.node(c, 2) for c in nodes]
            real = [c for c in nodes if not _is_inline_comment(c)]
            last = max([(c.source.lines[1] or c.source.lines[0]) for c in real], default=s)
            first = min([c.source.lines[0] for c in real], default=e)
            for sec in (it.spec, it.body):
                # an empty Section keeps a VALID (empty) source: the backend prints that string
                if not sec.body and sec.source is not None and sec.source.string is not None:
                    kids.append(['L', 'LInline', 0, [], _lines(sec.source.string), sec.source.lines[0]])
            if it.contains is not None:
                cn = [c for c in it.contains.body if getattr(c, 'source', None) is not None]
                cs, ce = min(c.source.lines[0] for c in cn), max((c.source.lines[1] or c.source.lines[0]) for c in cn)
                kids.append(['L', 'LRegen', 0, tree.L[cs - 1:ce], _lines(_gen(2).visit(it.contains)), cs])
                last = max(last, ce)
            g = _gen(0)
            r = ['routine', tree.L[s - 1:first - 1], _lines(g._construct_subroutine_header(it)), kids,
                 tree.L[last:e], _lines(g._construct_procedure_footer(it)), s]
            items.append(r); routines.append((it, r))
        elif isinstance(it, (Subroutine, Module)):
            st = it.source.status
            it.source.status = SourceStatus.INVALID_NODE      # what Fixer.fix_module does; restored below
            try:
                regen = _lines(_gen(0).visit(it))
            finally:
                it.source.status = st
            items.append(['opaque', tree.src(it), regen, list(it.source.lines)])
        else:
            items.append(['text', tree.src(it)])
    return items, routines

def _reports(rep):
    out = []
    for rr in rep.reports:
        for pr in rr.problem_reports:
            src = getattr(pr.location, 'source', None)
            out.append([rr.rule.__name__, str(pr.msg), list(src.lines) if src else None, type(pr.location).__name__])
    return out

def _exc_name(e):
    """exception class; the IndexError of `line[0]` in Fortran90OperatorsRule.check_subroutine (empty candidate-line
    list) is recognised by the raising source line"""
    import traceback
    tb = traceback.extract_tb(e.__traceback__)
    if isinstance(e, IndexError) and tb and tb[-1].name == 'check_subroutine' and 'line[0]' in (tb[-1].line or ''):
        return 'IndexError@line[0]'
    return type(e).__name__

def extract(text, mode, keep=None):
    """original text -> {'orig', 'fixed', 'items', 'reports', 'check_error', 'fix_error', 'relint', ...}"""
    from loki import Sourcefile
    from loki.lint import Linter, Reporter, DefaultHandler
    rule = _rules()[mode]
    d = tempfile.mkdtemp(prefix='lv_c43_')
    out = {'mode': mode}
    try:
        p = Path(d) / 'c43case.F90'
        p.write_text(text)
        L = text.split('\n')
        if L and L[-1] == '': L = L[:-1]
        out['orig'] = L
        msgs = []
        linter = Linter(Reporter([DefaultHandler(target=msgs.append, immediate_output=False)]), rules=[rule], config={'fix': True})
        sf = Sourcefile.from_file(p)
        tree = _Tree(L)
        items, routines = _file_items(sf, tree)
        # check + fix exactly as check_and_fix_file does (exceptions become a file error, the file is left alone)
        try:
            rep = linter.check(sf)
        except Exception as e:      # pylint: disable=broad-except
            out['check_error'] = _exc_name(e)
            rep = None
        out['reports'] = _reports(rep) if rep is not None else []
        if rep is not None:
            if mode != 'ubound':
                for rr in rep.reports:
                    for pr in rr.problem_reports:
                        j = tree.byid.get(id(pr.location))
                        if j is not None: j[2] = 1
            try:
                linter.fix(sf, rep)
            except Exception as e:  # pylint: disable=broad-except
                out['fix_error'] = type(e).__name__
            if mode != 'ubound' and 'fix_error' not in out:
                _found_flags(sf, rep, tree)
            if mode == 'ubound':
                # (an exception of the printer comes after Fixer.fix: the IR is already transformed)
                _ubound_actions(sf, tree, routines)
        F = p.read_text().split('\n')
        if F and F[-1] == '': F = F[:-1]
        out['fixed'] = F
        # inline comments belong to the statement on whose line they sit
        for j in tree.byid.values():
            if j[0] == 'L' and j[1] == 'LInline':
                o = tree.owner.get(j[5])
                j[2] = 1 if (o is not None and o[2] != 0) else 0
        for it in items:
            if it[0] == 'opaque':
                s0, e0 = it[3]
                it[3] = None
                it.append(any(r[2] and s0 <= r[2][0] <= (e0 or s0) for r in out['reports']))
        out['items'] = items
        # re-lint the rewritten file
        try:
            linter2 = Linter(Reporter([DefaultHandler(target=msgs.append, immediate_output=False)]), rules=[rule], config={})
            rep2 = linter2.check(Sourcefile.from_file(p))
            out['relint'] = _reports(rep2)
        except Exception as e:      # pylint: disable=broad-except
            out['relint_error'] = '%s: %s' % (_exc_name(e), str(e)[:200])
        return out
    finally:
        if keep is None:
            shutil.rmtree(d, ignore_errors=True)

def _all_nodes(ns, acc):
    from loki import Node
    from loki.tools import flatten
    for n in ns:
        acc.add(id(n))
        _all_nodes([x for c in n.children for x in flatten([c]) if isinstance(x, Node)], acc)
    return acc

def _found_flags(sf, rep, tree):
    """did the Transformer's mapper look-up find the reported block (children kept by identity) or miss it
    (children rebuilt)?  Only observable - and only relevant - for blocks with child nodes."""
    from loki import Node, Subroutine
    from loki.tools import flatten
    new = set()
    for it in sf.ir.body:
        if isinstance(it, Subroutine):
            _all_nodes(list(it.docstring) + list(it.spec.body) + list(it.body.body), new)
    for rr in rep.reports:
        for pr in rr.problem_reports:
            n = pr.location
            j = tree.byid.get(id(n))
            if j is None or j[0] != 'B': continue
            ch = [x for c in n.children for x in flatten([c]) if isinstance(x, Node)]
            if ch and id(ch[0]) not in new:
                j[2] = 4

def _ubound_actions(sf, tree, routines):
    """DynamicUboundCheckRule: which original nodes the fix dropped (action 2) or replaced (action 3 + new text),
    read off the fixed IR level by level: an original node survives iff a node starting at the same source line with
    a VALID / INVALID_CHILDREN source is still there; source-less and INVALID_NODE nodes are new text that replaces
    the first vanished original before the next surviving one"""
    for rt, r in routines:
        _ub_level(tree, r[3], list(rt.docstring) + list(rt.spec.body) + list(rt.body.body), 2)

def _ub_level(tree, jkids, live, depth):
    from loki.frontend.source import SourceStatus
    from loki import Node
    from loki.tools import flatten
    def key(n): return tuple(n.source.lines) if (n.source is not None and n.source.status != SourceStatus.INVALID_NODE) else None
    livekeys = {}
    pend = []                      # source-less / invalid nodes waiting for the next surviving node
    groups = {}                    # line of surviving/first dropped original -> new text placed before it
    order = []
    for n in live:
        k = key(n)
        if k is None:
            pend.append(n)
        else:
            livekeys[k[0]] = (n, pend); pend = []
    tail = pend
    # walk the original kids: a kid whose start line is not alive was dropped or replaced
    dropped = []
    for j in jkids:
        if j[1] in ('LInline', 'LSep'): continue
        ln = j[-1]
        if ln in livekeys:
            n, before = livekeys[ln]
            if before and dropped:
                dj = dropped[0]
                dj[2] = 3; dj[4] = [l for m in before for l in _lines(_gen(depth).visit(m))]
            elif before:
                raise ValueError('new nodes without a replaced original')
            dropped = []
            if j[0] == 'B' and j[1] != 'BInline':
                secs = [x for _, sec in _sections(n) for x in (sec or ())]
                _ub_level(tree, j[8], secs, depth + 2)
        else:
            j[2] = 2
            dropped.append(j)
    if tail:
        if not dropped: raise ValueError('new nodes at the end without a replaced original')
        dropped[0][2] = 3; dropped[0][4] = [l for m in tail for l in _lines(_gen(depth).visit(m))]

# ------------------------------------------------------------------------------------------------------------
# Python mirror of the Coq model (M_C43.v) — used for diagnosis only (show_model / self test), never for a verdict
# ------------------------------------------------------------------------------------------------------------
def _reported(j): return j[2] != 0 and j[1] not in ('LInline', 'LSep')
def _has_action(j):
    if _reported(j): return True
    return j[0] == 'B' and any(_has_action(k) for k in j[8])
def _rep_desc(j): return j[0] == 'B' and any(_has_action(k) for k in j[8])

def _src_of(j):
    if j[0] == 'L': return list(j[3])
    if j[1] == 'BInline': return list(j[3])
    return list(j[3]) + [l for k in j[8] for l in _src_of(k)] + list(j[5])

def _transform(j):
    """-> status tree: (json, status, kids)"""
    if j[0] == 'L':
        return (j, 'NOSRC' if _reported(j) else 'VALID', [])
    if _reported(j) and j[2] != 4:
        return (j, 'NOSRC', [_untouched(k) for k in j[8]])
    kids = [_transform(k) for k in j[8]]
    if _reported(j): st = 'NOSRC'
    else: st = 'INV_CHILDREN' if any(k[1] != 'LSep' for k in j[8]) else 'VALID'
    return (j, st, kids)

def _untouched(j):
    return (j, 'NOSRC' if _reported(j) else 'VALID', [_untouched(k) for k in j[8]] if j[0] == 'B' else [])

def _last_else(lines):
    c = [l for l in lines if l.upper().strip() == 'ELSE']
    return [c[-1]] if c else ['<no ELSE line>']

class _Raise(Exception): pass

def _emit(t, sepmode=None, ise=False):
    j, st, kids = t
    if j[0] == 'L':
        if j[2] == 2 and j[1] in ('LVerb', 'LRegen'): return []
        k = j[1]
        if k in ('LInline', 'LRegen'): return list(j[4])
        if k == 'LSep': return list(j[4]) if sepmode is None else list(sepmode)
        return list(j[3]) if st == 'VALID' else list(j[4])
    if j[2] == 2: return []
    bk = j[1]
    def kidsout(mode, own, ei=False):
        out = []
        for q, k in enumerate(kids):
            out += _emit(k, mode, (own or ei) if q == len(kids) - 1 else own)
        return out
    if bk == 'BOther':
        return list(j[4]) + kidsout(None, ise) + list(j[6])
    if st == 'VALID':
        return _src_of(j)
    if bk == 'BInline':
        body = kidsout(None, ise)
        return [(j[4][0] + body[0].lstrip()).rstrip()] if len(body) == 1 else list(j[4]) + body
    if st == 'INV_CHILDREN':
        src = _src_of(j)
        if bk == 'BLoop': return [src[0]] + kidsout(None, ise) + [src[-1]]
        if ise and j[7]: raise _Raise('TypeError')
        if any(k[0][1] == 'LSep' for k in kids) and not j[7] and _last_else(src) == ['<no ELSE line>']: raise _Raise('IndexError')
        return [src[0]] + kidsout(_last_else(src), ise, j[7]) + ([] if j[7] else [src[-1]])
    if bk == 'BCond':
        return list(j[4] if ise == j[10] else j[9]) + kidsout(None, False, j[7]) + list(j[6])
    return list(j[4]) + kidsout(None, ise) + list(j[6])

def py_model(items, mode):
    """the rewritten file according to the model, or None if the model says the file is not rewritten"""
    rts = [it for it in items if it[0] == 'routine']
    anyact = any(_has_action(k) for r in rts for k in r[3]) or any(it[0] == 'opaque' and it[4] for it in items)
    if not anyact: return None
    try:
        return _py_model(items, mode, anyact)
    except _Raise:
        return 'RAISED'

def _py_model(items, mode, anyact):
    out = []
    for it in items:
        if it[0] == 'text': out += it[1]
        elif it[0] == 'opaque': out += it[2]
        else:
            touched = anyact if mode != 'ubound' else any(_has_action(k) for k in it[3])
            if not touched:
                out += it[1] + [l for k in it[3] for l in _src_of(k)] + it[4]
            else:
                out += it[2] + [l for k in it[3] for l in _emit(_transform(k))] + it[5]
    if out and out[-1] == '': out = out[:-1]      # Sourcefile.to_file adds a newline only if the text does not end with one
    return out

# ------------------------------------------------------------------------------------------------------------
# Coq literals
# ------------------------------------------------------------------------------------------------------------
ACT = {0: 'ANone', 1: 'ASelf', 2: 'ADrop', 3: 'ARepl', 4: 'AVisit'}

def node_model(j):
    if j[0] == 'L':
        return C('L', C(j[1]), C(ACT[j[2]]), list(j[3]), list(j[4]))
    return C('B', C(j[1]), C(ACT[j[2]]), list(j[3]), list(j[4]), list(j[9]), list(j[5]), list(j[6]), bool(j[7]), bool(j[10]),
             [node_model(k) for k in j[8]])

def items_model(items):
    out = []
    for it in items:
        if it[0] == 'text': out.append(C('IText', list(it[1])))
        elif it[0] == 'opaque': out.append(C('IOpaque', bool(it[4]), list(it[1]), list(it[2])))
        else: out.append(C('IRoutine', C('Build_routine', list(it[1]), list(it[2]), [node_model(k) for k in it[3]], list(it[4]), list(it[5]))))
    return out

# ------------------------------------------------------------------------------------------------------------
# tokens (Python twin of M_C43.lex_line; used by the oracle)
# ------------------------------------------------------------------------------------------------------------
F77 = {'.eq.': '==', '.ne.': '/=', '.lt.': '<', '.le.': '<=', '.gt.': '>', '.ge.': '>='}
_DOTTED = {'eq', 'ne', 'lt', 'le', 'gt', 'ge', 'and', 'or', 'not', 'eqv', 'neqv', 'true', 'false'}

def lex_line(s):
    """-> (code tokens, comment text or None)"""
    raw, cur, i, com = [], '', 0, None
    def flush():
        nonlocal cur
        if cur: raw.append(cur); cur = ''
    while i < len(s):
        c = s[i]
        if c.isalnum() and c.isascii() or c == '_':
            cur += c; i += 1; continue
        flush()
        if c in '\'"':
            j = s.find(c, i + 1)
            if j < 0: raw.append(s[i:]); i = len(s)
            else: raw.append(s[i:j + 1]); i = j + 1
            continue
        if c == '!':
            com = s[i:].rstrip(); break
        if c.isspace() or c == '&':
            i += 1; continue
        raw.append(c); i += 1
    flush()
    out, k = [], 0
    while k < len(raw):
        a = raw[k]; b = raw[k + 1] if k + 1 < len(raw) else None; c = raw[k + 2] if k + 2 < len(raw) else None
        if b == '=' and a in ('=', '/', '<', '>'):
            out.append(a + '='); k += 2
        elif a == '.' and b is not None and b.lower() in _DOTTED and c == '.':
            out.append('.' + b + '.'); k += 3
        else:
            out.append(a); k += 1
    return out, com

def lex_lines(lines):
    toks, coms = [], []
    for l in lines:
        t, c = lex_line(l)
        toks += t
        if c is not None: coms.append(c)
    return toks, coms

def fold(t): return t if t[:1] in '\'"' else t.lower()
def f90sp(t): return F77.get(t.lower(), t)

# ------------------------------------------------------------------------------------------------------------
# generators
# ------------------------------------------------------------------------------------------------------------
OPS77 = ['.eq.', '.ne.', '.lt.', '.le.', '.gt.', '.ge.']

class _Gen:
    """one top-level subroutine of the class on which the fix mechanism is right (see notes/C43.md):
    printer-form header / IMPLICIT NONE / PRINT / unreported DO WHILE and WHERE frames, no in-line IF, one-line
    headers of unreported blocks, no in-line comments on frame lines; everything else freely formatted"""
    def __init__(self, rng, name, violations=True):
        self.r, self.name, self.viol = rng, name, violations
        self.lines = []
        self.nviol = 0
        self.noif = 0      # >0: below an unreported ELSE IF branch no block IF at all (is_elseif leak, F-C43-10/11)

    def ind(self, d): return '  ' * (d + 1)

    def case(self, s):
        r = self.r.random()
        return s.upper() if r < 0.25 else s

    # ---- expressions -------------------------------------------------------------------------------------
    def ival(self): return self.r.choice(['m', 'n', 'k', str(self.r.randint(0, 9)), 'm + 1', '(n - 1)', 'k*2', 'n + m'])
    def rval(self, i): return self.r.choice(['x', 'y', 'a(1)', 'b(n)', '2.5', '0.5', 'x + 1.0', '(y*2.0)'] + (['a(%s)' % i, 'b(%s)' % i] if i else []))

    def cmp77(self, i, mixed=False):
        op = self.r.choice(OPS77)
        if self.r.random() < 0.5:
            l, r = self.ival(), self.ival()
        else:
            l, r = self.rval(i), self.rval(i)
        sp = self.r.choice([' ', ' ', '  ', ''])
        if sp == '' and (l[-1].isdigit() or r[0].isdigit() or r[0] == '.'):
            sp = ' '               # 1.lt.2 / 2.5.gt.x are legal but needlessly cruel to every lexer involved
        o = op
        if mixed:
            o = self.r.choice([op.upper(), op[:2].upper() + op[2:], op[:1] + op[1:].capitalize()])
        return '%s%s%s%s%s' % (l, sp, o, sp, r), op

    def cond77(self, i):
        """logical expression with F77 relational operators only; no parentheses around comparisons (the frontend
        drops them, finding F-C43-12); no '<' '>' '==' '/=' characters"""
        n = self.r.choice([1, 1, 1, 2, 2, 3])
        parts, kinds = [], []
        for q in range(n):
            c, op = self.cmp77(i)
            kinds.append(op)
            if self.r.random() < 0.15: c = '.not. ' + c if False else c
            parts.append(c)
        if self.r.random() < 0.3:
            # a mixed-case spelling next to a lower-case one of the same kind (the check needs the latter, F-C43-2)
            c, op = self.cmp77(i, mixed=True)
            if op in kinds:
                parts.insert(self.r.randrange(1, len(parts) + 1), c)
        if self.r.random() < 0.25: parts.append(self.r.choice(['flag', '.not. flag', '.NOT. flag']))
        s = parts[0]
        for p in parts[1:]:
            s += self.r.choice([' .and. ', ' .or. ', ' .AND. ', '  .or.  ']) + p
        return s

    def cmp90(self, i):
        """one F90 comparison exactly as Loki prints it (the check's source look-up needs that, F-C43-3)"""
        op = self.r.choice(['==', '/=', '<', '<=', '>', '>='])
        if self.r.random() < 0.5:
            l, r = self.r.choice(['m', 'n', 'k']), self.r.choice(['m', 'n', 'k', '3', '7'])
        else:
            l, r = self.r.choice(['x', 'y', 'a(1)'] + (['a(%s)' % i] if i else [])), self.r.choice(['x', 'y', '2.5', 'b(1)'])
        return '%s %s %s' % (l, op, r)

    # ---- statements --------------------------------------------------------------------------------------
    def emit(self, s): self.lines.append(s)

    def comment(self, d, plain):
        t = self.r.choice(['! note', '! a .gt. b is old style', '!', '  ! x .LE. y', '! string ''.eq.'' here', ''])
        if plain and ('<' in t or '>' in t): t = '! note'
        self.emit((self.ind(d) if self.r.random() < 0.7 else '') + t if t else '')

    def plain_stmt(self, d, i, ctx):
        """an unreported leaf statement, formatted oddly; ctx: set of variables that must not be assigned"""
        r = self.r.random()
        ind = self.ind(d) if self.r.random() < 0.8 else ' ' * self.r.randint(1, 9)
        tgt_i = [v for v in ('m', 'k') if v not in ctx]
        if r < 0.22 and tgt_i:
            v = self.r.choice(tgt_i)
            e = self.r.choice(['%s + 1', '%s+n', '%s  *  2 - 1', '( %s + 3 )', 'MOD(%s, 7) + 1'])
            self.emit('%s%s%s=%s%s' % (ind, v, self.r.choice([' ', '', '   ']), self.r.choice([' ', '', '  ']), e % v))
        elif r < 0.4:
            v = self.r.choice(['x', 'y'])
            self.emit('%s%s = %s' % (ind, v, self.r.choice(['%s + 0.5' % v, '%s*1.5 - y' % v, 'ABS(%s) + a(1)' % v, '(x + y) * 0.5'])))
        elif r < 0.52:
            ix = i if i else self.r.choice(['1', 'n'])
            self.emit('%s%s(%s) = %s' % (ind, self.r.choice('ab'), ix, self.r.choice(['a(%s) + 1.0' % ix, 'b(%s)*0.5' % ix, 'x', '2.0  +  y'])))
        elif r < 0.6:
            self.emit("%smsg = %s" % (ind, self.r.choice(["'a .gt. b'", "'x.LE.y or z .eq. w'", "'it''s .ne. that'", "'plain'"])))
        elif r < 0.7 and tgt_i:
            v = self.r.choice(tgt_i)
            if self.r.random() < 0.5: self.emit('%s%s c43h(%s, n)' % (ind, self.case('call'), v))
            else:
                self.emit('%scall  c43h( %s, &' % (ind, v)); self.emit('%s   &   n )' % ind)
        elif r < 0.78 and tgt_i:
            v = self.r.choice(tgt_i)
            self.emit('%s%s = %s + &' % (ind, v, v)); self.emit('%s    & 2   ! continued .lt. line' % ind)
        elif r < 0.86:
            self.emit("%sPRINT *, '%s', %s" % (self.ind(d), self.r.choice(['m .gt. n', 'value', 'x.eq.y']), self.r.choice(['m', 'k', 'n'])))
        elif r < 0.93:
            self.emit('%sflag = %s' % (ind, self.cmp90(i)))
        else:
            self.emit('%s%s = x   ! keep .ge. this' % (ind, self.r.choice(['y', 'x'])))

    def viol_stmt(self, d, i, ctx):
        """a reported leaf statement"""
        self.nviol += 1
        r = self.r.random()
        ind = self.ind(d) if self.r.random() < 0.8 else ' ' * self.r.randint(1, 9)
        tgt_i = [v for v in ('m', 'k') if v not in ctx]
        if r < 0.55 or not tgt_i:
            c = self.cond77(i)
            if self.r.random() < 0.25 and ' .and. ' in c:
                a, b = c.split(' .and. ', 1)
                self.emit('%sflag = %s .and. &' % (ind, a)); self.emit('%s   & %s' % (ind, b))
            else:
                self.emit('%sflag =%s%s%s' % (ind, self.r.choice([' ', '  ']), c, self.r.choice(['', '', '   ! why .lt. here'])))
        elif r < 0.75:
            v = self.r.choice(tgt_i)
            self.emit('%s%s = merge(%s + 1, %s, %s)' % (ind, v, v, v, self.cmp77(i)[0]))
        else:
            v = self.r.choice(tgt_i)
            self.emit('%scall c43l(%s, %s)' % (ind, self.cmp77(i)[0], v))

    def body(self, d, i, ctx, plain, budget, where=False):
        """a non-empty statement list; plain: inside a reported block (no F90 comparison characters at all)"""
        n = self.r.randint(1, 3)
        for q in range(n):
            r = self.r.random()
            if budget[0] <= 0 or d >= 4: r = min(r, 0.59)
            if r < 0.12: self.comment(d, plain)
            elif r < 0.45:
                if plain: self.plain_noncmp(d, i, ctx)
                else: self.plain_stmt(d, i, ctx)
            elif r < 0.6 and self.viol: self.viol_stmt(d, i, ctx)
            elif r < 0.6: self.plain_noncmp(d, i, ctx)
            else:
                budget[0] -= 1
                self.block(d, i, ctx, plain, budget)
        # a body must contain at least one executable statement
        self.plain_noncmp(d, i, ctx)

    def plain_noncmp(self, d, i, ctx):
        for _ in range(20):
            k = len(self.lines)
            self.plain_stmt(d, i, ctx)
            new = self.lines[k:]
            if not any(ch in l for l in new for ch in '<>') and not any('==' in l or '/=' in l for l in new):
                return
            del self.lines[k:]
        self.emit('%sx = x + 1.0' % self.ind(d))

    def block(self, d, i, ctx, plain, budget):
        """inside a reported block (plain) an unreported block contains no reported statement: a reported block that
        the mapper look-up finds is not visited, its unreported child blocks stay VALID and are printed verbatim,
        so a violation inside them would survive (finding F-C43-9)"""
        r = self.r.random()
        isloop = r < 0.3 and not ('i' in ctx and 'i2' in ctx)
        rep = self.viol and self.r.random() < 0.5 and not isloop
        saved = self.viol
        if plain and not rep: self.viol = False
        try:
            self._block(d, i, ctx, plain, budget, r, rep)
        finally:
            self.viol = saved

    def _block(self, d, i, ctx, plain, budget, r, rep):
        ind = self.ind(d)
        if self.noif and 0.3 <= r < 0.75: r = 0.8 if 'j' not in ctx else 0.95
        if plain and not rep and r >= 0.75:
            # an unreported DO WHILE / WHERE needs an F90 comparison, which must not occur inside a reported block
            # (the rule's check would look at that line instead of the block's own header, F-C43-3)
            if self.noif or ('i' in ctx and 'i2' in ctx):
                return self.plain_noncmp(d, i, ctx)
            r = 0.5 if not self.noif else 0.1
        if r < 0.3 and not ('i' in ctx and 'i2' in ctx):
            v = 'i' if 'i' not in ctx else 'i2'
            self.emit('%s%s %s = 1, n' % (ind, self.r.choice(['do', 'DO', 'do ']), v) if self.r.random() < 0.7 else '%sDO %s=1,n' % (ind, v))
            self.body(d + 1, v, ctx | {v}, plain, budget)
            self.emit('%s%s' % (ind, self.r.choice(['end do', 'END DO', 'enddo', 'end do'])))
        elif r < 0.75:
            # block IF, optional ELSE IF / ELSE
            def cond(rep=rep, plain=plain):
                if rep:
                    self.nviol += 1
                    return self.cond77(i), True
                if plain or self.r.random() < 0.4: return self.r.choice(['flag', '.not. flag']), False
                return self.cmp90(i), False
            c, isrep = cond()
            anyrep = isrep
            kw = ('if', 'then') if self.r.random() < 0.7 else ('IF', 'THEN')
            if isrep and self.r.random() < 0.3 and ' .and. ' in c:
                a, b = c.split(' .and. ', 1)
                self.emit('%s%s (%s .and. &' % (ind, kw[0], a)); self.emit('%s    & %s) %s' % (ind, b, kw[1]))
            else:
                self.emit('%s%s (%s) %s%s' % (ind, kw[0], c, kw[1], '   ! reported header' if isrep and self.r.random() < 0.2 else ''))
            inner_plain = plain or isrep
            self.body(d + 1, i, ctx, inner_plain, budget)
            q = self.r.random()
            if q < 0.3:
                c2, rep2 = cond(self.viol and self.r.random() < 0.5, inner_plain) if self.r.random() < 0.7 else (self.r.choice(['flag', '.not. flag']), False)
                anyrep = anyrep or rep2
                self.emit('%s%s (%s) %s' % (ind, self.r.choice(['else if', 'ELSE IF', 'elseif'] if not (rep2 or isrep) else ['else if', 'ELSE IF', 'Else If']), c2, kw[1]))
                if not rep2: self.noif += 1
                sv = self.viol
                if inner_plain and not rep2: self.viol = False     # an unreported ELSE IF block inside a reported block
                self.body(d + 1, i, ctx, inner_plain or rep2, budget)
                if self.r.random() < 0.4:
                    self.emit('%s%s' % (ind, self.r.choice(['else', 'ELSE'])))
                    self.body_noelse(d + 1, i, ctx, inner_plain or rep2, budget)
                self.viol = sv
                if not rep2: self.noif -= 1
            elif q < 0.6:
                self.emit('%s%s' % (ind, self.r.choice(['else', 'ELSE', 'Else'])))
                self.body_noelse(d + 1, i, ctx, inner_plain, budget)
            self.emit('%s%s' % (ind, self.r.choice(['end if', 'END IF', 'endif'] if not anyrep else ['end if', 'END IF', 'End If'])))
        elif r < 0.88 and 'j' not in ctx:
            self.emit('%sj = 0' % ind)
            if rep:
                self.nviol += 1
                self.emit('%s%s (j %s n%s)' % (ind, self.r.choice(['do while', 'DO WHILE', 'do  while']), self.r.choice(['.lt.', '.le.', '.ne.']),
                                               self.r.choice(['', ' .and. j .lt. 5'])))
            else:
                self.emit('%sDO WHILE (j < n)' % ind)
            self.body(d + 1, i, ctx | {'j'}, plain or rep, budget)
            self.emit('%sj = j + 1' % self.ind(d + 1))
            self.emit('%s%s' % (ind, 'END DO' if not rep else self.r.choice(['end do', 'END DO', 'End Do'])))
        else:
            if rep:
                self.nviol += 1
                self.emit('%s%s (a %s b)' % (ind, self.r.choice(['where', 'WHERE']), self.r.choice(OPS77)))
            else:
                self.emit('%sWHERE (a %s b)' % (ind, self.r.choice(['>', '<', '>=', '/='])))
            self.emit('%s%s' % (self.ind(d + 1), self.r.choice(['a = b', 'a = a + 1.0', 'b   =  a*2.0'])))
            if self.r.random() < 0.5:
                self.emit('%s%s' % (ind, 'ELSEWHERE' if not rep else self.r.choice(['elsewhere', 'ELSEWHERE', 'ElseWhere'])))
                self.emit('%s%s' % (self.ind(d + 1), self.r.choice(['b = a', 'a = 0.5*a'])))
            self.emit('%s%s' % (ind, 'END WHERE' if not rep else self.r.choice(['end where', 'END WHERE', 'End Where'])))

    def body_noelse(self, d, i, ctx, plain, budget):
        """ELSE branch: no nested IF/ELSE (the conservative printer takes the LAST 'ELSE' line of the block, F-C43-8)"""
        for q in range(self.r.randint(1, 2)):
            if self.viol and self.r.random() < 0.3: self.viol_stmt(d, i, ctx)
            else: self.plain_noncmp(d, i, ctx) if plain else self.plain_stmt(d, i, ctx)
        self.plain_noncmp(d, i, ctx)

    def routine(self):
        nm = self.name
        self.emit('SUBROUTINE %s (n, m, a, b, flag)' % nm)
        if self.r.random() < 0.5: self.emit('  ! documentation with .gt. inside')
        self.emit('  IMPLICIT NONE')
        for dcl in ['integer, intent(in) :: n', 'integer, intent(inout) :: m', 'real, intent(inout) :: a(n), b(n)',
                    'logical, intent(inout) :: flag', 'integer :: i, i2, j, k', 'real :: x, y', 'character(len=32) :: msg']:
            q = self.r.random()
            if q < 0.2: dcl = dcl.split('::')[0].upper().rstrip() + '::' + dcl.split('::')[1]
            elif q < 0.35: dcl = dcl.replace(', ', ' ,  ')
            elif q < 0.45: dcl = dcl + '   ! why .ne. this'
            self.emit('  ' + dcl)
        if self.r.random() < 0.6: self.emit('')
        for init in ['i = 0', 'i2 = 0', 'j = 0', 'k = 1', 'x = 1.0', 'y = 2.0', "msg = ' '"]:
            self.emit('  ' + init)
        budget = [self.r.randint(1, 4)]
        for q in range(self.r.randint(1, 3)):
            self.body(0, None, frozenset(), False, budget)
        self.emit("  PRINT *, 'end of %s', m, k" % nm)
        self.emit('END SUBROUTINE %s' % nm)
        return self.lines

DRIVER = '''program c43main
  implicit none
  integer, parameter :: n = 4
  integer :: m
  real :: a(n), b(n)
  logical :: flag
  m = 2
  a = (/ 1.0, 5.0, 2.0, 7.0 /)
  b = (/ 3.0, 1.0, 2.0, 0.5 /)
  flag = .true.
%s
end program c43main
subroutine c43h(m, n)
  integer :: m, n
  m = mod(m + n, 50)
end subroutine c43h
subroutine c43l(l, k)
  logical :: l
  integer :: k
  if (l) k = mod(k + 3, 40)
end subroutine c43l
'''

def gen_f90_file(rng, violations=True, nroutines=None):
    nr = nroutines or rng.choice([1, 1, 2, 2, 3])
    lines, calls = [], []
    if rng.random() < 0.5: lines += ['! file header: a .gt. b', '']
    for q in range(nr):
        name = 'r%d' % q
        g = _Gen(rng, name, violations=violations and (nr == 1 or rng.random() < 0.8))
        lines += g.routine()
        if q < nr - 1: lines += rng.choice([[], [''], ['', '! between .le. routines', '']])
        calls.append("  call %s(n, m, a, b, flag)\n  print *, m, flag\n  print '(4F14.5)', a, b" % name)
    return '\n'.join(lines) + '\n', DRIVER % '\n'.join(calls)

# ---- DynamicUboundCheckRule ------------------------------------------------------------------------------------
UDRIVER = '''program c43umain
  implicit none
  integer, parameter :: n1 = 3, n2 = 2, n3 = 4
  integer :: m
  real :: v0(n1, n2), v1(n2), w(n3)
%s
  m = 1
  v0 = 1.5
  v1 = 2.5
  w = 0.25
%s
end program c43umain
subroutine c43abort(msg)
  character(len=*) :: msg
  print *, 'ABORT ', msg
  stop 3
end subroutine c43abort
'''

UB_RANK = {'v0': 2, 'v1': 1, 'w': 1}
UB_BOUND = {'v0': ['n1', 'n2'], 'v1': ['n2'], 'w': ['n3']}     # different bounds for the same dimension of different arrays

def gen_ubound_file(rng, nroutines=None):
    '''-> text, expectation {'rep_lines': own lines of removed checks and rewritten declarations, 'shapes': {routine:
    {arg: [dims]}}, 'conds': {routine: [[ [array, dim, bound], ..] per check conditional, in source order]}, 'routines'}.
    The UBOUND checks of several fully checked arrays are combined in ONE conditional in any order (same dimension of
    different arrays next to each other, different bounds), also for the 2-D array.'''
    nr = nroutines or rng.choice([1, 1, 2])
    lines, exp = [], {'rep_lines': [], 'shapes': {}, 'conds': {}, 'keeps': {}, 'routines': []}
    def emit(s, rep=False):
        lines.append(s)
        if rep: exp['rep_lines'].append(len(lines))
    for q in range(nr):
        nm = 'u%d' % q
        arrs = UB_RANK
        bounds = dict(UB_BOUND)
        if rng.random() < 0.3: bounds['w'] = ['4']
        full = {a for a in arrs if rng.random() < 0.65}
        part = {'v0'} if ('v0' not in full and rng.random() < 0.5) else set()
        exp['routines'].append(nm)
        exp['shapes'][nm] = {a: (bounds[a] if a in full else [':'] * arrs[a]) for a in arrs}
        exp['conds'][nm] = []
        emit('SUBROUTINE %s (n1, n2, n3, m, v0, v1, w)' % nm)
        emit('  IMPLICIT NONE')
        emit('  integer, intent(in) :: n1, n2, n3')
        emit(rng.choice(['  integer, intent(inout) :: m', '  INTEGER , INTENT(INOUT)::m   ! keep (:) me']))
        style = rng.choice(['own', 'dim', 'shared'])
        if style == 'shared':
            emit('  real, intent(inout) :: v0(:,:), v1(:)', rep=bool({'v0', 'v1'} & full))
        else:
            for a in ('v0', 'v1'):
                sh = '(' + ','.join(':' * arrs[a]) + ')'
                if style == 'dim' or rng.random() < 0.3:
                    emit('  real, dimension%s, intent(inout) :: %s' % (sh, a), rep=a in full)
                else:
                    emit('  real, intent(inout) :: %s%s%s' % (a, sh, rng.choice(['', '   ! assumed shape'])), rep=a in full)
        emit('  real, intent(in) :: w(:)', rep='w' in full)
        emit('  integer :: i')
        emit('  ! body')
        # the checks: every (array, dimension) of a fully checked array once; grouped at random into conditionals
        pairs = [(a, dd) for a in sorted(full) for dd in range(1, arrs[a] + 1)]
        rng.shuffle(pairs)
        groups = []
        while pairs:
            k = rng.choice([1, 1, 2, 2, 3, 4])
            groups.append((pairs[:k], True)); pairs = pairs[k:]
        for a in sorted(part):
            groups.append(([(a, 1)], False))        # a partially checked array keeps its (separate) check
        rng.shuffle(groups)
        def ub(a, dd):
            f = rng.choice(['ubound', 'UBOUND', 'UBound'])
            an = rng.choice([a, a.upper()])
            b = bounds[a][dd - 1]
            return rng.choice(['%s(%s, %d) < %s' % (f, an, dd, b), '%s > %s(%s, %d)' % (b, f, an, dd), '%s(%s,%d)<%s' % (f, an, dd, b)])
        for grp, rem in groups:
            exp['conds'][nm].append([[a, dd, bounds[a][dd - 1]] for a, dd in grp])
            cond = ''
            for gi, (a, dd) in enumerate(grp):
                cond += (rng.choice([' .or. ', ' .OR. ']) if gi else '') + ub(a, dd)
            what = ' / '.join('%s:%d' % (a, dd) for a, dd in grp)
            if rem and rng.random() < 0.3:
                emit("  if (%s) call c43abort('%s too short')" % (cond, what), rep=True)
            else:
                emit('  %s (%s) %s' % (rng.choice(['if', 'IF']), cond, rng.choice(['then', 'THEN'])), rep=rem)
                emit("    call c43abort('%s')" % what, rep=rem)
                if rem and rng.random() < 0.3: emit('    ! never reached', rep=True)
                emit('  %s' % rng.choice(['end if', 'ENDIF', 'END IF']), rep=rem)
            if rng.random() < 0.3: emit(rng.choice(['', '  ! next check']))
        # other code, inside the class of the mechanism; whole-array operations make the extents observable
        emit('  do i = 1, n2')
        emit(rng.choice(['    v1(i) = v1(i) + w(i)*2.0', '    v1(i)=v0(i, 1)   +   w(i)']))
        emit('    %s (v1(i) > 3.0) %s' % rng.choice([('if', 'then'), ('IF', 'THEN')]))
        emit('      m = m + 1   ! count (:) big ones')
        if rng.random() < 0.5:
            emit('    else')
            emit('      m = m+2')
        emit('    end if')
        emit(rng.choice(['  end do', '  ENDDO']))
        emit(rng.choice(['  v0(1, 1) = v1(1)', '  v0(n1, n2) =   v1(n2)  -  1.0']))
        emit('  m = m + size(v1) + 10*size(w)  +  100*size(v0, 1) + 1000*size(v0, 2)')
        emit(rng.choice(['  v1 = v1 + 0.5', '  v0(:, 1) = v0(:, 1)*2.0', '  m = m + nint(sum(w)) + nint(sum(v1))']))
        emit("  PRINT *, 'ubound(v0, 1) is checked', m")
        emit('END SUBROUTINE %s' % nm)
        if q < nr - 1 and rng.random() < 0.5: emit('')
    return '\n'.join(lines) + '\n', exp

def ubound_driver(text, routines):
    """interface blocks are copied from the (original or fixed) file itself: header .. '! body' + END"""
    L = text.split('\n')
    ifs, calls = [], []
    for nm in routines:
        s = [k for k, l in enumerate(L) if l.strip().lower().startswith('subroutine %s ' % nm)][0]
        e = [k for k in range(s, len(L)) if L[k].strip() == '! body'][0]
        ifs += ['  interface'] + ['  ' + l for l in L[s:e]] + ['    end subroutine %s' % nm, '  end interface']
        calls += ['  call %s(n1, n2, n3, m, v0, v1, w)' % nm, '  print *, m', "  print '(8F12.4)', v0, v1"]
    return UDRIVER % ('\n'.join(ifs), '\n'.join(calls))

# ------------------------------------------------------------------------------------------------------------
# oracle helpers
# ------------------------------------------------------------------------------------------------------------
def own_reported_lines(items):
    """1-based line numbers (of the original file) that are own lines of a node the fix maps / drops / replaces"""
    rep = set()
    def walk(j, start):
        # returns number of lines consumed
        if j[0] == 'L':
            n = len(j[3])
            if j[2] != 0 and j[1] in ('LVerb', 'LRegen'): rep.update(range(start, start + n))
            return n
        if j[1] == 'BInline':
            n = len(j[3])
            if j[2] != 0 or any(_has_action(k) for k in j[8]): rep.update(range(start, start + n))
            return n
        tot = len(_src_of(j))
        if j[2] == 2:
            rep.update(range(start, start + tot)); return tot
        pos = start
        if j[2] != 0: rep.update(range(pos, pos + len(j[3])))
        pos += len(j[3])
        for k in j[8]:
            if k[0] == 'L' and k[1] == 'LSep':
                if j[2] != 0: rep.update(range(pos, pos + len(k[3])))
                pos += len(k[3])
            else:
                pos += walk(k, pos)
        if j[2] != 0: rep.update(range(pos, pos + len(j[5])))
        pos += len(j[5])
        return tot
    pos = 1
    for it in items:
        if it[0] == 'text': pos += len(it[1])
        elif it[0] == 'opaque': pos += len(it[1])
        else:
            pos += len(it[1])
            for k in it[3]: pos += walk(k, pos)
            pos += len(it[4])
    return rep

def wildcard_align(orig, fixed, rep):
    """Is `fixed` = `orig` with every maximal run of reportable lines (1-based numbers in `rep`) replaced by some
    lines?  -> (list of (orig run, fixed region), None) or (None, message)."""
    blocks = []
    for k, l in enumerate(orig, 1):
        t = 'R' if k in rep else 'U'
        if blocks and blocks[-1][0] == t: blocks[-1][1].append(l)
        else: blocks.append([t, [l], k])
    pos, regions, pend = 0, [], None
    for bi, (t, ls, k0) in enumerate(blocks):
        if t == 'R':
            pend = ls
            continue
        n = len(ls)
        if pend is None:
            if fixed[pos:pos + n] != ls:
                d = next((i for i in range(n) if pos + i >= len(fixed) or fixed[pos + i] != ls[i]), 0)
                return None, 'line %d is not part of a reported statement but changed: %r -> %r' % (
                    k0 + d, ls[d], fixed[pos + d] if pos + d < len(fixed) else '<end of file>')
            pos += n
        else:
            last = (bi == len(blocks) - 1)
            if last:
                at = len(fixed) - n
                found = at >= pos and fixed[at:] == ls
            else:
                at = next((q for q in range(pos, len(fixed) - n + 1) if fixed[q:q + n] == ls), None)
                found = at is not None
            if not found:
                # name the first line of the block that cannot be found again
                d = 0
                for i in range(n):
                    if not any(fixed[q] == ls[i] for q in range(pos, len(fixed))): d = i; break
                return None, 'unreported text starting at line %d (%r) does not reappear unchanged after the fixed statement' % (k0 + d, ls[d])
            regions.append((pend, fixed[pos:at])); pos = at + n; pend = None
    if pend is not None:
        regions.append((pend, fixed[pos:])); pos = len(fixed)
    if pos != len(fixed):
        return None, 'extra text at the end of the fixed file: %r' % (fixed[pos:pos + 3],)
    return regions, None

def tokens_agree(o_lines, f_lines):
    ot, oc = lex_lines(o_lines)
    ft, fc = lex_lines(f_lines)
    want = [fold(f90sp(t)) for t in ot]
    got = [fold(t) for t in ft]
    if want != got:
        i = next((q for q in range(min(len(want), len(got))) if want[q] != got[q]), min(len(want), len(got)))
        return 'tokens of a fixed statement differ beyond operator spelling/blanks/case at token %d: expected %r, found %r (%r -> %r)' % (
            i, want[i:i + 4], got[i:i + 4], o_lines[:2], f_lines[:2])
    if [c.strip() for c in oc] != [c.strip() for c in fc]:
        return 'comments of a fixed statement changed: %r -> %r' % (oc, fc)
    return None

def _decls(lines):
    """{name: (attrs, dims)} of the REAL declarations in `lines`"""
    out = {}
    for l in lines:
        code = l.split('!')[0]
        m = re.match(r'^\s*real\s*(.*?)::(.*)$', code, re.I)
        if not m: continue
        attrs = [a.strip().lower().replace(' ', '') for a in re.split(r',(?![^()]*\))', m.group(1)) if a.strip()]
        dimattr = next((a[len('dimension'):] for a in attrs if a.startswith('dimension')), None)
        for ent in re.split(r',(?![^()]*\))', m.group(2)):
            ent = ent.strip().lower().replace(' ', '')
            mm = re.match(r'^(\w+)(\(.*\))?$', ent)
            if not mm: continue
            dims = mm.group(2) or dimattr or ''
            out.setdefault(mm.group(1), []).append((sorted(a for a in attrs if not a.startswith('dimension')), dims))
    return out

def _routine_lines(lines):
    res, cur = {}, None
    for l in lines:
        m = re.match(r'^\s*subroutine\s+(\w+)', l, re.I)
        if m: cur = m.group(1).lower(); res[cur] = []
        if cur: res[cur].append(l)
        if re.match(r'^\s*end\s+subroutine', l, re.I): cur = None
    return res

def _declared_shapes(lines):
    """{routine: {array: [extent, ..]}} of the REAL declarations in the given text (blank-free, lower case)"""
    out = {}
    for nm, ls in _routine_lines(lines).items():
        out[nm] = {}
        for a, ds in _decls(ls).items():
            if len(ds) == 1 and ds[0][1]:
                out[nm][a] = [x for x in re.split(r',(?![^()]*\))', ds[0][1][1:-1])]
    return out

# ------------------------------------------------------------------------------------------------------------
# the property
# ------------------------------------------------------------------------------------------------------------
class C43(Property):
    id = 'C43'
    imports = ['models.M_C43']
    theorem_file = 'theories/props/T_C43.v'
    parallel = True
    shard = 40
    rule = ('generated Fortran files (1-3 top-level subroutines, ~30-90 lines): comparison expressions in F77 spelling (lower/mixed case, with and '
            'without blanks, continued over lines) in logical assignments, block IF / ELSE IF conditions, DO WHILE, WHERE masks, MERGE and CALL arguments, '
            'nested up to depth 4 and mixed with oddly formatted assignments, calls, declarations, PRINT statements, comments and string literals that '
            'contain .gt. etc.; files without violations; routines with assumed-shape dummies and UBOUND checks (block and in-line, .or.-combined) for '
            'DynamicUboundCheckRule.  Each file goes through the real Sourcefile.from_file -> Linter.check -> Linter.fix path in a scratch directory. '
            'Non-trivial = the rule reports at least one violation; distinct = distinct file texts')
    modelled_not_verified = [
        'the structural printer (fgen) is not modelled: the text it produces for a statement in isolation is an input of the model (C04/C06 cover the printer); '
        'the model decides which statements are printed structurally, which verbatim, in which order, and which frame lines come from the source',
        'Fortran90OperatorsRule.check is represented by its reports (input flags) and by the token predicate f77_free; its line-selection heuristics are not modelled',
        'Fortran90OperatorsRule.fix_subroutine as shipped raises AttributeError (finding F-C43-1); the mechanism cases run the rule with the one-line repair of '
        'fixes.d/C43_1.diff applied in a harness subclass (the shipped method is exercised by the f90-shipped cases)',
        'modules, functions and member routines are printed as opaque units by the model (the Fixer does not descend into them)',
        'DynamicUboundCheckRule: which conditionals/declarations the fix drops or rewrites is read off the fixed IR; the MiniF-level theorem covers the removal of never-firing checks',
    ]

    # ---- cases ---------------------------------------------------------------------------------------------
    def generate(self, rng, tier):
        n_f90, n_clean, n_ub = (110, 12, 45) if tier == 'quick' else (240, 20, 100)
        ngf = 6 if tier == 'quick' else 10 ** 9
        for q in range(n_f90):
            text, _ = gen_f90_file(rng)
            yield {'kind': 'f90', 'mode': 'f90', 'text': text, 'gf': q < ngf}
        for q in range(n_clean):
            text, _ = gen_f90_file(rng, violations=False)
            yield {'kind': 'f90-shipped-clean', 'mode': 'f90real', 'text': text, 'gf': False}
        for q in range(n_ub):
            text, exp = gen_ubound_file(rng)
            yield {'kind': 'ubound', 'mode': 'ubound', 'text': text, 'exp': exp, 'gf': q < ngf}

    # ---- implementation ------------------------------------------------------------------------------------
    def run_impl(self, case):
        out = extract(case['text'], case['mode'])
        out['rep_lines'] = sorted(own_reported_lines(out['items']))
        if case['mode'] == 'ubound':
            out['ub_decl'] = _declared_shapes(out['fixed'])
        if case.get('gf') and 'check_error' not in out:
            from ..minif import gfortran_run
            ftext = '\n'.join(out['fixed']) + '\n'
            if case['mode'] == 'ubound':
                rts = case['exp']['routines']
                a = gfortran_run([case['text']], ubound_driver(case['text'], rts))
                try:
                    b = gfortran_run([ftext], ubound_driver(ftext, rts))
                except Exception as e:      # pylint: disable=broad-except
                    b = (False, 'driver: %s' % e)
            else:
                nr = len(re.findall(r'(?im)^\s*subroutine\s+r\d+\s', case['text']))
                calls = '\n'.join("  call r%d(n, m, a, b, flag)\n  print *, m, flag\n  print '(4F14.5)', a, b" % q for q in range(nr))
                a = gfortran_run([case['text']], DRIVER % calls)
                b = gfortran_run([ftext], DRIVER % calls)
            out['gf'] = [list(a), list(b)]
        return out

    # ---- oracle: the property text on the real behaviour ---------------------------------------------------
    def oracle(self, case, out):
        if '__exception__' in out:
            return 'harness/implementation raised %s: %s' % (out['__exception__'], out.get('msg'))
        if 'check_error' in out:
            if out['check_error'] == 'IndexError@line[0]' and not case.get('strict'):
                return None       # known defect of the rule's check (F-C43-2/3): nothing to observe; counted as trivial
            return 'the rule\'s check raised %s: the file cannot be fixed' % out['check_error']
        orig, fixed = out['orig'], out['fixed']
        if 'fix_error' in out:
            return 'Linter.fix raised %s: %d reported violation(s) are not fixed' % (out['fix_error'], len(out['reports']))
        if not out['reports']:
            return None if fixed == orig else 'no violation reported but the file was rewritten'
        mode = case['mode']
        rep = set(case['exp']['rep_lines']) if mode == 'ubound' else set(out['rep_lines'])
        regions, msg = wildcard_align(orig, fixed, rep)
        if regions is None:
            return msg
        if mode != 'ubound':
            for o, f in regions:
                m = tokens_agree(o, f)
                if m: return m
        else:
            m = self._ubound_oracle(case, out)
            if m: return m
        if 'relint_error' in out:
            if out['relint_error'].startswith('IndexError@line[0]') and not case.get('strict'):
                # the rule's own check crashes on the fixed (F90) text: known defect F-C43-3; fall back to the token predicate
                bad = [t for t in lex_lines(fixed)[0] if t.lower() in F77]
                if bad: return 'the fixed file still contains F77 operators %r (and the rule\'s check crashes on it)' % bad[:3]
            else:
                return 're-linting the fixed file fails: %s' % out['relint_error']
        elif out['relint']:
            return 'the fixed file still has %d violation(s), first: %s (l. %s)' % (len(out['relint']), out['relint'][0][1], out['relint'][0][2])
        if 'gf' in out:
            (oka, ta), (okb, tb) = out['gf']
            if not oka: return None          # the generated program itself is not accepted by gfortran: no verdict
            if not okb: return 'gfortran: the fixed program fails (%s)' % tb[:300]
            if ta != tb: return 'gfortran: program output changed by the fix: %r -> %r' % (ta[:200], tb[:200])
        return None

    def _ubound_oracle(self, case, out):
        exp = case['exp']
        fixed = out['fixed']
        ft, _ = lex_lines(fixed)
        ot, _ = lex_lines(out['orig'])
        lowf, lowo = [t.lower() for t in ft], [t.lower() for t in ot]
        # per routine: declarations and remaining checks
        def split(lines):
            res, cur = {}, None
            for l in lines:
                m = re.match(r'^\s*subroutine\s+(\w+)', l, re.I)
                if m: cur = m.group(1).lower(); res[cur] = []
                if cur: res[cur].append(l)
                if re.match(r'^\s*end\s+subroutine', l, re.I): cur = None
            return res
        fr, orr = split(fixed), split(out['orig'])
        for nm, shapes in exp['shapes'].items():
            if nm not in fr: return 'routine %s vanished' % nm
            d, d0 = _decls(fr[nm]), _decls(orr[nm])
            for a, dims in shapes.items():
                if len(d.get(a, [])) != 1: return '%s: %s is declared %d times after the fix' % (nm, a, len(d.get(a, [])))
                attrs, got = d[a][0]
                want = '(' + ','.join(dims) + ')'
                if got != want: return '%s: %s is declared with shape %s after the fix, expected %s' % (nm, a, got, want)
                if attrs != d0[a][0][0]: return '%s: attributes of %s changed: %s -> %s' % (nm, a, d0[a][0][0], attrs)
                full = ':' not in dims
                def nchecks(lines):
                    t = [x.lower() for x in lex_lines(lines)[0]]
                    return sum(1 for i in range(len(t) - 2) if t[i] == 'ubound' and t[i + 1] == '(' and t[i + 2] == a)
                if full and nchecks(fr[nm]): return '%s: a UBOUND check of %s survived the fix' % (nm, a)
                if not full and nchecks(fr[nm]) != nchecks(orr[nm]): return '%s: a check of the not fully checked %s was removed' % (nm, a)
        return None

    # ---- model ---------------------------------------------------------------------------------------------
    def model_term(self, case, out):
        if '__exception__' in out or 'items' not in out:
            raise ValueError('no extraction: %r' % ({k: v for k, v in out.items() if k != 'tb'},))
        items = items_model(out['items'])
        raised = 'fix_error' in out or 'check_error' in out
        if case['mode'] == 'f90real':
            if 'check_error' in out: return None
            return coq(C('chk_shipped', items, out['orig'], out['fixed'], raised))
        if 'check_error' in out:
            return None           # nothing was fixed and the model has no reports to work with
        rk = C('RUbound') if case['mode'] == 'ubound' else C('RF90')
        ok = self.oracle(case, out) is None
        t = coq(C('chk_output', rk, items, out['orig'], out['fixed'], raised, ok))
        conds = (case.get('exp') or {}).get('conds')
        if case['mode'] == 'ubound' and conds and not raised:
            # the extents written into the rewritten declarations = the model's selection (array name + dimension)
            for nm, cs in conds.items():
                shapes = case['exp']['shapes'][nm]
                decl = [(a, [d.lower() for d in out['ub_decl'].get(nm, {}).get(a, [])]) for a in sorted(shapes) if ':' not in shapes[a]]
                cm = [[C('Build_ubcmp', a, Nat(d), b.lower()) for a, d, b in grp] for grp in cs]
                t = '(%s && %s)' % (t, coq(C('chk_ub_shapes', cm, decl)))
        return t

    def nontrivial_key(self, case, out):
        if isinstance(out, dict) and out.get('reports'):
            return case['kind'] + ':' + str(hash(case['text']))
        return None

    def show_model(self, case, out):
        if 'items' not in out: return []
        rk = 'RUbound' if case['mode'] == 'ubound' else 'RF90'
        it = coq(items_model(out['items']))
        return ['class_flags %s %s' % (rk, it), 'fix_file %s %s' % (rk, it)]

PROP = C43
