"""C36 — Fortran-to-Python transpilation (FortranPythonTransformation + pygen) preserves behaviour.

Tie: the function CPython's own parser builds from the generated source equals the model's function (M_C36.func_model),
the MiniPy value of single expressions equals what CPython computes, generated range()/slice positions equal the model's.
Oracle: the generated function is EXECUTED (numpy int32 arrays, python ints) on several stores and compared with a
reference interpreter of the original routine (thorough / witnesses: gfortran)."""
import os, sys, ast, json, math, random, tempfile, shutil, warnings, itertools
from fractions import Fraction
from ..framework import Property
from ..coqlit import coq, C, Some, Raw
from .. import bridge_expr as BE
from .. import minif
from ..evalz import tdiv

LIM = 2 ** 30
BND = 4                       # extent of the first dimension of the generated arrays

# ------------------------------------------------------------------------------------------------
# units -> Fortran source (minif's fully parenthesised printer, plus logical scalars)
def unit_src(u):
    args = u['args']
    it = u.get('intents', {})
    lines = ['subroutine %s(%s)' % (u['name'], ', '.join(args)), '  implicit none']
    def attr(x): return ', intent(%s)' % it[x] if x in args and x in it else ''
    for x in u.get('scalars', []): lines.append('  integer%s :: %s' % (attr(x), x))
    for x in u.get('logicals', []): lines.append('  logical%s :: %s' % (attr(x), x))
    for a, dims in u.get('arrays', {}).items():
        lines.append('  integer%s :: %s(%s)' % (attr(a), a, ', '.join('%d:%d' % (l, h) for l, h in dims)))
    lines += minif.fstmts(u['body'])
    lines.append('end subroutine %s' % u['name'])
    return '\n'.join(lines) + '\n'

def arg_kinds(u):
    out = []
    for x in u['args']:
        if x in u.get('arrays', {}): out.append((x, 'AArr'))
        else: out.append((x, {'in': 'AIn', 'inout': 'AInOut', 'out': 'AOut'}[u['intents'][x]]))
    return out

# ------------------------------------------------------------------------------------------------
# the real transformation
def transpile_py(src):
    """Fortran source -> (python source text, function name, body as the frontend parsed it) through the real FortranPythonTransformation"""
    from loki import Subroutine
    from loki.frontend import FP
    from loki.transformations.transpile import FortranPythonTransformation
    r = Subroutine.from_source(src, frontend=FP)
    try:
        parsed = minif.from_loki(r.body.body)
        if '"?"' in json.dumps(parsed): parsed = None
    except minif.Unsupported:
        parsed = None
    d = tempfile.mkdtemp(prefix='lv_c36_')
    try:
        f2p = FortranPythonTransformation(suffix='_py')
        f2p.apply(source=r, path=d)
        return open(f2p.py_path).read(), f2p.mod_name, parsed
    finally:
        shutil.rmtree(d, ignore_errors=True)

# ------------------------------------------------------------------------------------------------
# CPython's ast -> JSON -> Coq
_BIN = {ast.Add: 'BAdd', ast.Sub: 'BSub', ast.Mult: 'BMul', ast.Div: 'BDiv', ast.Pow: 'BPow', ast.FloorDiv: 'BFloorDiv', ast.Mod: 'BMod'}
_CMP = {ast.Eq: 'Ceq', ast.NotEq: 'Cne', ast.Lt: 'Clt', ast.LtE: 'Cle', ast.Gt: 'Cgt', ast.GtE: 'Cge'}

def _dotted(n):
    if isinstance(n, ast.Name): return n.id
    if isinstance(n, ast.Attribute):
        b = _dotted(n.value)
        return None if b is None else b + '.' + n.attr
    return None

def ex_json(n):
    if isinstance(n, ast.Constant):
        if isinstance(n.value, bool): return ['PBoolLit', n.value]
        if isinstance(n.value, int): return ['PNum', n.value]
        return ['PBad']
    if isinstance(n, ast.Name): return ['PName', n.id]
    if isinstance(n, ast.BinOp) and type(n.op) in _BIN: return ['PBin', _BIN[type(n.op)], ex_json(n.left), ex_json(n.right)]
    if isinstance(n, ast.UnaryOp):
        if isinstance(n.op, ast.USub): return ['PNeg', ex_json(n.operand)]
        if isinstance(n.op, ast.Not): return ['PNot', ex_json(n.operand)]
        return ['PBad']
    if isinstance(n, ast.Compare):
        if len(n.ops) == 1 and type(n.ops[0]) in _CMP: return ['PCmp', _CMP[type(n.ops[0])], ex_json(n.left), ex_json(n.comparators[0])]
        return ['PBad']
    if isinstance(n, ast.BoolOp): return ['PBoolOp', isinstance(n.op, ast.And), [ex_json(v) for v in n.values]]
    if isinstance(n, ast.Call):
        f = _dotted(n.func)
        if f is None or n.keywords: return ['PBad']
        return ['PCall', f, [ex_json(a) for a in n.args]]
    if isinstance(n, ast.Subscript) and isinstance(n.value, ast.Name):
        sl = n.slice
        idx = list(sl.elts) if isinstance(sl, ast.Tuple) else [sl]
        return ['PIndex', n.value.id, [ex_json(i) for i in idx]]
    return ['PBad']

def st_json(n):
    if isinstance(n, ast.Assign) and len(n.targets) == 1:
        t = n.targets[0]
        if isinstance(t, ast.Name): return ['YAssign', t.id, ex_json(n.value)]
        if isinstance(t, ast.Subscript):
            j = ex_json(t)
            if j[0] == 'PIndex': return ['YStore', j[1], j[2], ex_json(n.value)]
        return ['YBad']
    if isinstance(n, ast.For) and isinstance(n.target, ast.Name) and not n.orelse:
        c = n.iter
        if isinstance(c, ast.Call) and isinstance(c.func, ast.Name) and c.func.id == 'range' and not c.keywords:
            return ['YFor', n.target.id, [ex_json(a) for a in c.args], [st_json(s) for s in n.body]]
        return ['YBad']
    if isinstance(n, ast.While) and not n.orelse: return ['YWhile', ex_json(n.test), [st_json(s) for s in n.body]]
    if isinstance(n, ast.If): return ['YIf', ex_json(n.test), [st_json(s) for s in n.body], [st_json(s) for s in n.orelse]]
    if isinstance(n, ast.Expr) and isinstance(n.value, ast.Call):
        j = ex_json(n.value)
        if j[0] == 'PCall': return ['YCall', j[1], j[2]]
        return ['YBad']
    if isinstance(n, ast.Return):
        v = n.value
        if v is None: return ['YReturn', []]
        if isinstance(v, ast.Name): return ['YReturn', [v.id]]
        if isinstance(v, ast.Tuple) and all(isinstance(e, ast.Name) for e in v.elts): return ['YReturn', [e.id for e in v.elts]]
    return ['YBad']

def func_json(pysrc):
    """the generated module as CPython parses it: {'name','params','body'}; None when it is not Python"""
    try:
        mod = ast.parse(pysrc)
    except SyntaxError:
        return None
    fs = [n for n in mod.body if isinstance(n, ast.FunctionDef)]
    if len(fs) != 1: return None
    f = fs[0]
    return {'name': f.name, 'params': [a.arg for a in f.args.args], 'body': [st_json(s) for s in f.body]}

def ex_coq(j):
    k = j[0]
    if k == 'PBad': return C('PBad')
    if k in ('PNum', 'PName', 'PBoolLit'): return C(k, j[1])
    if k == 'PBin': return C('PBin', C(j[1]), ex_coq(j[2]), ex_coq(j[3]))
    if k in ('PNeg', 'PNot'): return C(k, ex_coq(j[1]))
    if k == 'PCmp': return C('PCmp', C(j[1]), ex_coq(j[2]), ex_coq(j[3]))
    if k == 'PBoolOp': return C('PBoolOp', bool(j[1]), [ex_coq(x) for x in j[2]])
    if k in ('PCall', 'PIndex'): return C(k, j[1], [ex_coq(x) for x in j[2]])
    raise ValueError(j)

def st_coq(j):
    k = j[0]
    if k == 'YBad': return C('YBad')
    if k == 'YAssign': return C('YAssign', j[1], ex_coq(j[2]))
    if k == 'YStore': return C('YStore', j[1], [ex_coq(x) for x in j[2]], ex_coq(j[3]))
    if k == 'YFor': return C('YFor', j[1], [ex_coq(x) for x in j[2]], [st_coq(x) for x in j[3]])
    if k == 'YWhile': return C('YWhile', ex_coq(j[1]), [st_coq(x) for x in j[2]])
    if k == 'YIf': return C('YIf', ex_coq(j[1]), [st_coq(x) for x in j[2]], [st_coq(x) for x in j[3]])
    if k == 'YCall': return C('YCall', j[1], [ex_coq(x) for x in j[2]])
    if k == 'YReturn': return C('YReturn', list(j[1]))
    raise ValueError(j)

def func_coq(fj):
    return C('Build_pyfunc', fj['name'], list(fj['params']), [st_coq(s) for s in fj['body']])

# ------------------------------------------------------------------------------------------------
# executing the generated function
def canon(v):
    import numpy as np
    if isinstance(v, (bool, np.bool_)): return ['b', bool(v)]
    if isinstance(v, (int, np.integer)): return ['i', int(v)]
    if isinstance(v, (float, np.floating)):
        if not math.isfinite(float(v)): return ['other', repr(float(v))]
        fr = Fraction(float(v)).limit_denominator(10 ** 6)
        return ['f', fr.numerator, fr.denominator]
    return ['other', type(v).__name__]

def canon_exc(e):
    if isinstance(e, NameError):
        nm = getattr(e, 'name', None)
        if nm is None:
            import re
            m = re.search(r"'([^']+)'", str(e)); nm = m.group(1) if m else '?'
        return ['exc', type(e).__name__, nm]
    return ['exc', type(e).__name__, str(e)[:80]]

def np_arrays(u, store):
    import numpy as np
    out = {}
    for a, dims in u.get('arrays', {}).items():
        arr = np.zeros(tuple(h - l + 1 for l, h in dims), dtype=np.int32, order='F')
        for idx, v in store.get(a, {}).items():
            arr[tuple(i - l for i, (l, _) in zip(idx, dims))] = v
        out[a] = arr
    return out

def exec_py(pysrc, fname, u, store):
    """run the generated function on `store`; returns {'ret': {name: canon}, 'arrays': {name: {idx: int}}} or {'exc': [...]}"""
    import numpy as np
    ns = {}
    try:
        exec(compile(pysrc, '<generated>', 'exec'), ns)     # the module imports numpy itself
    except SyntaxError as e:
        return {'exc': ['exc', 'SyntaxError', str(e)[:80]]}
    f = ns[fname]
    it = u.get('intents', {})
    arrs = np_arrays(u, store)
    actual = []
    for x in u['args']:
        if x in arrs: actual.append(arrs[x])
        elif it.get(x) == 'out': continue
        elif x in u.get('logicals', []): actual.append(bool(store.get(x, 0)))
        else: actual.append(int(store.get(x, 0)))
    rets = [x for x in u['args'] if x not in arrs and it.get(x) in ('inout', 'out')]
    try:
        with warnings.catch_warnings():
            warnings.simplefilter('ignore')
            with np.errstate(all='ignore'):
                val = f(*actual)
    except Exception as e:            # pylint: disable=broad-except
        return {'exc': canon_exc(e)}
    if len(rets) == 0: vals = []
    elif len(rets) == 1: vals = [val]
    else: vals = list(val) if isinstance(val, tuple) and len(val) == len(rets) else None
    if vals is None: return {'exc': ['exc', 'ReturnShape', repr(val)[:60]]}
    out = {'ret': {x: canon(v) for x, v in zip(rets, vals)}, 'arrays': {}}
    for a, dims in u.get('arrays', {}).items():
        cells = {}
        for pos in itertools.product(*[range(h - l + 1) for l, h in dims]):
            cells[','.join(str(p + l) for p, (l, _) in zip(pos, dims))] = canon(arrs[a][pos])
        out['arrays'][a] = cells
    return out

# ------------------------------------------------------------------------------------------------
# reference interpreter of the ORIGINAL routine (MiniF semantics incl. logical scalars) with an overflow guard
class Big(Exception): pass
Stuck = minif.Stuck

def _chk(v):
    if abs(v) >= LIM: raise Big()
    return v

def r_ev(s, st):
    k = s[0]
    if k in ('py', 'int'): return s[1]
    if k == 'var':
        v = st.get(s[1], 0)
        if isinstance(v, dict): raise Stuck('array as scalar')
        return int(v)
    if k == 'sum': return _chk(sum(r_ev(c, st) for c in s[2:]))
    if k == 'prod':
        r = 1
        for c in s[2:]: r = _chk(r * r_ev(c, st))
        return r
    if k == 'quot':
        a, b = r_ev(s[2], st), r_ev(s[3], st)
        if b == 0: raise Stuck('div0')
        return tdiv(a, b)
    if k == 'pow':
        a, n = r_ev(s[2], st), r_ev(s[3], st)
        if abs(n) > 40: raise Big()
        if n >= 0: return _chk(a ** n)
        if a == 0: raise Stuck('0**neg')
        return tdiv(1, _chk(a ** (-n)))
    if k == 'call':
        args = [r_ev(c, st) for c in s[2:]]
        f = s[1]
        if f == 'mod':
            if args[1] == 0: raise Stuck('mod0')
            return args[0] - args[1] * tdiv(args[0], args[1])
        if f == 'modulo':
            if args[1] == 0: raise Stuck('mod0')
            return args[0] % args[1]
        if f == 'abs': return abs(args[0])
        if f == 'min': return min(args)
        if f == 'max': return max(args)
        if f == 'sign': return abs(args[0]) if args[1] >= 0 else -abs(args[0])
        arr = st.get(f)
        if not isinstance(arr, dict): raise Stuck('not an array: ' + f)
        if tuple(args) not in arr: raise Stuck('out of bounds %s%s' % (f, tuple(args)))
        return arr[tuple(args)]
    raise Stuck('int expr ' + k)

def r_evb(s, st):
    k = s[0]
    if k == 'log': return bool(s[1])
    if k == 'var': return bool(st.get(s[1], False))
    if k == 'cmp':
        l, r = r_ev(s[2], st), r_ev(s[3], st)
        return {'==': l == r, '!=': l != r, '<': l < r, '<=': l <= r, '>': l > r, '>=': l >= r}[s[1]]
    if k == 'and': return all([r_evb(c, st) for c in s[1:]])
    if k == 'or': return any([r_evb(c, st) for c in s[1:]])
    if k == 'not': return not r_evb(s[1], st)
    raise Stuck('logical expr ' + k)

def is_logic(s): return s[0] in ('log', 'cmp', 'and', 'or', 'not')

def ref_run(ss, st, logicals=(), budget=None):
    budget = budget if budget is not None else [20000]
    for s in ss:
        budget[0] -= 1
        if budget[0] < 0: raise Stuck('budget')
        k = s[0]
        if k == 'assign':
            st[s[1]] = r_evb(s[2], st) if s[1] in logicals else r_ev(s[2], st)
        elif k == 'store':
            idx = tuple(r_ev(i, st) for i in s[2]); v = r_ev(s[3], st)
            if not isinstance(st.get(s[1]), dict) or idx not in st[s[1]]: raise Stuck('store out of bounds')
            st[s[1]][idx] = v
        elif k == 'do':
            a, b = r_ev(s[2], st), r_ev(s[3], st)
            d = 1 if s[4] is None else r_ev(s[4], st)
            if d == 0: raise Stuck('zero step')
            n = max(0, tdiv(b - a + d, d))
            i = a
            for _ in range(n):
                st[s[1]] = i
                ref_run(s[5], st, logicals, budget)
                i += d
            st[s[1]] = i
        elif k == 'while':
            while r_evb(s[1], st):
                budget[0] -= 1
                if budget[0] < 0: raise Stuck('budget')
                ref_run(s[2], st, logicals, budget)
        elif k == 'if':
            ref_run(s[2] if r_evb(s[1], st) else s[3], st, logicals, budget)
        elif k == 'skip': pass
        else: raise ValueError(s)
    return st

def copy_store(st): return {k: (dict(v) if isinstance(v, dict) else v) for k, v in st.items()}
def store_json(st): return {k: ({','.join(map(str, i)): v for i, v in d.items()} if isinstance(d, dict) else d) for k, d in st.items()}
def store_unjson(sj): return {k: ({tuple(int(x) for x in i.split(',')): v for i, v in d.items()} if isinstance(d, dict) else d) for k, d in sj.items()}

def ref_outputs(u, store):
    """final values of the observable outputs of the original: returned scalars and all array cells; None when the run is
    outside the comparable domain (run-time error, overflow)"""
    st = copy_store(store)
    try:
        ref_run(u['body'], st, tuple(u.get('logicals', [])))
    except (Stuck, Big):
        return None
    it = u.get('intents', {})
    rets = {x: st.get(x, 0) for x in u['args'] if x not in u.get('arrays', {}) and it.get(x) in ('inout', 'out')}
    arrs = {a: {','.join(map(str, i)): v for i, v in st[a].items()} for a in u.get('arrays', {})}
    return {'ret': rets, 'arrays': arrs}

def compare_outputs(ref, got):
    """None if the executed Python produced exactly the reference outputs, else a description"""
    if 'exc' in got: return 'the generated Python raised %s(%s)' % (got['exc'][1], got['exc'][2])
    for x, v in ref['ret'].items():
        g = got['ret'].get(x)
        want = ['b', bool(v)] if isinstance(v, bool) else ['i', int(v)]
        if g != want: return 'returned %s = %s, the Fortran routine gives %s' % (x, g, want)
    for a, cells in ref['arrays'].items():
        for i, v in cells.items():
            g = got['arrays'][a].get(i)
            if g != ['i', int(v)]: return '%s(%s) = %s, the Fortran routine gives %s' % (a, i, g, v)
    return None

# ------------------------------------------------------------------------------------------------
# python ports of M_C36.py_class / faithful (tied to the Coq definitions by chk_class on every 'expr' case)
def is_py_m1(s): return s[0] == 'py' and s[1] == -1
def is_m1(s): return s[0] in ('py', 'int') and s[1] == -1
def term_neg(s): return s[0] == 'prod' and not s[1] and len(s) > 2 and is_py_m1(s[2])
def open_sum(s): return s[0] == 'sum' and not s[1]
def open_mul(s):
    if s[0] == 'prod' and not s[1]:
        if len(s) == 4: return not is_m1(s[2])
        return True
    return s[0] == 'quot' and not s[1]

M1 = ['prod', False, ['py', -1], ['int', 1]]
def shift_idx(d):
    if d[0] == 'sum': return ['sum', False] + d[2:] + [M1]
    if d == ['int', 0]: return M1
    return ['sum', False, d, M1]

def pre_py(arrs, s):
    k = s[0]
    if k in ('int', 'py', 'var', 'log'): return s
    if k in ('sum', 'prod'): return [k, s[1]] + [pre_py(arrs, c) for c in s[2:]]
    if k in ('quot', 'pow'): return [k, s[1], pre_py(arrs, s[2]), pre_py(arrs, s[3])]
    if k == 'cmp': return ['cmp', s[1], pre_py(arrs, s[2]), pre_py(arrs, s[3])]
    if k in ('and', 'or'): return [k] + [pre_py(arrs, c) for c in s[1:]]
    if k == 'not': return ['not', pre_py(arrs, s[1])]
    if k == 'call':
        if s[1] in arrs: return ['call', s[1]] + [shift_idx(d) for d in s[2:]]
        if s[1] == 'sign' and len(s) == 4:
            return ['prod', False, pre_py(arrs, s[2]), ['call', 'np.sign', pre_py(arrs, s[3])]]
        return ['call', s[1]] + [pre_py(arrs, c) for c in s[2:]]
    raise ValueError(s)

def prod_ok(cs):
    if not cs: return False
    if len(cs) == 2: return not open_mul(cs[1])
    return all(not open_mul(c) for c in cs[1:])

def faithful(s, t=False):
    k = s[0]
    if k in ('int', 'py', 'var', 'log'): return True
    if k == 'sum':
        cs = s[2:]
        if len(cs) < 2 or not all(faithful(c, True) for c in cs): return False
        c0 = cs[0]
        if term_neg(c0) and not (len(c0) == 4 and not open_mul(c0[3])): return False
        return all(term_neg(c) or not open_sum(c) for c in cs[1:])
    if k == 'prod':
        cs = s[2:]
        if not all(faithful(c) for c in cs): return False
        return prod_ok(cs[1:]) if (t and term_neg(s)) else prod_ok(cs)
    if k == 'quot': return faithful(s[2]) and faithful(s[3])
    if k == 'pow':
        b = s[2]
        return faithful(b) and faithful(s[3]) and not (b[0] == 'pow' and not b[1]) and not (b[0] == 'int' and b[1] < 0)
    if k == 'cmp': return faithful(s[2]) and faithful(s[3]) and s[2][0] != 'cmp' and s[3][0] != 'cmp'
    if k in ('and', 'or'): return len(s) >= 3 and all(faithful(c) for c in s[1:])
    if k == 'not': return faithful(s[1])
    if k == 'call': return all(faithful(c) for c in s[2:])
    return False

def no_arr(arrs, s):
    k = s[0]
    if k in ('int', 'py', 'var', 'log'): return True
    if k == 'call': return s[1] not in arrs and all(no_arr(arrs, c) for c in s[2:])
    return all(no_arr(arrs, c) for c in s if isinstance(c, list))

def py_class(arrs, s):
    k = s[0]
    if k in ('int', 'py', 'var'): return True
    if k == 'sum': return len(s) > 2 and all(py_class(arrs, c) for c in s[2:])
    if k == 'prod':
        return len(s) > 2 and all(py_class(arrs, c) for c in s[2:]) and not (term_neg(s) and len(s) == 3)
    if k == 'pow': return s[3][0] == 'int' and s[3][1] >= 0 and py_class(arrs, s[2])
    if k == 'call':
        args = s[2:]
        if not all(py_class(arrs, c) for c in args): return False
        if s[1] in arrs: return all(no_arr(arrs, c) for c in args)
        return (s[1] in ('min', 'max') and len(args) >= 2) or (s[1] == 'abs' and len(args) == 1)
    return False

def py_class_b(arrs, s):
    k = s[0]
    if k == 'log': return True
    if k == 'cmp': return py_class(arrs, s[2]) and py_class(arrs, s[3])
    if k in ('and', 'or'): return len(s) >= 3 and all(py_class_b(arrs, c) for c in s[1:])
    if k == 'not': return py_class_b(arrs, s[1])
    return False

def in_class(arrs, s): return py_class(arrs, s) or py_class_b(arrs, s)

# ------------------------------------------------------------------------------------------------
# generators
SC_IN, SC_IO, SC_OUT, SC_LOC = ['n', 'm'], ['r', 'k'], ['q'], ['s', 't']
ARRAYS = {'a': [[1, BND]], 'b': [[1, BND], [1, 3]]}

def base_unit(name, body, arrays=None, extra=None):
    arrays = ARRAYS if arrays is None else arrays
    # argument order interleaves in / out / inout scalars (the order of the returned tuple and of the C pointer arguments matters)
    u = {'name': name, 'args': [SC_IN[0]] + SC_OUT + [SC_IN[1]] + SC_IO + sorted(arrays),
         'scalars': SC_IN + SC_IO + SC_OUT + SC_LOC + ['i', 'j'], 'arrays': arrays, 'body': body,
         'intents': dict([(x, 'in') for x in SC_IN] + [(x, 'inout') for x in SC_IO] + [(x, 'out') for x in SC_OUT] + [(a, 'inout') for a in arrays])}
    if extra: u.update(extra)
    return u

def I(v): return ['int', v]
def V(x): return ['var', x]
def neg(e): return ['prod', False, ['py', -1], e]
def clamp(e, hi): return ['call', 'min', ['call', 'max', e, I(1)], I(hi)]

class Gen:
    """random routines inside the class: no integer division, only min/max/abs, no nested subscripts, unit strides or strides
    that divide the range, loop variables only read inside their loop, every scalar assigned before it is read"""
    def __init__(self, rng, arrays=None, quot=False, mod=False, bound=BND):
        self.rng, self.arrays, self.quot, self.mod, self.bound = rng, (ARRAYS if arrays is None else arrays), quot, mod, bound
        self.rd = SC_IN + SC_IO + SC_OUT + SC_LOC
        self.wr = SC_IO + SC_OUT + SC_LOC

    def idx(self, free, ext):
        rng = self.rng
        ch = rng.random()
        if free and ch < 0.55: return clamp(V(rng.choice(free)), ext) if ext < self.bound else V(rng.choice(free))
        if ch < 0.8: return I(rng.randint(1, ext))
        if ch < 0.9: return clamp(V(rng.choice(self.rd)), ext)
        return clamp(['sum', False, V(rng.choice(self.rd)), I(rng.randint(0, 2))], ext)

    def aread(self, free):
        a = self.rng.choice(sorted(self.arrays))
        return ['call', a] + [self.idx(free, h - l + 1) for l, h in self.arrays[a]]

    def ex(self, d, free):
        rng = self.rng
        r = rng.random()
        if d <= 0 or r < 0.28:
            c = rng.random()
            if c < 0.3: return I(rng.randint(0, 5))
            if c < 0.75: return V(rng.choice(self.rd + list(free)))
            return self.aread(free)
        if r < 0.48: return ['sum', False, self.ex(d - 1, free), self.ex(d - 1, free)]
        if r < 0.62: return ['sum', False, self.ex(d - 1, free), neg(self.ex(d - 1, free))]
        if r < 0.78: return ['prod', False, self.ex(d - 1, free), self.ex(d - 1, free)]
        if r < 0.84: return neg(self.ex(d - 1, free))
        if r < 0.92:
            f = rng.choice(['min', 'max', 'abs'])
            return ['call', f] + [self.ex(d - 1, free) for _ in range(1 if f == 'abs' else rng.choice([2, 2, 3]))]
        if r < 0.96: return ['pow', False, self.ex(d - 1, free), I(rng.choice([0, 1, 2, 2, 3]))]
        if self.quot:
            den = self.ex(d - 1, free)
            return ['quot', False, self.ex(d - 1, free), ['sum', True, ['prod', False, den, den], I(1)]]
        if self.mod:
            den = self.ex(d - 1, free)
            return ['call', 'mod', self.ex(d - 1, free), ['sum', False, ['prod', False, den, den], I(1)]]
        return ['sum', False, self.ex(d - 1, free), I(1)]

    def cond(self, d, free):
        rng = self.rng
        r = rng.random()
        if d <= 0 or r < 0.5:
            return ['cmp', rng.choice(['<', '<=', '>', '>=', '==', '!=']), self.ex(1, free), self.ex(1, free)]
        if r < 0.65: return ['not', self.cond(d - 1, free)]
        k = rng.choice(['and', 'or'])
        return [k] + [self.cond(d - 1, free) for _ in range(rng.choice([2, 2, 3]) if d <= 1 else 2)]

    def loop_header(self):
        rng = self.rng
        B = self.bound
        r = rng.random()
        if r < 0.45: return I(1), I(rng.randint(1, B)), None
        if r < 0.55: return I(rng.randint(1, B)), I(B), I(1)
        if r < 0.7: return I(rng.randint(1, B)), I(1), rng.choice([I(-1), neg(I(1))])
        if r < 0.8: return I(1), clamp(V(rng.choice(SC_IN)), B), None
        if r < 0.88: return I(rng.randint(2, B)), I(rng.randint(0, 1)), None          # zero-trip loop
        lo = rng.randint(1, 2); t = rng.randint(0, (B - lo) // 2)
        if rng.random() < 0.5: return I(lo), I(lo + 2 * t), I(2)
        return I(lo + 2 * t), I(lo), I(-2)

    def stmts(self, d, n, free):
        rng = self.rng
        out = []
        for _ in range(n):
            r = rng.random()
            if d > 0 and r < 0.28 and len(free) < 2:
                v = ('i', 'j')[len(free)]
                lo, hi, st = self.loop_header()
                out.append(['do', v, lo, hi, st, self.stmts(d - 1, rng.randint(1, 3), free + [v])])
            elif d > 0 and r < 0.5:
                out.append(['if', self.cond(rng.choice([0, 1, 1]), free), self.stmts(d - 1, rng.randint(1, 2), free),
                            self.stmts(d - 1, rng.randint(0, 2), free)])
            elif r < 0.72:
                a = rng.choice(sorted(self.arrays))
                out.append(['store', a, [self.idx(free, h - l + 1) for l, h in self.arrays[a]], self.ex(2, free)])
            else:
                out.append(['assign', rng.choice(self.wr), self.ex(2, free)])
        return out

    def body(self, n=4, depth=2):
        init = [['assign', x, I(self.rng.randint(0, 3))] for x in SC_OUT + SC_LOC]
        return init + self.stmts(depth, n, [])

def gen_store(rng, u, lo=-3, hi=5):
    st = {}
    it = u['intents']
    for x in u['args']:
        if x in u['arrays']:
            st[x] = {idx: rng.randint(lo, hi) for idx in itertools.product(*[range(l, h + 1) for l, h in u['arrays'][x]])}
        elif it[x] in ('in', 'inout'):
            st[x] = rng.randint(lo, hi)
    return st

EXPR_ARRAYS = {'a': [[1, 4]], 'b': [[1, 3], [1, 2]]}
def expr_unit(e):
    logical = is_logic(e)
    u = {'name': 'ex', 'args': ['n', 'm', 'k', 'res', 'a', 'b'], 'scalars': ['n', 'm', 'k'] + ([] if logical else ['res']),
         'logicals': ['res'] if logical else [], 'arrays': EXPR_ARRAYS, 'body': [['assign', 'res', e]],
         'intents': {'n': 'in', 'm': 'in', 'k': 'in', 'res': 'out', 'a': 'inout', 'b': 'inout'}}
    return u

def gen_expr(rng, d, mode):
    """mode 'class': inside the class (with array reads); 'scalar': scalars only, with true division, negative exponents,
    unmapped intrinsics and zero divisors"""
    sc = ['n', 'm', 'k']
    def idx(ext):
        c = rng.random()
        if c < 0.5: return I(rng.randint(1, ext))
        return clamp(V(rng.choice(sc)) if c < 0.8 else ['sum', False, V(rng.choice(sc)), I(1)], ext)
    def go(d, fl):
        """fl: a float may already flow through this position (then no exponent/index uses it)"""
        r = rng.random()
        if d <= 0 or r < 0.25:
            c = rng.random()
            if c < 0.35: return I(rng.randint(0, 6))
            if c < 0.85 or mode != 'class': return V(rng.choice(sc))
            a = rng.choice(sorted(EXPR_ARRAYS))
            return ['call', a] + [idx(h - l + 1) for l, h in EXPR_ARRAYS[a]]
        if r < 0.42: return ['sum', False, go(d - 1, fl), go(d - 1, fl)]
        if r < 0.55: return ['sum', False, go(d - 1, fl), neg(go(d - 1, fl))]
        if r < 0.68: return ['prod', False, go(d - 1, fl), go(d - 1, fl)]
        if r < 0.74: return neg(go(d - 1, fl))
        if r < 0.82:
            f = rng.choice(['min', 'max', 'abs'])
            return ['call', f] + [go(d - 1, fl) for _ in range(1 if f == 'abs' else rng.choice([2, 2, 3]))]
        if mode == 'class':
            return ['pow', False, go(d - 1, fl), I(rng.choice([0, 1, 2, 3]))]
        if r < 0.88: return ['pow', False, go(d - 1, fl), I(rng.choice([0, 1, 2, 3, -1, -2]))]
        if r < 0.97: return ['quot', False, go(d - 1, fl), go(d - 1, fl)]
        return ['call', rng.choice(['mod', 'modulo']), go(d - 1, fl), go(d - 1, fl)]
    return go(d, False)

def gen_cond(rng, d, mode):
    def go(d):
        r = rng.random()
        if d <= 0 or r < 0.45:
            if r < 0.05: return ['log', rng.random() < 0.5]
            return ['cmp', rng.choice(['<', '<=', '>', '>=', '==', '!=']), gen_expr(rng, rng.choice([0, 1, 2]), 'class'), gen_expr(rng, rng.choice([0, 1]), 'class')]
        if r < 0.6: return ['not', go(d - 1)]
        return [rng.choice(['and', 'or'])] + [go(d - 1) for _ in range(rng.choice([2, 2, 3]))]
    return go(d)

# ------------------------------------------------------------------------------------------------
# witnesses given as Fortran source (constructs outside MiniF); reference = gfortran
def gfortran_reference(src, u, store):
    """compile and run the ORIGINAL source with gfortran; returns outputs in the format of ref_outputs, or a string"""
    spec_sc = [x for x in u['args'] if x not in u['arrays'] and u['intents'][x] in ('inout', 'out')]
    cells = [(a, idx) for a in sorted(u['arrays']) for idx in itertools.product(*[range(l, h + 1) for l, h in u['arrays'][a]])]
    lines = ['program lv_main', '  implicit none']
    for x in u['args']:
        if x in u['arrays']: lines.append('  integer :: %s(%s)' % (x, ', '.join('%d:%d' % (l, h) for l, h in u['arrays'][x])))
        elif x in u.get('logicals', []): lines.append('  logical :: %s' % x)
        else: lines.append('  integer :: %s' % x)
    for x in u['args']:
        v = store.get(x, 0)
        if x in u['arrays']:
            lines.append('  %s = 0' % x)
            for idx, val in sorted(v.items()): lines.append('  %s(%s) = %d' % (x, ', '.join(map(str, idx)), val))
        elif x in u.get('logicals', []): lines.append('  %s = %s' % (x, '.true.' if v else '.false.'))
        else: lines.append('  %s = %d' % (x, v))
    lines.append('  call %s(%s)' % (u['name'], ', '.join(u['args'])))
    for x in spec_sc:
        lines.append("  print '(I0)', %s" % ('merge(1, 0, %s)' % x if x in u.get('logicals', []) else x))
    for a, idx in cells: lines.append("  print '(I0)', %s(%s)" % (a, ', '.join(map(str, idx))))
    lines.append('end program lv_main')
    ok, txt = minif.gfortran_run([src], '\n'.join(lines))
    if not ok: return 'gfortran: ' + txt[-300:]
    vals = [int(x) for x in txt.split()]
    if len(vals) != len(spec_sc) + len(cells): return 'gfortran: unexpected output'
    ret = {}
    for x, v in zip(spec_sc, vals): ret[x] = bool(v) if x in u.get('logicals', []) else v
    arrs = {}
    for (a, idx), v in zip(cells, vals[len(spec_sc):]): arrs.setdefault(a, {})[','.join(map(str, idx))] = v
    return {'ret': ret, 'arrays': arrs}

# ------------------------------------------------------------------------------------------------
class C36(Property):
    id = 'C36'
    imports = ['Base.Expr', 'Base.MiniF', 'models.M_C36']
    theorem_file = 'theories/props/T_C36.v'
    parallel = True
    shard = 120
    rule = ('random MiniF routines inside the class (integer scalars in/inout/out/local, 1-D and 2-D arrays, assignments, stores, DO loops with '
            'unit strides / strides dividing the range / zero trips / bounds from arguments, IF with and/or/not conditions, min/max/abs, small '
            'powers; no integer division, no unmapped intrinsic, no nested subscripts) -> Fortran text -> Loki frontend -> the real '
            'FortranPythonTransformation -> Python source; tie: the function CPython\'s ast.parse builds from that source = M_C36.func_model of '
            'the routine (and the routine is in the class on which the structural map is claimed); oracle: the generated function is EXECUTED on 3 '
            'stores (numpy int32 arrays, python ints) and every returned scalar and array cell is compared with the reference interpreter of the '
            'original (thorough: and with gfortran). Single-expression routines (arithmetic and logical, inside the class with array reads, and '
            'outside it with true division, negative exponents, mod/modulo and zero divisors on scalars): the executed result (int / float / bool '
            '/ exception) = MiniPy evalPy of the model; inside the class it must equal the Fortran value. DO headers: the trips enumerated by the '
            'executed range() = model pygen_range (all strides), inside the class = Fortran trips. Array sections a(l:u:s) = 1: positions set by '
            'the executed code = model pygen_slice, inside the class = the Fortran section. Distinct = distinct routine bodies / expressions.')
    modelled_not_verified = [
        'S (PyCodeMapper followed by CPython\'s parser) is a structural map claimed only on the decidable class `faithful`; it is compared with ast.parse of the real text on every case, not proved against a grammar of Python',
        'statement-level semantics of the generated Python (for/if/assignment, return tuple) is not modelled in Coq: whole routines are checked by executing them against the reference interpreter (differential only)',
        'MiniPy floats are exact rationals; CPython/numpy floats are compared after rounding to the nearest fraction with denominator <= 10^6',
        'numpy scalar corner cases (int32 overflow, np.int32 ** negative, division of numpy scalars by zero giving inf) are outside the model; generated values stay below 2^30 and such operands are python ints',
        'REAL arithmetic, derived types, array sections on the right-hand side, local arrays, CALL statements, DaCe output (with_dace) and invert_indices=True are not covered',
        'the reference interpreter of MiniF (validated against gfortran in the thorough tier) defines the Fortran side; run-time errors and overflow are excluded',
    ]

    # -- generation -------------------------------------------------------------------------------
    def generate(self, rng, tier):
        quick = tier == 'quick'
        n = int(os.environ.get('LOKI_VERIF_C36_N', '0')) or (320 if quick else 2000)
        for i in range(n):
            r = rng.random()
            if r < 0.45:
                g = Gen(rng)
                body = g.body(n=rng.choice([2, 3, 4]), depth=rng.choice([1, 2, 2]))
                u = base_unit('rt', body)
                c = {'kind': 'routine', 'unit': u, 'stores': [store_json(gen_store(rng, u)) for _ in range(3)]}
                if not quick and rng.random() < 0.15: c['gfortran'] = True
                yield c
            elif r < 0.65:
                e = gen_expr(rng, rng.choice([1, 2, 2, 3]), 'class')
                u = expr_unit(e)
                yield {'kind': 'expr-class', 'unit': u, 'stores': [store_json(gen_store(rng, u))]}
            elif r < 0.78:
                e = gen_expr(rng, rng.choice([1, 2, 2, 3]), 'scalar')
                u = expr_unit(e)
                yield {'kind': 'expr-scalar', 'unit': u, 'stores': [store_json(gen_store(rng, u, lo=-3, hi=4))]}
            elif r < 0.88:
                e = gen_cond(rng, rng.choice([0, 1, 2]), 'class')
                u = expr_unit(e)
                yield {'kind': 'cond', 'unit': u, 'stores': [store_json(gen_store(rng, u))]}
            elif r < 0.95:
                s = rng.choice([1, 1, -1, 2, -2, 3, -3, None])
                a, b = rng.randint(-2, 7), rng.randint(-2, 7)
                yield {'kind': 'range', 'a': a, 'b': b, 's': s, 'neg_as_product': rng.random() < 0.5}
            else:
                ln = rng.randint(3, 8)
                s = rng.choice([None, 1, 2, 3, -1, -2])
                l, uu = rng.randint(1, ln), rng.randint(0, ln)
                yield {'kind': 'slice', 'len': ln, 'l': l, 'u': uu, 's': s}

    # -- implementation ---------------------------------------------------------------------------
    def _unit_of(self, case):
        k = case['kind']
        if k == 'range':
            a, b, s = case['a'], case['b'], case['s']
            se = None if s is None else (neg(I(-s)) if (s < 0 and case.get('neg_as_product')) else I(s))
            body = [['assign', 'cnt', I(0)],
                    ['do', 'i', I(a), I(b), se, [['assign', 'cnt', ['sum', False, V('cnt'), I(1)]], ['store', 'seq', [V('cnt')], V('i')]]]]
            return {'name': 'rg', 'args': ['cnt', 'seq'], 'scalars': ['cnt', 'i'], 'arrays': {'seq': [[1, 24]]}, 'body': body,
                    'intents': {'cnt': 'out', 'seq': 'inout'}}
        return case['unit']

    def _source(self, case):
        if case['kind'] == 'slice':
            s = case['s']
            sec = '%d:%d' % (case['l'], case['u']) + ('' if s is None else ':%d' % s)
            return ('subroutine sl(a)\n  implicit none\n  integer, intent(inout) :: a(1:%d)\n  a(%s) = 1\nend subroutine sl\n' % (case['len'], sec))
        if 'src' in case: return case['src']
        return unit_src(self._unit_of(case))

    def run_impl(self, case):
        src = self._source(case)
        try:
            pysrc, fname, parsed = transpile_py(src)
        except Exception as e:          # pylint: disable=broad-except
            return {'crash': type(e).__name__, 'msg': str(e)[:200]}
        out = {'py': pysrc, 'fname': fname, 'func': func_json(pysrc), 'parsed': parsed}
        if out['func'] is None and any(len(l) > 240 for l in pysrc.split('\n')):
            # pygen wraps lines longer than 300 characters with a bare newline (no backslash): the text is not Python.
            # A loud failure like a transpiler crash, not a behaviour change: counted, not flagged.
            return {'crash': 'line-wrap', 'msg': 'generated line longer than the line width is wrapped without a continuation character', 'py': pysrc}
        k = case['kind']
        if k == 'slice':
            u = {'name': 'sl', 'args': ['a'], 'arrays': {'a': [[1, case['len']]]}, 'intents': {'a': 'inout'}}
            got = exec_py(pysrc, fname, u, {'a': {}})
            out['runs'] = [got]
            if 'exc' not in got:
                out['positions'] = sorted(int(i) - 1 for i, v in got['arrays']['a'].items() if v == ['i', 1])
            return out
        u = case['spec'] if k == 'witness-src' else self._unit_of(case)
        if k == 'range':
            got = exec_py(pysrc, fname, u, {'seq': {}})
            out['runs'] = [got]
            if 'exc' not in got and got['ret']['cnt'][0] == 'i':
                n = got['ret']['cnt'][1]
                out['trips'] = [got['arrays']['seq'][str(j)][1] for j in range(1, n + 1)]
            return out
        out['runs'] = [exec_py(pysrc, fname, u, store_unjson(sj)) for sj in case['stores']]
        if case.get('gfortran') or k == 'witness-src':
            out['gfortran'] = [gfortran_reference(src, u, store_unjson(sj)) for sj in case['stores']]
        return out

    # -- model ------------------------------------------------------------------------------------
    def _obs(self, got, name='res'):
        if 'exc' in got:
            t = got['exc'][1]
            if t == 'NameError': return C('ONameError', got['exc'][2])
            if t == 'ZeroDivisionError': return C('OZeroDiv')
            if t == 'IndexError': return C('OIndexError')
            return C('OOther')
        v = got['ret'][name]
        if v[0] == 'i': return C('OInt', v[1])
        if v[0] == 'b': return C('OBool', v[1])
        if v[0] == 'f': return C('OFloat', v[1], v[2])
        return C('OOther')

    def _pyenv(self, u, store):
        it = u['intents']
        sc = [(x, int(store[x])) for x in u['args'] if x not in u['arrays'] and it[x] in ('in', 'inout')]
        arrs = []
        for a, dims in sorted(u['arrays'].items()):
            cells = [([i - l for i, (l, _) in zip(idx, dims)], int(v)) for idx, v in sorted(store[a].items())]
            arrs.append((a, ([h - l + 1 for l, h in dims], cells)))
        return C('pyenv_of', sc, arrs)

    def model_term(self, case, out):
        if '__exception__' in out or 'crash' in out: return None
        k = case['kind']
        if k == 'range':
            if 'trips' not in out: return None
            s = 1 if case['s'] is None else case['s']
            return coq(C('chk_range', case['a'], case['b'], s, list(out['trips'])))
        if k == 'slice':
            if 'positions' not in out: return None
            s = 1 if case['s'] is None else case['s']
            return coq(C('chk_slice', case['len'], case['l'], case['u'], s, sorted(out['positions'], reverse=(s < 0))))
        if k == 'witness-src': return None
        u = case['unit']
        if out['func'] is None or out['parsed'] is None: return 'false'
        args = [(x, C(kd)) for x, kd in arg_kinds(u)]
        body = minif.stmts_model(out['parsed'])
        parts = [coq(C('chk_func', u['name'], '_py', args, Raw('body'), func_coq(out['func'])))]
        if k in ('expr-class', 'expr-scalar', 'cond'):
            e = out['parsed'][0][2]
            arrs = sorted(u['arrays'])
            parts.append(coq(C('chk_class', arrs, Raw('e'), in_class(arrs, e), faithful(pre_py(arrs, e)))))
            st = store_unjson(case['stores'][0])
            parts.append(coq(C('chk_eval', arrs, Raw('e'), self._pyenv(u, st), self._obs(out['runs'][0]))))
            return '(let e := %s in let body := [SAssign "res" e] in %s)' % (coq(BE.model_of_structure(e)), ' && '.join(parts))
        return '(let body := %s in %s)' % (coq(body), ' && '.join(parts))

    def show_model(self, case, out):
        if case['kind'] in ('range', 'slice', 'witness-src'): return []
        u = case['unit']
        args = [(x, C(kd)) for x, kd in arg_kinds(u)]
        terms = [coq(C('func_model', u['name'], '_py', args, minif.stmts_model(out['parsed'])))]
        if case['kind'] != 'routine':
            e = out['parsed'][0][2]; arrs = sorted(u['arrays'])
            terms.append(coq(C('evalPy', self._pyenv(u, store_unjson(case['stores'][0])), C('pygen_model', arrs, BE.model_of_structure(e)))))
        return terms

    # -- oracle -----------------------------------------------------------------------------------
    def oracle(self, case, out):
        if '__exception__' in out:
            return 'harness/implementation raised %s: %s' % (out['__exception__'], out.get('msg'))
        if 'crash' in out:
            return None        # a transpiler crash is not a behaviour change (counted by nontrivial_key/distribution only)
        k = case['kind']
        force = bool(case.get('force_oracle'))
        if k == 'range':
            a, b, s = case['a'], case['b'], (1 if case['s'] is None else case['s'])
            if not force and (b - a) % s != 0: return None
            n = max(0, tdiv(b - a + s, s))
            want = [a + j * s for j in range(n)]
            if 'trips' not in out: return 'executing the generated loop failed: %s' % (out['runs'][0].get('exc'),)
            if out['trips'] != want: return 'do i = %d, %d, %d runs over %s in Fortran, the generated range() over %s' % (a, b, s, want, out['trips'])
            return None
        if k == 'slice':
            s = 1 if case['s'] is None else case['s']
            if not force and not (s > 0 and case['l'] >= 1 and 0 <= case['u'] <= case['len']): return None
            n = max(0, tdiv(case['u'] - case['l'] + s, s))
            want = [case['l'] + j * s - 1 for j in range(n)]
            if 'positions' not in out: return 'executing the generated section assignment failed: %s' % (out['runs'][0].get('exc'),)
            if out['positions'] != sorted(want):
                return 'a(%d:%d:%d) selects elements %s, the generated slice sets elements %s' % (case['l'], case['u'], s, sorted(w + 1 for w in want), [p + 1 for p in out['positions']])
            return None
        if k == 'witness-src':
            for ref, got in zip(out['gfortran'], out['runs']):
                if isinstance(ref, str): return 'harness: ' + ref
                d = compare_outputs(ref, got)
                if d: return d
            return None
        u = case['unit']
        if out['func'] is None: return 'the generated text is not Python'
        if k in ('expr-scalar',) and not force:
            e = u['body'][0][2]
            if not in_class(sorted(u['arrays']), e): return None
        for j, (sj, got) in enumerate(zip(case['stores'], out['runs'])):
            ref = ref_outputs(u, store_unjson(sj))
            if ref is None: continue
            if 'gfortran' in out:
                g = out['gfortran'][j]
                if isinstance(g, str): return 'harness: ' + g
                if g != ref: return 'harness: reference interpreter and gfortran disagree on the original (%s vs %s)' % (json.dumps(ref)[:200], json.dumps(g)[:200])
            d = compare_outputs(ref, got)
            if d: return '%s  [store %d%s]' % (d, j, ', reference confirmed by gfortran' if 'gfortran' in out else '')
        return None

    def nontrivial_key(self, case, out):
        if not isinstance(out, dict) or 'crash' in out or '__exception__' in out: return None
        k = case['kind']
        if k in ('range', 'slice'): return json.dumps([k] + [case.get(x) for x in ('a', 'b', 's', 'len', 'l', 'u')])
        if k == 'witness-src': return None
        u = case['unit']
        if not any(ref_outputs(u, store_unjson(sj)) is not None for sj in case['stores']): return None
        return json.dumps(u['body'])

    def search(self, rng, bad_cases):
        for _ in range(400):
            g = Gen(rng)
            u = base_unit('rt', g.body(n=rng.choice([1, 2, 3]), depth=rng.choice([1, 2])))
            yield {'kind': 'routine', 'unit': u, 'stores': [store_json(gen_store(rng, u)) for _ in range(3)]}
        for _ in range(400):
            e = gen_expr(rng, rng.choice([1, 2, 3]), 'class') if rng.random() < 0.7 else gen_cond(rng, rng.choice([0, 1, 2]), 'class')
            u = expr_unit(e)
            yield {'kind': 'cond' if is_logic(e) else 'expr-class', 'unit': u, 'stores': [store_json(gen_store(rng, u))]}
        for a in range(-1, 6):
            for b in range(-1, 6):
                for s in (1, -1, 2, -2):
                    if (b - a) % s == 0: yield {'kind': 'range', 'a': a, 'b': b, 's': s, 'neg_as_product': False}

PROP = C36
